"""C03 — slicing, joining, stacking act like array indexing on all fields; no stale cached state; inputs untouched.

Monitors
* shadow model: a dict of plain numpy arrays (xyz, time, lengths, angles) plus the list of surviving original atom
  ids is driven through the numpy equivalent of every operation of a random history; after each operation every field
  of the real Trajectory must equal the model bit-for-bit (indexing/concatenation are exact), all per-frame fields have
  n_frames rows, the topology has xyz.shape[1] atoms carrying the expected original ids.
* memory: np.shares_memory(result.xyz, source.xyz) must be false for every operation that returns a new object; for
  slicing (copy=True), join and atom_slice also time / cell arrays, and no Atom/Residue/Chain object may be shared
  (identity scan); slice(copy=False) is exempt as documented.
* cached traces: trajectories are built centro-symmetric (atoms come in +x/-x pairs, atom subsets take whole pairs), so
  every frame stays centred under all exact operations and `md.rmsd(t, ref, precentered=True)` is a legitimate call at
  any point after center_coordinates(); it is compared on msd with md.rmsd on fresh copies built from the raw arrays
  (tolerance 2e-4*(G_a+G_b)/N + 1e-9: both paths run the same QCP kernel, honest differences are ~1e-6 relative; a
  stale or mis-indexed trace shifts msd by O(G/N)).
* input immutability: byte hashes of every array and a topology fingerprint of the INPUT before and after each of ~45
  analysis/save calls; fields documented as modified in place (rmsd/rmsf/superpose/center_coordinates/lprmsd centre or
  move xyz; inplace=True variants) are exempt for exactly those fields.
In-place pokes into the arrays (t.xyz[0] += 1) are documented unsafe and are not part of the alphabet.

Wider alphabet (cases with alphabet="wide", audit table in the docstring of _wide_op): key kinds / dtypes / layouts of __getitem__, zero-frame
results, list / generator / option forms of join and md.join, one object in two roles (t.join(t), t + t, t.stack(t), superpose on itself),
t += other, other operands that carry a history of their own, index containers of atom_slice and its deprecated twin restrict_atoms,
remove_solvent(exclude), superpose with selections, smooth, make_molecules_whole, image_molecules, save / save+load / pickle / deepcopy in the
middle of a history, assignments with other dtypes / ranks, unitcell_vectors=, and two more observers: the object in only ONE role of a
precentered rmsd, and analysis results on the object vs on a Trajectory built from scratch from the same arrays.  The immutability table
has a wider twin (IMMUTABLE_WIDE: ~55 more analysis / save entry points and option values).
Finding of the wider alphabet on the unchanged tree: make_molecules_whole and image_molecules (inplace or not) move atoms in the array without
dropping the cached traces (keys stale-rmsd-traces-after:make_molecules_whole / :image_molecules)."""
from __future__ import annotations

import atexit
import hashlib
import os
import shutil
import tempfile

import numpy as np

from vlib.gen import common

PROPERTY = "C03"
LEVEL = "exploration"
NATIVE = ["mdtraj._rmsd", "mdtraj.geometry._geometry"]
RULE = ("case = seeded random operation history (length 3..8 quick, ..25 thorough) over a centro-symmetric trajectory "
        "(3..40 frames, 6..60 atoms, with/without cell, protein+water topology), or one (function, trajectory) pair of the "
        "input-immutability table; non-trivial = at least one model/memory/trace comparison decided; distinct = descriptors; "
        "histories with alphabet=wide draw from the extended operation list (see _wide_op) over topologies with ions and molecules of several sizes")
WORKERS = {"quick": 8, "thorough": 16}
BUDGET = {"quick": 90, "thorough": 1200}
ENV = {"OMP_NUM_THREADS": "2"}
FLOORS = {"quick": {"model.fields": 1500, "memory.xyz": 700, "traces.precentered-vs-scratch": 200, "immutable.input": 40,
                    "observer.analysis-vs-scratch": 300}}
ASSUMPTIONS = ["precentered=True is judged only on coordinates that are centred (centro-symmetric construction keeps them so)",
               "float arithmetic of center_coordinates/superpose is not modelled: after them the model adopts the real xyz once "
               "centroid / rigidity have been checked"]
OPS = ["int", "negint", "slice", "revslice", "index", "mask", "slice_nocopy", "join", "plus", "mdjoin", "join_overlap", "stack", "atom_slice",
       "atom_slice_inplace", "center", "center_mw", "superpose", "remove_solvent", "set_xyz", "set_time", "set_cell", "obs_rmsd"]
# wider alphabet (cases with alphabet="wide"): the original operations plus every other public way of producing / editing a
# Trajectory that the original alphabet never used (see the audit in the docstring of _wide_op)
WIDE_ONLY = ["w_key", "w_key", "w_empty", "w_slice_nocopy_fancy", "w_join_list", "w_join_nocheck", "w_mdjoin_opts", "w_join_self", "w_join_self",
             "w_stack_self", "w_stack_opts", "w_iadd", "w_atom_container", "w_atom_container", "w_remove_solvent_exclude", "w_superpose_sel",
             "w_superpose_self", "w_smooth", "w_whole", "w_image", "w_save", "w_save", "w_copy", "w_copy", "w_set_variants", "w_obs_other",
             "w_obs_other", "w_obs_analysis"]
OPS_WIDE = OPS + WIDE_ONLY
_TMP = None


def worker_init(tier, seed):
    global _TMP
    _TMP = tempfile.mkdtemp(prefix="c03-", dir="/var/tmp")
    atexit.register(shutil.rmtree, _TMP, True)


def gen_cases(tier, seed):
    nh = 2500 if tier == "quick" else 40000
    reps = 1 if tier == "quick" else 6
    for r in range(reps):
        for j, name in enumerate(IMMUTABLE_NAMES):
            yield dict(i=r * 100 + j, kind="immutable", fn=name, seed=common.case_seed(seed, "C03i", r * 100 + j), variant=r)
        for j, name in enumerate(IMMUTABLE_WIDE):
            yield dict(i=200000 + r * 100 + j, kind="immutable", fn=name, seed=common.case_seed(seed, "C03iw", r * 100 + j), variant=r + (j % 2))
    # pairs with a function of the wider table on either side (f pure)
    pure_w = [n for n in IMMUTABLE_WIDE if n not in IN_PLACE_WIDE]
    allnames = IMMUTABLE_NAMES + IMMUTABLE_WIDE
    rngw = common.rng_for("C03pairsW", seed)
    npw = 160 if tier == "quick" else 4000
    for j in range(npw):
        f = pure_w[int(rngw.integers(len(pure_w)))] if j % 2 == 0 else [n for n in IMMUTABLE_NAMES if n not in IN_PLACE_DOCUMENTED][int(rngw.integers(len(IMMUTABLE_NAMES) - len(IN_PLACE_DOCUMENTED)))]
        g = allnames[int(rngw.integers(len(allnames)))] if j % 2 == 0 else IMMUTABLE_WIDE[int(rngw.integers(len(IMMUTABLE_WIDE)))]
        if f != g:
            yield dict(i=210000 + j, kind="pair", f=f, g=g, seed=common.case_seed(seed, "C03pw", j), variant=j % 2)
    # observational immutability over pairs: g(t) must not depend on whether f(t) was called before on the same objects
    pure = [n for n in IMMUTABLE_NAMES if n not in IN_PLACE_DOCUMENTED]
    if tier == "quick":
        rngp = common.rng_for("C03pairs", seed)
        pairs = [(pure[int(rngp.integers(len(pure)))], IMMUTABLE_NAMES[int(rngp.integers(len(IMMUTABLE_NAMES)))]) for _ in range(400)]
        # a few pairs that share derived state by construction are always present
        pairs += [("compute_center_of_mass", "density"), ("compute_inertia_tensor", "density"), ("compute_distances(opt=False)", "unitcell_vectors"),
                  ("compute_distances(opt=False)", "save(xtc)"), ("compute_displacements(opt=False)", "save(trr)"), ("compute_angles(opt=False)", "unitcell_volumes"),
                  ("compute_dihedrals(opt=False)", "save(gro)"), ("unitcell_volumes", "save(gro)"), ("compute_phi", "compute_chi1"),
                  ("shrake_rupley", "shrake_rupley(residue)"), ("select", "compute_contacts(ca)")]
    else:
        pairs = [(f, g) for f in pure for g in IMMUTABLE_NAMES]
    for j, (f, g) in enumerate(pairs):
        if f == g:
            continue
        yield dict(i=500 + j, kind="pair", f=f, g=g, seed=common.case_seed(seed, "C03p", j), variant=j % 2)
        if tier != "quick" or j >= 400:  # thorough: both cell variants for every pair; quick: for the pinned pairs
            yield dict(i=50000 + j, kind="pair", f=f, g=g, seed=common.case_seed(seed, "C03p", j), variant=(j + 1) % 2)
    # results after an in-place edit of the topology (public attributes / add_bond) must equal the results on a topology
    # that was built that way from the start: nothing derived from the topology may be remembered across the edit
    muts = ["rename_atoms", "rename_residues", "change_elements", "add_bonds"]
    if tier == "quick":
        rngm = common.rng_for("C03mut", seed)
        mcases = [(pure[int(rngm.integers(len(pure)))], muts[k % 4]) for k in range(120)]  # (documented in-place functions excluded)
        mcases += [(g, mu) for g in ("compute_dssp", "kabsch_sander", "baker_hubbard", "compute_chi1", "compute_phi", "compute_contacts(closest-heavy)",
                                    "compute_contacts(ca)", "shrake_rupley", "compute_rg", "compute_center_of_mass", "select", "density", "remove_solvent",
                                    "image_molecules(inplace=False)", "make_molecules_whole(inplace=False)", "save(pdb)", "save(h5)", "hash")
                   for mu in muts]
    else:
        mcases = [(g, mu) for g in pure for mu in muts for _ in range(2)]
    for j, (g, mu) in enumerate(mcases):
        yield dict(i=80000 + j, kind="mutate", g=g, mutation=mu, seed=common.case_seed(seed, "C03m", j), variant=j % 2)
    for j in range(60 if tier == "quick" else 600):
        yield dict(i=90000 + j, kind="alias", seed=common.case_seed(seed, "C03alias", j), variant=j)
    for i in range(nh):
        rng = common.rng_for("C03", seed, i)
        yield dict(i=100000 + i, kind="history", seed=common.case_seed(seed, "C03", i), n_frames=int(rng.integers(3, 41)),
                   n_pairs=int(rng.integers(3, 31)), sym=bool(rng.random() < 0.55), odd=int(rng.integers(0, 2)), cell=bool(rng.random() < 0.6),
                   length=int(rng.integers(3, 9 if tier == "quick" else 26)))
    for i in range(1300 if tier == "quick" else 20000):
        rng = common.rng_for("C03w", seed, i)
        yield dict(i=300000 + i, kind="history", alphabet="wide", seed=common.case_seed(seed, "C03w", i), n_frames=int(rng.choice([1, 2, 3, 5, 9, 12, 20, 33])),
                   n_pairs=int(rng.integers(3, 25)), sym=bool(rng.random() < 0.6), odd=int(rng.integers(0, 2)), cell=bool(rng.random() < 0.7),
                   length=int(rng.integers(3, 9 if tier == "quick" else 20)))


# ------------------------------------------------------------------------------------------------ trajectories
def sym_topology(n_pairs, rng):
    """protein-like residues plus some waters; atoms i and i+1 (i even) form a +x/-x pair and share a residue"""
    import mdtraj as md
    from mdtraj.core import element as elem
    top = md.Topology()
    ch = top.add_chain()
    ids = []
    k = 0
    while k < n_pairs:
        water = rng.random() < 0.25
        npair = 1 if water else int(rng.integers(1, 4))
        npair = min(npair, n_pairs - k)
        res = top.add_residue("HOH" if water else ["ALA", "GLY", "LYS"][int(rng.integers(3))], ch)
        for p in range(npair):
            for s in (0, 1):
                top.add_atom(("O" if water else ["CA", "CB", "N", "C"][(2 * p + s) % 4]), elem.oxygen if water else elem.carbon, res)
                ids.append(2 * k + s)
            k += 1
        if rng.random() < 0.3:
            ch = top.add_chain()
    atoms = list(top.atoms)
    for a in range(0, len(atoms) - 1, 2):
        top.add_bond(atoms[a], atoms[a + 1])
    return top, ids


def sym_topology_wide(n_pairs, rng):
    """as sym_topology, plus single-pair ion residues (NA / CL: solvent types of remove_solvent) and bonds that make molecules of
    different sizes (all pairs of a protein residue form one molecule, consecutive protein residues of a chain are sometimes
    linked), so that find_molecules / guess_anchor_molecules / image_molecules have something to work with"""
    import mdtraj as md
    from mdtraj.core import element as elem
    top = md.Topology()
    ch = top.add_chain()
    ids = []
    k = 0
    prev_last = None
    links = []
    while k < n_pairs:
        u = rng.random()
        kind = "HOH" if u < 0.2 else ("NA" if u < 0.27 else ("CL" if u < 0.34 else "prot"))
        npair = min(1 if kind != "prot" else int(rng.integers(1, 5)), n_pairs - k)
        res = top.add_residue(kind if kind != "prot" else ["ALA", "GLY", "LYS"][int(rng.integers(3))], ch)
        first = None
        for p in range(npair):
            for s in (0, 1):
                el = {"HOH": elem.oxygen, "NA": elem.sodium, "CL": elem.chlorine}.get(kind, elem.carbon)
                a = top.add_atom({"HOH": "O", "NA": "NA", "CL": "CL"}.get(kind, ["CA", "CB", "N", "C"][(2 * p + s) % 4]), el, res)
                first = first if first is not None else a
                ids.append(2 * k + s)
            k += 1
        if kind == "prot":
            ra = list(res.atoms)
            for a, b in zip(ra[1:-1:2], ra[2::2]):
                links.append((a, b))
            if prev_last is not None and rng.random() < 0.5:
                links.append((prev_last, first))
            prev_last = ra[-1]
        else:
            prev_last = None
        if rng.random() < 0.25:
            ch = top.add_chain()
            prev_last = None
    atoms = list(top.atoms)
    for a in range(0, len(atoms) - 1, 2):
        top.add_bond(atoms[a], atoms[a + 1])
    for a, b in links:
        top.add_bond(a, b)
    return top, ids


def sym_xyz(rng, n_frames, n_pairs):
    h = rng.normal(scale=1.0, size=(n_frames, n_pairs, 3)).astype(np.float32)
    xyz = np.empty((n_frames, 2 * n_pairs, 3), np.float32)
    xyz[:, 0::2] = h
    xyz[:, 1::2] = -h
    return xyz


def gen_xyz(rng, n_frames, n_atoms, sym):
    """sym: centro-symmetric frames (stay centred under every exact operation); else arbitrary frames with a random
    offset per frame (any atom count, so every remainder modulo the SIMD width 4 occurs)"""
    if sym:
        return sym_xyz(rng, n_frames, n_atoms // 2)
    return (rng.normal(scale=1.0, size=(n_frames, n_atoms, 3)) + rng.uniform(-2, 2, (n_frames, 1, 3))).astype(np.float32)


def make(rng, n_frames, n_atoms, cell, top=None, ids=None, sym=True, wide=False):
    import mdtraj as md
    if top is None:
        top, ids = (sym_topology_wide if wide else sym_topology)((n_atoms + 1) // 2, rng)
        if top.n_atoms != n_atoms:  # odd atom count: drop the last atom
            top = top.subset(list(range(n_atoms)))
            ids = ids[:n_atoms]
    xyz = gen_xyz(rng, n_frames, n_atoms, sym)
    t = md.Trajectory(xyz.copy(), top)
    time = np.cumsum(rng.uniform(0.5, 2.0, n_frames)).astype(np.float32)
    t.time = time.copy()
    m = dict(xyz=xyz, time=time, L=None, A=None, ids=list(ids))
    if cell:
        L = rng.uniform(3, 6, (n_frames, 3)).astype(np.float32)
        A = np.tile(np.array([[90.0, 90.0, 90.0]], np.float32), (n_frames, 1))
        t.unitcell_lengths = L.copy()
        t.unitcell_angles = A.copy()
        m["L"], m["A"] = L, A
    return t, m


def atom_ids(top):
    """original atom ids are carried in atom.serial-free way: use residue index + name is ambiguous, so we tag by identity map"""
    return None


# ------------------------------------------------------------------------------------------------ checks
def check_fields(ctx, t, m, opname, exact=True):
    problems = []
    nf = m["xyz"].shape[0]
    if t.xyz.shape != m["xyz"].shape:
        problems.append(f"xyz shape {t.xyz.shape} model {m['xyz'].shape}")
    elif exact and not np.array_equal(t.xyz, m["xyz"]):
        problems.append("xyz values differ from numpy indexing")
    if t.time.shape != (nf,):
        problems.append(f"time shape {t.time.shape} for {nf} frames")
    elif not np.array_equal(t.time, m["time"]):
        problems.append("time differs")
    for nm, got, exp in (("unitcell_lengths", t.unitcell_lengths, m["L"]), ("unitcell_angles", t.unitcell_angles, m["A"])):
        if (got is None) != (exp is None):
            problems.append(f"{nm} presence {got is not None} model {exp is not None}")
        elif got is not None and (got.shape != (nf, 3) or not np.array_equal(got, exp)):
            problems.append(f"{nm} differs (shape {got.shape})")
    if t.topology is not None and t.topology.n_atoms != m["xyz"].shape[1]:
        problems.append(f"topology has {t.topology.n_atoms} atoms, xyz {m['xyz'].shape[1]}")
    if problems:
        what = "+".join(sorted({p.split()[0] for p in problems}))
        ctx.violation("model.fields", f"{opname}:field-mismatch:{what}", f"after {opname}: " + "; ".join(problems))
        return False
    ctx.ok("model.fields")
    return True


def check_memory(ctx, out, src, opname, strict):
    """strict: slicing(copy=True)/join/atom_slice -> nothing mutable shared; otherwise only xyz"""
    if np.shares_memory(out.xyz, src.xyz):
        ctx.violation("memory.xyz", f"{opname}:xyz-shares-memory-with-input", f"{opname}: result.xyz shares memory with the input's xyz")
    else:
        ctx.ok("memory.xyz")
    if not strict:
        return
    shared = []
    for nm in ("time", "unitcell_lengths", "unitcell_angles"):
        a, b = getattr(out, nm), getattr(src, nm)
        if a is not None and b is not None and np.shares_memory(a, b):
            shared.append(nm)
    if out.topology is src.topology:
        shared.append("topology-object")
    else:
        src_ids = {id(x) for x in src.topology.atoms} | {id(x) for x in src.topology.residues} | {id(x) for x in src.topology.chains}
        if any(id(x) in src_ids for x in out.topology.atoms) or any(id(x) in src_ids for x in out.topology.residues) \
                or any(id(x) in src_ids for x in out.topology.chains):
            shared.append("topology-members")
        if any(id(b[0]) in src_ids or id(b[1]) in src_ids for b in out.topology.bonds):
            shared.append("bond-atoms")
    if shared:
        ctx.violation("memory.all", f"{opname}:shares-mutable-data:{'+'.join(shared)}", f"{opname}: result shares {shared} with its source")
    else:
        ctx.ok("memory.all")


def msd_scratch(x, r):
    """rmsd^2 from scratch through md.rmsd on fresh objects built from raw arrays"""
    import mdtraj as md
    top = common.simple_topology(x.shape[1])
    a = md.Trajectory(np.array(x, copy=True), top)
    b = md.Trajectory(np.array(r, copy=True), top)
    return md.rmsd(a, b, 0).astype(np.float64) ** 2


def _flat_frames(c):
    """per frame of centred float64 coordinates (n_frames, n_atoms, 3): smallest / largest singular value below 1e-3"""
    ev = np.linalg.eigvalsh(np.einsum("fai,faj->fij", c, c))
    return ev[:, 0] <= 1e-6 * np.maximum(ev[:, 2], 1e-300)


def observe_rmsd(ctx, t, m, hist):
    """md.rmsd(t, t, frame, precentered=True) vs RMSD from scratch on fresh copies.

    On a correct tree the shortcut is safe after ANY history of the alphabet: cached traces exist only while the
    coordinates are the centred ones they were computed from (every operation that changes coordinates or the atom set
    goes through the xyz setter / builds a new object, which drops them; frame slicing indexes them), and without
    cached traces md.rmsd falls back to centring itself.  So no 'is it centred?' precondition is applied here — a
    stale trace on moved coordinates is exactly what must be seen.  md.rmsd may centre its target in place (documented):
    afterwards the model adopts the new xyz once it is verified to be a per-frame translation of the old one."""
    import mdtraj as md
    fr = int(hist["rng"].integers(0, t.n_frames))
    raw = np.array(t.xyz, copy=True)
    had_traces = t._rmsd_traces is not None
    try:
        got = md.rmsd(t, t, fr, precentered=True).astype(np.float64) ** 2
    except Exception as e:
        ctx.violation("traces.precentered-vs-scratch", f"rmsd(precentered=True):raises:{type(e).__name__}", f"after {hist['ops']}: {e!r}")
        return False
    ref = msd_scratch(raw, raw[fr:fr + 1])
    N = raw.shape[1]
    c = raw.astype(np.float64) - raw.astype(np.float64).mean(axis=1, keepdims=True)
    G = (c ** 2).sum(axis=(1, 2))
    off = float(np.abs(raw).max())
    tol = 2e-4 * (G + G[fr]) / N + 1e-9 + 64 * (2.0 ** -24 * off) ** 2
    bad = np.abs(got - ref) > tol
    # exactly planar / collinear frames (two centro-symmetric pairs left after atom slicing): the largest root of the QCP quartic is
    # (nearly) double there and moves like sqrt(eps32), far above the 2e-4 relative tolerance, which assumes a separated spectrum.
    # Such frames are outside what this tolerance can decide: not judged (all of them when the reference frame itself is flat)
    flat = _flat_frames(c)
    all_undecided = False
    if flat.any() and got.shape == ref.shape:
        undecided = flat | flat[fr]
        ctx.skip("traces.precentered-vs-scratch", "planar or collinear frame: QCP root conditioning ~ sqrt(eps32), not decidable at this tolerance", int(undecided.sum()))
        bad = bad & ~undecided
        all_undecided = bool(undecided.all())
    ctx.observe("precentered_call", "cached-traces" if had_traces else "no-traces(fallback)")
    verdict = not (got.shape != ref.shape or bad.any())
    if got.shape != ref.shape or bad.any():
        j = int(np.argmax(bad)) if got.shape == ref.shape else -1
        cause = next((o for o in reversed(hist["since_center"])), "none")
        ctx.violation("traces.precentered-vs-scratch", f"stale-rmsd-traces-after:{cause}" if had_traces else f"rmsd(precentered=True):no-traces:wrong-after:{cause}",
                      f"rmsd(precentered=True) differs from rmsd from scratch after {hist['ops']}: msd {got[j]:.6g} vs {ref[j]:.6g} (tol {tol[j]:.2g})")
    elif not all_undecided:
        ctx.ok("traces.precentered-vs-scratch")
    if not np.array_equal(t.xyz, raw):
        x = np.asarray(t.xyz, np.float64)
        moved = x - raw
        rigid_shift = np.abs(moved - moved[:, :1]).max() <= 1e-5 * max(1.0, off)
        if rigid_shift:
            m["xyz"] = np.array(t.xyz, copy=True)  # documented in-place centring of the target
            ctx.observe("rmsd_centred_target_in_place", "yes")
        else:
            ctx.violation("traces.precentered-modifies", "rmsd(precentered=True):distorts-xyz", "rmsd(precentered=True) changed the coordinates by more than a per-frame translation")
    return verdict


def observe_as_reference(ctx, t, m, hist):
    """The live object serves as the REFERENCE on which another, fresh trajectory is superposed; the result must be the one
    obtained with a brand-new Trajectory holding the same arrays (whatever was done to or with the object before:
    earlier superpositions on it, in-place moves of it).  The same frame is used most of the time, so that anything an
    earlier call may have left on the object for that frame would be reused."""
    import mdtraj as md
    rng = hist["rng"]
    fr = 0 if rng.random() < 0.7 else int(rng.integers(0, t.n_frames))
    mob = (rng.normal(size=(2, t.n_atoms, 3)) + rng.uniform(-2, 2, (1, 1, 3))).astype(np.float32)
    fresh = md.Trajectory(np.array(t.xyz, copy=True), t.topology)
    try:
        a = md.Trajectory(mob.copy(), t.topology).superpose(t, frame=fr).xyz
        b = md.Trajectory(mob.copy(), t.topology).superpose(fresh, frame=fr).xyz
    except Exception as e:
        ctx.violation("reference.fresh-vs-used", f"superpose(reference=object):raises:{type(e).__name__}", f"after {hist['ops']}: {e!r}")
        return
    hist["ref_uses"] = hist.get("ref_uses", 0) + 1
    ctx.observe("used_as_reference", "first use" if hist["ref_uses"] == 1 else "repeated use")
    if np.array_equal(a, b):
        ctx.ok("reference.fresh-vs-used")
    else:
        cause = next((o for o in reversed(hist["ops"]) if not o.startswith("obs_")), "none")
        ctx.violation("reference.fresh-vs-used", f"superpose-on-used-object-differs-from-fresh-copy:after:{cause}",
                      f"superposing a trajectory on frame {fr} of the object differs from superposing it on a fresh Trajectory with the same "
                      f"coordinates (max {float(np.abs(a - b).max()):.4g} nm) after {hist['ops']}")
    check_fields(ctx, t, m, "superpose(other, reference=this)", exact=True)

# ------------------------------------------------------------------------------------------------ wide alphabet
def _cat(ms):
    return dict(xyz=np.concatenate([x["xyz"] for x in ms]), time=np.concatenate([x["time"] for x in ms]),
                L=None if ms[0]["L"] is None else np.concatenate([x["L"] for x in ms]),
                A=None if ms[0]["A"] is None else np.concatenate([x["A"] for x in ms]), ids=ms[0]["ids"])


def _fresh_from_model(t, m):
    import mdtraj as md
    return md.Trajectory(np.array(m["xyz"], copy=True), t.topology.copy(), time=np.array(m["time"], copy=True),
                         unitcell_lengths=None if m["L"] is None else np.array(m["L"], copy=True),
                         unitcell_angles=None if m["A"] is None else np.array(m["A"], copy=True))


def _other(rng, t, m, hist, sym, nfr=None, centre_p=0.7):
    na = m["xyz"].shape[1]
    nfr = int(rng.integers(2, 6)) if nfr is None else nfr
    derived = rng.random() < 0.35  # the OTHER operand has a history of its own: cut out of a longer (centred) trajectory, reversed / strided
    o, om = make(rng, 2 * nfr + 1 if derived else nfr, na, m["L"] is not None, top=t.topology, ids=m["ids"], sym=sym and na % 2 == 0)
    if hist["centered_once"] and rng.random() < centre_p:
        o.center_coordinates()
        om["xyz"] = np.array(o.xyz, copy=True)
    if derived:
        key = slice(None, None, -2) if rng.random() < 0.5 else slice(1, None, 2)
        sel = list(range(2 * nfr + 1))[key][:nfr]
        o = o[key][:nfr] if rng.random() < 0.5 else o[np.array(sel)]
        om = _index(om, sel)
        ctx_observe = hist.get("ctx")
        if ctx_observe is not None:
            ctx_observe.observe("wide.other_operand", "cut out of a longer trajectory (carries sliced traces)")
    return o, om


def _wide_op(ctx, t, m, op, rng, hist, step, sym):
    """Operations the original alphabet never used.  Returns None (not applicable here / legitimately refused) or a dict
    out, m2, label, strict, exact, src (None = in place), memcheck, after.

    audit (public ways to obtain or edit a Trajectory; * = added here):
      __getitem__/slice keys   int, -int, slice, reversed slice, int64 array / list, bool ndarray            (original)
                               * numpy integer scalars, negative entries in index arrays, int32/int16/uint8/intp index dtypes,
                               * strided (non-contiguous) index views, python lists of bools, open-ended / negative /
                               * out-of-range slice bounds, results with zero frames, slice(copy=False) with int / index array
      join / + / md.join       one Trajectory operand, md.join(list)                                          (original)
                               * t.join([a, b]) list form, check_topology=False (topology of self must be kept),
                               * md.join(generator), discard_overlapping_frames over several pieces (both entry points),
                               * the object joined with itself (t.join(t), t + t, md.join([t, t, t])), t += other
      stack                    fresh operand without cell                                                     (original)
                               * t.stack(t), keep_resSeq=False, operand with a cell of its own (left operand rule)
      atom_slice               sorted int64 ndarray                                                           (original)
                               * list / tuple / range / int32 / uint16 / strided view containers, restrict_atoms (deprecated twin)
      remove_solvent           exclude=None                                                                   (original)  * exclude=[names]
      superpose                all atoms onto a fresh 2-frame reference                                       (original)
                               * atom_indices / ref_atom_indices / parallel, reference = the object itself
      smooth, make_molecules_whole, image_molecules (inplace in {False, True})                                * all new
      save in the middle of a history (object must stay as it was), save + load (h5) and continue with the loaded object  * new
      pickle / copy.deepcopy / copy.copy of the Trajectory, continue with the copy                            * new
      xyz / time / cell assignment with float64, nested lists, deficient ndim (single frame), scalar time      * new
      observers: the object only as REFERENCE / only as TARGET of a precentered rmsd against another centred trajectory;  * new
                 analysis / derived attributes on the object vs on a Trajectory built from scratch from the same arrays
      left out: openmm_positions / openmm_boxes (openmm not importable here), topology= assignment (not an array field),
                in-place pokes into .xyz (documented unsafe)."""
    import copy as _copy
    import pickle
    import warnings
    import mdtraj as md
    nf, na = m["xyz"].shape[:2]
    symok = sym and na % 2 == 0
    R = dict(strict=False, exact=True, src=t)

    if op == "w_key":
        kind = ["np.integer", "index:negative", "index:small-dtype", "index:strided-view", "bool-list", "slice:open-ended"][int(rng.integers(6))]
        if kind == "np.integer":
            k = int(rng.integers(0, nf))
            key = [np.int64(k), np.int32(k - nf), np.intp(k), np.uint8(k % 200)][int(rng.integers(4))]
            sel = [int(key) % nf]
        elif kind == "index:negative":
            sel0 = rng.integers(-nf, nf, int(rng.integers(1, nf + 3)))
            key = sel0.astype([np.int32, np.int64][int(rng.integers(2))])
            if rng.random() < 0.4:
                key = [int(x) for x in key]
            sel = [int(x) % nf for x in sel0]
        elif kind == "index:small-dtype":
            sel = [int(x) for x in rng.integers(0, min(nf, 120), int(rng.integers(1, nf + 3)))]
            key = np.array(sel, dtype=[np.uint8, np.int16, np.uint32, np.intp][int(rng.integers(4))])
        elif kind == "index:strided-view":
            base = rng.integers(0, nf, 2 * int(rng.integers(1, nf + 2)))
            key = base[::2]
            sel = [int(x) for x in key]
        elif kind == "bool-list":
            mask = rng.random(nf) < 0.6
            mask[int(rng.integers(0, nf))] = True
            key = [bool(x) for x in mask]
            sel = list(np.where(mask)[0])
        else:
            k = int(rng.integers(1, nf + 1))
            key = [slice(None, None, 2), slice(-k, None), slice(None, -k), slice(k - 1, nf + 7), slice(None, None, -1), slice(-nf - 3, k),
                   slice(None, None, -2), slice(None), slice(nf + 5, None, -3)][int(rng.integers(9))]
            sel = list(range(nf))[key]
            if not sel:
                return None
        ctx.observe("wide.key", kind)
        R.update(out=t[key], m2=_index(m, sel), label=f"getitem[{kind}]", strict=True)
        return R
    if op == "w_empty":
        key = [slice(0, 0), slice(nf, None), slice(nf - 1, 0) if nf > 1 else slice(0, 0), np.zeros(nf, bool), []][int(rng.integers(5))]
        if isinstance(key, list):
            key = np.array([], dtype=int)
        out = t[key]
        hist["ops"].append("getitem[zero-frames]")
        ctx.observe("op", "getitem[zero-frames]")
        check_fields(ctx, out, _index(m, []), "getitem[zero-frames]", exact=True)
        check_fields(ctx, t, m, "getitem[zero-frames]:source", exact=True)
        return None
    if op == "w_slice_nocopy_fancy":
        if rng.random() < 0.5:
            k = int(rng.integers(0, nf))
            key, sel, what = k, [k], "int"
        else:
            sel = [int(x) for x in rng.integers(0, nf, int(rng.integers(1, nf + 2)))]
            key, what = np.array(sel), "index-array"
        R.update(out=t.slice(key, copy=False), m2=_index(m, sel), label=f"slice(copy=False)[{what}]", memcheck=False)
        return R
    if op in ("w_join_list", "w_join_nocheck", "w_mdjoin_opts", "w_iadd"):
        if op == "w_join_nocheck":
            o, om = _other(rng, t, m, hist, sym)
            o2 = md.Trajectory(o.xyz.copy(), common.simple_topology(na), time=o.time.copy(), unitcell_lengths=None if o.unitcell_lengths is None else o.unitcell_lengths.copy(),
                               unitcell_angles=None if o.unitcell_angles is None else o.unitcell_angles.copy())
            names = [(a.name, a.residue.name) for a in t.topology.atoms]
            if rng.random() < 0.5:
                out, label = t.join(o2, check_topology=False), "join(check_topology=False)"
            else:
                out, label = md.join([t, o2], check_topology=False), "md.join(check_topology=False)"
            ctx.check([(a.name, a.residue.name) for a in out.topology.atoms] == names, "model.fields", f"{label}:topology-is-not-that-of-self",
                      f"{label}: the result does not carry the topology of the left operand")
            R.update(out=out, m2=_cat([m, om]), label=label, strict=True)
            check_memory(ctx, out, o2, label + "(other)", False)
            return R
        if op == "w_iadd":
            o, om = _other(rng, t, m, hist, sym)
            u = t
            u += o
            if u is t:
                ctx.violation("model.fields", "iadd:modifies-the-left-operand-object", "t += other returned the same object")
            R.update(out=u, m2=_cat([m, om]), label="iadd", strict=True)
            check_memory(ctx, u, o, "iadd(other)", True)
            return R
        k = int(rng.integers(2, 4))
        pieces = [_other(rng, t, m, hist, sym, centre_p=1.0 if op == "w_mdjoin_opts" else 0.7) for _ in range(k)]
        others, oms = [p[0] for p in pieces], [p[1] for p in pieces]
        if op == "w_join_list":
            out, label = t.join(others), "join(list)"
            ms = [m] + oms
        else:
            variant = ["generator", "overlap-md.join", "overlap-join(list)"][int(rng.integers(3))]
            if variant == "generator":
                out, label = md.join(x for x in [t] + others), "md.join(generator)"
                ms = [m] + oms
            else:
                # plant overlaps: the first frame of some pieces repeats the last frame of the piece before
                seq = [(t, m)] + pieces
                for j in range(1, len(seq)):
                    if rng.random() < 0.6:
                        o, om = seq[j]
                        x0 = np.array(o.xyz, copy=True)
                        x0[0] = seq[j - 1][0].xyz[-1]
                        o.xyz = x0
                        om["xyz"] = np.array(o.xyz, copy=True)
                ms = []
                for j in range(len(seq)):
                    mj = seq[j][1]
                    if j + 1 < len(seq) and mj["xyz"].shape[0] > 0 and np.all(np.abs(seq[j + 1][1]["xyz"][0] - mj["xyz"][-1]) < 2e-3):
                        mj = _index(mj, list(range(mj["xyz"].shape[0] - 1)))
                    ms.append(mj)
                if variant == "overlap-md.join":
                    out, label = md.join([t] + others, discard_overlapping_frames=True), "md.join(discard_overlapping_frames)"
                else:
                    out, label = t.join(others, discard_overlapping_frames=True), "join(list,discard_overlapping_frames)"
        R.update(out=out, m2=_cat(ms), label=label, strict=True)
        for o in others:
            check_memory(ctx, out, o, label + "(other)", True)
        return R
    if op == "w_join_self":
        variant = int(rng.integers(4))
        if variant == 0:
            out, label, ms = t.join(t), "join(self)", [m, m]
        elif variant == 1:
            out, label, ms = t + t, "add(self)", [m, m]
        elif variant == 2:
            out, label, ms = md.join([t, t, t]), "md.join([self,self,self])", [m, m, m]
        else:
            o, om = _other(rng, t, m, hist, sym)
            out, label, ms = t.join([t, o]), "join([self,other])", [m, m, om]
        R.update(out=out, m2=_cat(ms), label=label, strict=True)
        return R
    if op == "w_stack_self":
        out = t.stack(t)
        R.update(out=out, m2=dict(xyz=np.hstack([m["xyz"], m["xyz"]]), time=m["time"], L=m["L"], A=m["A"], ids=m["ids"] + [20000 + i for i in m["ids"]]),
                 label="stack(self)")
        return R
    if op == "w_stack_opts":
        o, om = make(rng, nf, 2 * int(rng.integers(1, 4)), bool(rng.random() < 0.6))
        keep = bool(rng.random() < 0.5)
        out = t.stack(o, keep_resSeq=keep)
        ctx.observe("wide.stack", f"other has cell={om['L'] is not None}, self has cell={m['L'] is not None}, keep_resSeq={keep}")
        R.update(out=out, m2=dict(xyz=np.hstack([m["xyz"], om["xyz"]]), time=m["time"], L=m["L"], A=m["A"], ids=m["ids"] + [30000 + 100 * step + i for i in om["ids"]]),
                 label="stack(other with own cell/keep_resSeq)")
        check_memory(ctx, out, o, "stack(other)", False)
        return R
    if op == "w_atom_container":
        if symok:
            npair = na // 2
            keep = np.where(rng.random(npair) < 0.7)[0]
            if len(keep) < 2:
                keep = np.arange(min(2, npair))
            idx = np.sort(np.concatenate([2 * keep, 2 * keep + 1]))
        else:
            idx = np.where(rng.random(na) < 0.7)[0]
            if len(idx) < 3:
                idx = np.arange(min(3, na))
        cont = ["list", "tuple", "range", "int32", "uint16", "strided-view"][int(rng.integers(6))]
        if cont == "range":
            lo = int(rng.integers(0, max(1, na // 2 - 1))) * (2 if symok else 1)
            hi = min(na, lo + max(4, 2 * int(rng.integers(1, na // 2 + 1))))
            idx = np.arange(lo, hi)
            arg = range(lo, hi)
        elif cont == "list":
            arg = [int(i) for i in idx]
        elif cont == "tuple":
            arg = tuple(int(i) for i in idx)
        elif cont == "int32":
            arg = idx.astype(np.int32)
        elif cont == "uint16":
            arg = idx.astype(np.uint16)
        else:
            arg = np.repeat(idx, 2)[::2]
        ctx.observe("wide.atom_indices_container", cont)
        twin = rng.random() < 0.35
        inplace = bool(rng.random() < 0.5)
        with warnings.catch_warnings():
            warnings.simplefilter("ignore")
            if twin:
                out = t.restrict_atoms(arg) if inplace else t.restrict_atoms(arg, inplace=False)
            else:
                out = t.atom_slice(arg, inplace=inplace)
        label = f"{'restrict_atoms' if twin else 'atom_slice'}(inplace={inplace})"
        if inplace and out is not t:
            ctx.violation("model.fields", f"{label}:does-not-return-self", f"{label} returned another object")
        R.update(out=out, m2=dict(xyz=m["xyz"][:, idx], time=m["time"], L=m["L"], A=m["A"], ids=[m["ids"][i] for i in idx]), label=label, strict=True,
                 src=None if inplace else t)
        return R
    if op == "w_remove_solvent_exclude":
        present = sorted({a.residue.name for a in t.topology.atoms} & {"HOH", "NA", "CL"})
        if not present:
            return None
        exclude = [x for x in present if rng.random() < 0.6] or present[:1]
        gone = set(present) - set(exclude)
        keep = [a.index for a in t.topology.atoms if a.residue.name not in gone]
        if len(keep) < 4:
            return None
        inplace = bool(rng.random() < 0.3)
        arg = exclude if rng.random() < 0.5 else tuple(exclude)
        out = t.remove_solvent(exclude=arg, inplace=inplace)
        ctx.observe("wide.remove_solvent_exclude", "+".join(exclude))
        R.update(out=out, m2=dict(xyz=m["xyz"][:, keep], time=m["time"], L=m["L"], A=m["A"], ids=[m["ids"][i] for i in keep]),
                 label=f"remove_solvent(exclude,inplace={inplace})", strict=True, src=None if inplace else t)
        return R
    if op in ("w_superpose_sel", "w_superpose_self"):
        before = np.array(t.xyz, copy=True)
        n_sel = int(rng.integers(3, na + 1))
        ai = rng.permutation(na)[:n_sel]
        kw = dict(atom_indices=ai if rng.random() < 0.7 else [int(i) for i in ai], parallel=bool(rng.random() < 0.5))
        if op == "w_superpose_self":
            if rng.random() < 0.5:
                kw.pop("atom_indices")
            out = t.superpose(t, frame=int(rng.integers(0, nf)), **kw)
            label = "superpose(reference=self)"
        else:
            ref, _ = make(rng, 2, na + int(rng.integers(0, 3)), False, sym=False)
            ref.xyz = (ref.xyz + rng.uniform(-3, 3, (1, 1, 3))).astype(np.float32)
            if rng.random() < 0.6 or ref.n_atoms != na:
                kw["ref_atom_indices"] = rng.permutation(ref.n_atoms)[:n_sel]
            out = t.superpose(ref, frame=int(rng.integers(0, 2)), **kw)
            label = "superpose(atom_indices)"
        if out is not t:
            ctx.violation("model.fields", f"{label}:does-not-return-self", f"{label} returned another object")
        d0 = np.linalg.norm(before[:, 1:] - before[:, :-1], axis=-1)
        d1 = np.linalg.norm(t.xyz[:, 1:] - t.xyz[:, :-1], axis=-1)
        ctx.check(bool(np.abs(d0 - d1).max() < 1e-4 * max(1.0, np.abs(before).max())), "superpose.rigid", "superpose:not-rigid", "superpose changed interatomic distances")
        R.update(out=t, m2=dict(m, xyz=np.array(t.xyz, copy=True)), label=label, src=None)
        return R
    if op == "w_smooth":
        if nf < 6:
            return None
        width, order = int(rng.integers(3, 6)), int(rng.integers(1, 4))
        sel = None if rng.random() < 0.5 else sorted(int(i) for i in rng.permutation(na)[: int(rng.integers(1, na))])
        inplace = bool(rng.random() < 0.5)
        try:
            with warnings.catch_warnings():
                warnings.simplefilter("ignore")
                ret = t.smooth(width, order=order, atom_indices=sel, inplace=inplace)
        except ValueError as e:
            ctx.skip("model.fields", f"smooth refused the trajectory ({str(e)[:50]})")
            return None
        out = t if inplace else ret
        label = f"smooth(inplace={inplace})"
        if inplace:
            ctx.observe("wide.smooth(inplace=True)-returns", "None" if ret is None else ("self" if ret is t else "other"))
        if not isinstance(out, md.Trajectory) or out.xyz.shape != m["xyz"].shape:
            ctx.violation("model.fields", f"{label}:field-mismatch:xyz", f"{label}: wrong result {type(out).__name__}")
            return None
        if sel is not None:
            rest = np.setdiff1d(np.arange(na), sel)
            ctx.check(bool(np.array_equal(out.xyz[:, rest], m["xyz"][:, rest])), "model.fields", f"{label}:atoms-outside-atom_indices-changed",
                      f"{label}: atoms outside atom_indices are not bit-identical")
        R.update(out=out, m2=dict(m, xyz=np.array(out.xyz, copy=True)), label=label, src=None if inplace else t)
        return R
    if op in ("w_whole", "w_image"):
        if m["L"] is None:
            return None
        inplace = bool(rng.random() < 0.5)
        try:
            if op == "w_whole":
                out, name = t.make_molecules_whole(inplace=inplace), "make_molecules_whole"
            else:
                out, name = t.image_molecules(inplace=inplace, make_whole=bool(rng.random() < 0.7)), "image_molecules"
        except ValueError as e:
            ctx.skip("model.fields", f"imaging refused the topology ({str(e)[:40]})")
            return None
        label = f"{name}(inplace={inplace})"
        if inplace and out is not t:
            ctx.violation("model.fields", f"{label}:does-not-return-self", f"{label} returned another object")
        if not isinstance(out, md.Trajectory) or out.xyz.shape != m["xyz"].shape:
            ctx.violation("model.fields", f"{label}:field-mismatch:xyz", f"{label}: wrong result")
            return None
        moved = not np.array_equal(out.xyz, m["xyz"])
        ctx.observe("wide.imaging", f"{name}: {'atoms moved' if moved else 'nothing to move'}")

        def after(t2, m2, name=name, moved=moved):
            # the cached traces must not survive a public call that moved atoms: observed at once (self-rmsd, then the object as one
            # operand against a freshly centred trajectory) so that the key names this call
            hist["since_center"] = [name]
            hist["ops"].append("obs_rmsd")
            ok = observe_rmsd(ctx, t2, m2, hist)
            if ok:
                hist["last_obs_ok"] = True
                _wide_op(ctx, t2, m2, "w_obs_other", rng, hist, step, sym)
                ok = hist["last_obs_ok"]
            if ok and moved and t2._rmsd_traces is not None:
                # traces are still attached to moved coordinates but this sample of frames did not show it (e.g. msd clipped at 0):
                # stop here, a later observation would blame another operation
                ctx.skip("traces.precentered-vs-scratch", f"traces kept across {name} that moved atoms; not visible in the sampled frames")
                return False
            return ok
        R.update(out=out, m2=dict(m, xyz=np.array(out.xyz, copy=True)), label=label, strict=True, src=None if inplace else t, after=after)
        return R
    if op == "w_save":
        ext = ["h5:reload", "h5", "xtc", "dcd", "nc", "pdb", "gro", "trr", "xyz"][int(rng.integers(9))]
        d = tempfile.mkdtemp(dir=_TMP)
        try:
            path = os.path.join(d, "Mid." + ext.split(":")[0])
            try:
                t.save(path)
            except Exception as e:
                ctx.skip("model.fields", f"save({ext}) raised {type(e).__name__} in the middle of a history")
                return None
            ctx.observe("wide.save_in_history", ext)
            if ext == "h5:reload":
                out = md.load(path)
                R.update(out=out, m2=dict(m, time=np.asarray(m["time"]).astype(np.float32)), label="save(h5)+load", strict=True)  # the format stores float32 times
                return R
        finally:
            shutil.rmtree(d, ignore_errors=True)
        R.update(out=t, m2=m, label=f"save({ext})", src=None)
        hist["ops"].append(f"save({ext})")
        ctx.observe("op", f"save({ext})")
        check_fields(ctx, t, m, f"save({ext})", exact=True)  # the object itself is untouched; its caches are observed by the rmsd observers
        return None
    if op == "w_copy":
        how = ["pickle", "deepcopy", "copy.copy"][int(rng.integers(3))]
        out = pickle.loads(pickle.dumps(t, protocol=int(rng.integers(2, pickle.HIGHEST_PROTOCOL + 1)))) if how == "pickle" else \
            (_copy.deepcopy(t) if how == "deepcopy" else _copy.copy(t))
        R.update(out=out, m2=m, label=how, strict=True, memcheck=how != "copy.copy")
        return R
    if op == "w_set_variants":
        kind = ["xyz:float64", "xyz:nested-list", "xyz:2d-single-frame", "time:list", "time:scalar", "time:int-array", "cell:float64", "cell:1d-single-frame",
                "cell:nested-list", "cell:vectors"][int(rng.integers(10))]
        m2 = dict(m)
        if kind == "cell:vectors":
            # the third cell setter: box vectors (rectangular here, so that lengths / angles are known without modelling the conversion)
            L = rng.uniform(3, 7, (nf, 3))
            V = np.zeros((nf, 3, 3))
            V[:, 0, 0], V[:, 1, 1], V[:, 2, 2] = L[:, 0], L[:, 1], L[:, 2]
            t.unitcell_vectors = V.copy() if rng.random() < 0.5 else V.astype(np.float32)
            gotL, gotA = t.unitcell_lengths, t.unitcell_angles
            okv = gotL is not None and gotA is not None and np.shape(gotL) == (nf, 3) and np.shape(gotA) == (nf, 3) and \
                bool(np.abs(np.asarray(gotL, float) - L).max() < 1e-5) and bool(np.abs(np.asarray(gotA, float) - 90.0).max() < 1e-3)
            ctx.check(okv, "model.fields", "unitcell_vectors=:lengths-angles-not-those-of-the-vectors", "after unitcell_vectors = rectangular vectors the lengths / angles are not those of the vectors")
            if not okv:
                return None
            # the vectors setter leaves float64 lengths / angles behind (every other path stores float32): bring them to the common
            # storage type through the lengths / angles setters so that the numpy model of later concatenations stays exact
            ctx.observe("wide.unitcell_vectors_setter_dtype", str(np.asarray(gotL).dtype))
            t.unitcell_lengths, t.unitcell_angles = np.array(gotL, copy=True), np.array(gotA, copy=True)
            m2["L"], m2["A"] = np.array(t.unitcell_lengths, copy=True), np.array(t.unitcell_angles, copy=True)
            ctx.observe("wide.assignment", kind)
            R.update(out=t, m2=m2, label="unitcell_vectors=", src=None)
            return R
        if kind == "xyz:float64":
            new = gen_xyz(rng, nf, na, symok).astype(np.float64)
            t.xyz = new.copy()
            m2["xyz"] = new.astype(np.float32)
        elif kind == "xyz:nested-list":
            if nf * na > 400:
                return None
            new = gen_xyz(rng, nf, na, symok)
            t.xyz = new.tolist()
            m2["xyz"] = new
        elif kind == "xyz:2d-single-frame":
            if nf != 1:
                return None
            new = gen_xyz(rng, 1, na, symok)
            t.xyz = new[0].copy()
            m2["xyz"] = new
        elif kind == "time:list":
            new = np.cumsum(rng.uniform(0.1, 1, nf))
            t.time = [float(x) for x in new]
            m2["time"] = new
        elif kind == "time:scalar":
            if nf != 1:
                return None
            t.time = 7.5
            m2["time"] = np.array([7.5])
        elif kind == "time:int-array":
            new = np.cumsum(rng.integers(1, 4, nf))
            t.time = new.copy()
            m2["time"] = new
        else:
            L = rng.uniform(3, 7, (nf, 3))
            A = np.full((nf, 3), 90.0)
            if kind == "cell:1d-single-frame":
                if nf != 1:
                    return None
                t.unitcell_lengths, t.unitcell_angles = L[0].copy(), A[0].copy()
            elif kind == "cell:nested-list":
                t.unitcell_lengths, t.unitcell_angles = L.tolist(), A.tolist()
            else:
                t.unitcell_lengths, t.unitcell_angles = L.copy(), A.copy()
            m2["L"], m2["A"] = L.astype(np.float32), A.astype(np.float32)
        ctx.observe("wide.assignment", kind)
        R.update(out=t, m2=m2, label=kind.split(":")[0] + "=", src=None)
        return R
    if op == "w_obs_other":
        # the object with its history in ONE role of a precentered rmsd, a freshly centred trajectory in the other
        o, _ = make(rng, 3, na, False, top=t.topology, ids=m["ids"], sym=symok)
        o.center_coordinates()
        role = "reference" if rng.random() < 0.6 else "target"
        fr = int(rng.integers(0, nf)) if role == "reference" else int(rng.integers(0, 3))
        raw_t, raw_o = np.array(t.xyz, copy=True), np.array(o.xyz, copy=True)
        had = t._rmsd_traces is not None
        hist["ops"].append(f"obs_rmsd(object as {role})")
        with warnings.catch_warnings():
            warnings.simplefilter("ignore")
            try:
                got = (md.rmsd(o, t, fr, precentered=True) if role == "reference" else md.rmsd(t, o, fr, precentered=True)).astype(np.float64) ** 2
            except Exception as e:
                ctx.violation("traces.precentered-vs-scratch", f"rmsd(precentered=True,object-as-{role}):raises:{type(e).__name__}", f"after {hist['ops']}: {e!r}")
                return None
        a, b = (raw_o, raw_t[fr:fr + 1]) if role == "reference" else (raw_t, raw_o[fr:fr + 1])
        ref = msd_scratch(a, b)
        c = a.astype(np.float64) - a.astype(np.float64).mean(axis=1, keepdims=True)
        cb = b[0].astype(np.float64) - b[0].astype(np.float64).mean(axis=0)
        off = float(max(np.abs(a).max(), np.abs(b).max()))
        tol = 2e-4 * ((c ** 2).sum(axis=(1, 2)) + (cb ** 2).sum()) / na + 1e-9 + 64 * (2.0 ** -24 * off) ** 2
        ctx.observe("precentered_call", f"object as {role} only: " + ("cached-traces" if had else "no-traces(fallback)"))
        flat = _flat_frames(c) | bool(_flat_frames(cb[None])[0])
        badf = np.abs(got - ref) > tol if got.shape == ref.shape else np.ones(1, bool)
        if flat.any() and got.shape == ref.shape:
            ctx.skip("traces.precentered-vs-scratch", "planar or collinear frame: QCP root conditioning ~ sqrt(eps32), not decidable at this tolerance", int(flat.sum()))
            badf = badf & ~flat
        if badf.any():
            cause = next((x for x in reversed(hist["since_center"])), "none")
            ctx.violation("traces.precentered-vs-scratch", (f"stale-rmsd-traces-after:{cause}" if had else f"rmsd(precentered=True):no-traces:wrong-after:{cause}"),
                          f"rmsd(precentered=True) with the object as {role} differs from rmsd from scratch after {hist['ops']}")
            hist["last_obs_ok"] = False
        elif not flat.all():
            ctx.ok("traces.precentered-vs-scratch")
        if not np.array_equal(t.xyz, raw_t):
            mv = np.asarray(t.xyz, np.float64) - raw_t
            if np.abs(mv - mv[:, :1]).max() <= 1e-5 * max(1.0, off):
                m["xyz"] = np.array(t.xyz, copy=True)
            else:
                ctx.violation("traces.precentered-modifies", "rmsd(precentered=True):distorts-xyz", "rmsd changed the coordinates by more than a per-frame translation")
        check_fields(ctx, t, m, f"rmsd(precentered=True, object as {role})", exact=True)
        return None
    if op == "w_obs_analysis":
        # anything derived from the arrays must be what a Trajectory built from scratch from the same arrays gives
        fresh = _fresh_from_model(t, m)
        pairs = rng.integers(0, na, (6, 2))
        # (hash()/== of Trajectory are not observed here: __hash__ mixes in the array STRIDES, so t[3] != t[3:4] by construction)
        obs = {"unitcell_vectors": lambda x: x.unitcell_vectors, "unitcell_volumes": lambda x: x.unitcell_volumes,
               "compute_distances": lambda x: md.compute_distances(x, pairs), "compute_displacements": lambda x: md.compute_displacements(x, pairs),
               "compute_rg": lambda x: md.compute_rg(x), "compute_center_of_mass": lambda x: md.compute_center_of_mass(x), "n_frames/len": lambda x: np.array([x.n_frames, len(x), x.n_atoms]),
               "timestep": lambda x: np.array(x.timestep) if x.n_frames > 1 else None,
               "compute_distances(opt=False)": lambda x: md.compute_distances(x, pairs, opt=False)}
        hist["ops"].append("obs_analysis")
        for nm, f in obs.items():
            try:
                a = f(t)
            except Exception as e:
                try:
                    f(fresh)
                except Exception:
                    ctx.skip("observer.analysis-vs-scratch", f"{nm} refuses this trajectory")
                    continue
                ctx.violation("observer.analysis-vs-scratch", f"{nm}:raises-on-object-with-history:{type(e).__name__}", f"{nm} raises {e!r} after {hist['ops']} but works on a fresh Trajectory with the same arrays")
                continue
            b = f(fresh)
            same = (a is None and b is None) or (a is not None and b is not None and np.asarray(a).shape == np.asarray(b).shape and np.array_equal(np.asarray(a), np.asarray(b), equal_nan=True))
            if same:
                ctx.ok("observer.analysis-vs-scratch")
            else:
                cause = next((x for x in reversed(hist["ops"]) if not x.startswith("obs_")), "none")
                ctx.violation("observer.analysis-vs-scratch", f"{nm}:differs-from-fresh-trajectory-after:{cause}", f"{nm} on the object differs from {nm} on a fresh Trajectory with the same arrays after {hist['ops']}")
        check_fields(ctx, t, m, "analysis observers", exact=True)
        return None
    raise AssertionError(op)


def run_alias(case, ctx):
    """Two objects over ONE coordinate buffer: child = parent.slice(key, copy=False) shares data by documented design, so an
    in-place operation on the child moves the parent's atoms too.  Whatever the parent cached about its coordinates before
    must not survive in a way that falsifies a later operation on the parent: after parent.center_coordinates() the parent
    IS centred, and its precentred RMSD equals the RMSD from scratch."""
    import mdtraj as md
    rng = common.rng_for("C03alias", case["seed"])
    na = int(rng.integers(5, 40))
    nf = int(rng.integers(3, 12))
    top = common.simple_topology(na)
    t = md.Trajectory((rng.normal(size=(nf, na, 3)) + rng.uniform(-3, 3, (nf, 1, 3))).astype(np.float32), top)
    t.center_coordinates()
    key = [slice(None), slice(0, nf), slice(1, None), slice(None, None, 1)][int(rng.integers(4))]
    child = t.slice(key, copy=False)
    if not np.shares_memory(child.xyz, t.xyz):
        ctx.skip("alias", "slice(copy=False) returned a copy for this key")
        return
    how = ["superpose", "xyz-shift-in-place", "center-after-shift"][case["variant"] % 3]
    ctx.observe("alias_child_operation", how)
    ref = md.Trajectory((rng.normal(size=(1, na, 3)) + np.array([2.0, -1.5, 1.0])).astype(np.float32), top)
    if how == "superpose":
        child.superpose(ref)
    elif how == "xyz-shift-in-place":
        child.xyz[:] += np.float32(1.7)
    else:
        child.xyz[:] += np.float32(0.9)
        child.center_coordinates()
        child.xyz[:] += np.float32(0.4)
    moved = float(np.abs(np.asarray(t.xyz, np.float64).mean(axis=1)).max())
    ctx.observe("alias_parent_moved_with_child", "yes" if moved > 1e-3 else "no")
    t.center_coordinates()
    c = float(np.abs(np.asarray(t.xyz, np.float64).mean(axis=1)).max())
    scale = max(1.0, float(np.abs(t.xyz).max()))
    ctx.check(c < 1e-5 * scale, "alias.center", f"center_coordinates:after-in-place-move-through-a-sharing-slice({how}):parent-not-centred",
              f"after child = parent.slice(copy=False); child.{how}; parent.center_coordinates() the parent's centroid is off by {c:.4g} nm")
    raw = np.array(t.xyz, copy=True)
    fr = int(rng.integers(0, t.n_frames))
    got = md.rmsd(t, t, fr, precentered=True).astype(np.float64) ** 2
    want = msd_scratch(raw, raw[fr:fr + 1])
    G = ((raw.astype(np.float64) - raw.astype(np.float64).mean(axis=1, keepdims=True)) ** 2).sum(axis=(1, 2))
    tol = 2e-4 * (G + G[fr]) / na + 1e-9
    ctx.check(bool(np.all(np.abs(got - want) <= tol)), "alias.traces", f"rmsd(precentered=True):after-in-place-move-through-a-sharing-slice({how}):differs-from-scratch",
              "rmsd(precentered=True) on the re-centred parent differs from the RMSD from scratch")


def run_case(case, ctx):
    if case["kind"] == "alias":
        return run_alias(case, ctx)
    if case["kind"] == "immutable":
        return run_immutable(case, ctx)
    if case["kind"] == "pair":
        return run_pair(case, ctx)
    if case["kind"] == "mutate":
        return run_mutate(case, ctx)
    import mdtraj as md
    rng = common.rng_for("C03h", case["seed"])
    sym = case.get("sym", True)
    n_atoms0 = 2 * case["n_pairs"] + (0 if sym else case.get("odd", 0))
    wide = case.get("alphabet") == "wide"
    ops_all = OPS_WIDE if wide else OPS
    t, m = make(rng, case["n_frames"], n_atoms0, case["cell"], sym=sym, wide=wide)
    ctx.observe("construction", "centro-symmetric" if sym else f"arbitrary(n_atoms%4={n_atoms0 % 4})")
    ctx.observe("alphabet", "wide" if wide else "original")
    base_top, base_ids = t.topology, list(m["ids"])
    hist = dict(ops=[], rng=rng, centered_once=False, since_center=[], ctx=ctx)
    if not check_fields(ctx, t, m, "construct"):
        return
    forced = ["center"] if rng.random() < 0.65 else []
    for step in range(case["length"]):
        op = forced.pop() if forced else ops_all[int(rng.integers(len(ops_all)))]
        nf, na = m["xyz"].shape[:2]
        src = t
        label = op
        memcheck, after = True, None
        try:
            if op in ("int", "negint"):
                k = int(rng.integers(0, nf))
                key = k if op == "int" else k - nf
                out = t[key]
                m2 = _index(m, [k])
                strict, exact = True, True
                label = "getitem[int]" if op == "int" else "getitem[-int]"
            elif op in ("slice", "revslice", "slice_nocopy"):
                a, b = sorted(int(x) for x in rng.integers(0, nf + 1, 2))
                if a == b:
                    a, b = 0, nf
                stp = int(rng.integers(1, 4))
                key = slice(a, b, stp) if op != "revslice" else slice(b - 1, a - 1 if a > 0 else None, -stp)
                sel = list(range(nf))[key]
                if not sel:
                    continue
                if op == "slice_nocopy":
                    out = t.slice(key, copy=False)
                    label = "slice(copy=False)"
                else:
                    out = t[key]
                    label = "getitem[slice]" if op == "slice" else "getitem[reversed-slice]"
                m2 = _index(m, sel)
                strict, exact = op != "slice_nocopy", True
            elif op == "index":
                sel = [int(x) for x in rng.integers(0, nf, int(rng.integers(1, nf + 3)))]
                out = t[np.array(sel)] if rng.random() < 0.5 else t[sel]
                m2 = _index(m, sel)
                strict, exact = True, True
                label = "getitem[index-array]"
            elif op == "mask":
                mask = rng.random(nf) < 0.6
                mask[int(rng.integers(0, nf))] = True
                out = t[mask]
                m2 = _index(m, list(np.where(mask)[0]))
                strict, exact = True, True
                label = "getitem[bool-mask]"
            elif op in ("join", "plus", "mdjoin"):
                k = int(rng.integers(1, 4)) if op == "mdjoin" else 1
                others, oms = [], []
                for _ in range(k):
                    o, om = make(rng, int(rng.integers(1, 6)), na, m["L"] is not None, top=t.topology, ids=m["ids"], sym=sym and na % 2 == 0)
                    if hist["centered_once"] and rng.random() < 0.7:
                        o.center_coordinates()
                        om["xyz"] = np.array(o.xyz, copy=True)
                    others.append(o)
                    oms.append(om)
                if op == "join":
                    out = t.join(others[0])
                    label = "join"
                elif op == "plus":
                    out = t + others[0]
                    label = "add"
                else:
                    out = md.join([t] + others)
                    label = "md.join"
                m2 = dict(xyz=np.concatenate([m["xyz"]] + [o["xyz"] for o in oms]), time=np.concatenate([m["time"]] + [o["time"] for o in oms]),
                          L=None if m["L"] is None else np.concatenate([m["L"]] + [o["L"] for o in oms]),
                          A=None if m["A"] is None else np.concatenate([m["A"]] + [o["A"] for o in oms]), ids=m["ids"])
                strict, exact = True, True
                for o in others:
                    check_memory(ctx, out, o, label + "(other)", True)
            elif op == "join_overlap":
                # the documented overlap rule: when the last frame of one piece equals the first frame of the next (within
                # 2e-3 nm) the former is dropped -> numpy: concatenate(m[:-1], other)
                if nf < 2:
                    continue
                o, om = make(rng, int(rng.integers(2, 6)), na, m["L"] is not None, top=t.topology, ids=m["ids"], sym=sym and na % 2 == 0)
                if hist["centered_once"]:
                    o.center_coordinates()
                x0 = np.array(o.xyz, copy=True)
                x0[0] = t.xyz[-1]
                o.xyz = x0
                if hist["centered_once"]:
                    o.center_coordinates()  # traces of the (already centred) pieces are cached on both sides
                om["xyz"] = np.array(o.xyz, copy=True)
                if not np.all(np.abs(om["xyz"][0] - m["xyz"][-1]) < 2e-3):
                    continue
                out = t.join(o, discard_overlapping_frames=True)
                label = "join(discard_overlapping_frames)"
                cut = _index(m, list(range(nf - 1)))
                m2 = dict(xyz=np.concatenate([cut["xyz"], om["xyz"]]), time=np.concatenate([cut["time"], om["time"]]),
                          L=None if m["L"] is None else np.concatenate([cut["L"], om["L"]]),
                          A=None if m["A"] is None else np.concatenate([cut["A"], om["A"]]), ids=m["ids"])
                strict, exact = True, True
                check_memory(ctx, out, o, label + "(other)", True)
            elif op == "stack":
                o, om = make(rng, nf, 2 * int(rng.integers(1, 4)), False)
                out = t.stack(o)
                m2 = dict(xyz=np.hstack([m["xyz"], om["xyz"]]), time=m["time"], L=m["L"], A=m["A"],
                          ids=m["ids"] + [10000 + 100 * step + i for i in om["ids"]])
                strict, exact = False, True
                check_memory(ctx, out, o, "stack(other)", False)
            elif op in ("atom_slice", "atom_slice_inplace"):
                if sym and na % 2 == 0:
                    npair = na // 2
                    keep = np.where(rng.random(npair) < 0.7)[0]
                    if len(keep) < 2:
                        keep = np.arange(min(2, npair))
                    idx = np.sort(np.concatenate([2 * keep, 2 * keep + 1]))
                else:
                    idx = np.where(rng.random(na) < 0.7)[0]
                    if len(idx) < 3:
                        idx = np.arange(min(3, na))
                inplace = op == "atom_slice_inplace"
                out = t.atom_slice(idx, inplace=inplace)
                label = f"atom_slice(inplace={inplace})"
                if inplace and out is not t:
                    ctx.violation("model.fields", "atom_slice(inplace=True):does-not-return-self", "atom_slice(inplace=True) returned another object")
                m2 = dict(xyz=m["xyz"][:, idx], time=m["time"], L=m["L"], A=m["A"], ids=[m["ids"][i] for i in idx])
                strict, exact = True, True
                if inplace:
                    src = None
            elif op in ("center", "center_mw"):
                out = t.center_coordinates(mass_weighted=(op == "center_mw"))
                label = f"center_coordinates(mass_weighted={op == 'center_mw'})"
                if out is not t:
                    ctx.violation("model.fields", "center_coordinates:does-not-return-self", "center_coordinates returned another object")
                x = np.asarray(t.xyz, np.float64)
                scale = max(1.0, np.abs(m["xyz"]).max())
                if op == "center":
                    ok = np.abs(x.mean(axis=1)).max() < 1e-5 * scale
                else:
                    masses = np.array([a.element.mass for a in t.topology.atoms])
                    ok = np.abs((x * masses[None, :, None]).sum(1) / masses.sum()).max() < 1e-5 * scale
                rel = np.abs((x - x[:, :1]) - (m["xyz"].astype(np.float64) - m["xyz"][:, :1].astype(np.float64))).max() < 1e-5 * scale
                ctx.check(bool(ok and rel), "center.postcondition", f"{label}:not-centred-or-distorted", f"{label}: centroid not at origin or relative positions changed")
                m2 = dict(m, xyz=np.array(t.xyz, copy=True))
                strict, exact, src = False, True, None
                hist["centered_once"] = True
                hist["since_center"] = []
            elif op == "superpose":
                ref, _ = make(rng, 2, na, False, top=t.topology, ids=m["ids"], sym=sym and na % 2 == 0)
                if rng.random() < 0.7:  # a reference away from the origin: superpose moves every frame to ITS centroid
                    ref.xyz = (ref.xyz + rng.uniform(-3, 3, (1, 1, 3))).astype(np.float32)
                before = np.array(t.xyz, copy=True)
                out = t.superpose(ref, frame=int(rng.integers(0, 2)))
                label = "superpose"
                d0 = np.linalg.norm(before[:, 1:] - before[:, :-1], axis=-1)
                d1 = np.linalg.norm(t.xyz[:, 1:] - t.xyz[:, :-1], axis=-1)
                ctx.check(bool(np.abs(d0 - d1).max() < 1e-4 * max(1.0, np.abs(before).max())), "superpose.rigid", "superpose:not-rigid",
                          "superpose changed interatomic distances")
                m2 = dict(m, xyz=np.array(t.xyz, copy=True))
                strict, exact, src = False, True, None
            elif op == "remove_solvent":
                inplace = bool(rng.random() < 0.3)
                keep = [a.index for a in t.topology.atoms if a.residue.name not in ("HOH", "NA", "CL")]  # NA / CL only occur in the wide topologies
                if len(keep) < 4:
                    continue
                if len(keep) == na:
                    ctx.observe("remove_solvent", "system without solvent")  # nothing to remove: still a new object unless inplace
                out = t.remove_solvent(inplace=inplace)
                label = f"remove_solvent(inplace={inplace})"
                m2 = dict(xyz=m["xyz"][:, keep], time=m["time"], L=m["L"], A=m["A"], ids=[m["ids"][i] for i in keep])
                strict, exact = True, True
                if inplace:
                    src = None
            elif op == "set_xyz":
                new = gen_xyz(rng, nf, na, sym and na % 2 == 0)
                t.xyz = new.copy()
                out, m2 = t, dict(m, xyz=new)
                strict, exact, src = False, True, None
                label = "xyz="
            elif op == "set_time":
                new = np.cumsum(rng.uniform(0.1, 1, nf)).astype(np.float32)
                t.time = new.copy()
                out, m2 = t, dict(m, time=new)
                strict, exact, src = False, True, None
                label = "time="
            elif op == "set_cell":
                if rng.random() < 0.25:
                    t.unitcell_vectors = None
                    out, m2 = t, dict(m, L=None, A=None)
                    label = "unitcell_vectors=None"
                else:
                    L = rng.uniform(3, 7, (nf, 3)).astype(np.float32)
                    A = np.full((nf, 3), 90.0, np.float32)
                    t.unitcell_lengths = L.copy()
                    t.unitcell_angles = A.copy()
                    out, m2 = t, dict(m, L=L, A=A)
                    label = "unitcell_lengths/angles="
                strict, exact, src = False, True, None
            elif op.startswith("w_"):
                r = _wide_op(ctx, t, m, op, rng, hist, step, sym)
                if r is None:
                    continue
                out, m2, label, strict, exact, src = r["out"], r["m2"], r["label"], r.get("strict", False), r.get("exact", True), r.get("src", t)
                memcheck, after = r.get("memcheck", True), r.get("after")
            else:  # obs_rmsd
                hist["ops"].append("obs_rmsd")
                observe_rmsd(ctx, t, m, hist)
                check_fields(ctx, t, m, "rmsd(precentered=True)", exact=True)
                continue
        except Exception as e:
            ctx.violation("op.raises", f"{label}:raises:{type(e).__name__}", f"{label} raised {e!r} after {hist['ops']}")
            return
        hist["ops"].append(label)
        if not label.endswith("="):  # assignments of time / cell cannot invalidate traces; xyz= is recorded
            hist["since_center"].append(label)
        elif label == "xyz=":
            hist["since_center"].append(label)
        ctx.observe("op", label)
        if not check_fields(ctx, out, m2, label, exact=exact):
            return
        if src is not None and out is src:
            # an operation that is documented to build a NEW trajectory handed the source object back: whatever the caller
            # does to "the result" in place now happens to the trajectory it meant to keep
            ctx.violation("memory.identity", f"{label}:returns-the-source-object-itself", f"{label}: the result IS the input object (not a new trajectory)")
            return
        if src is not None and out is not src:
            if op == "slice_nocopy" or not memcheck:
                ctx.skip("memory.xyz", "slice(copy=False) / copy.copy share data by documented design")
            else:
                check_memory(ctx, out, src, label, strict)
            # the source must be untouched by a non-inplace operation
            if not check_fields(ctx, src, m, label + ":source", exact=True):
                return
        t, m = out, m2
        if after is not None and after(t, m) is False:
            return
        if rng.random() < 0.35:
            hist["ops"].append("obs_rmsd")
            observe_rmsd(ctx, t, m, hist)
        if rng.random() < 0.3:
            hist["ops"].append("obs_reference")
            observe_as_reference(ctx, t, m, hist)
    observe_rmsd(ctx, t, m, hist)
    observe_as_reference(ctx, t, m, hist)


def _index(m, sel):
    sel = list(sel)
    return dict(xyz=m["xyz"][sel], time=m["time"][sel], L=None if m["L"] is None else m["L"][sel],
                A=None if m["A"] is None else m["A"][sel], ids=m["ids"])


# ------------------------------------------------------------------------------------------------ input immutability
def _digest(t):
    h = {}
    for nm in ("xyz", "time", "unitcell_lengths", "unitcell_angles", "unitcell_vectors", "unitcell_volumes"):
        a = getattr(t, nm)
        h[nm] = None if a is None else hashlib.sha256(np.ascontiguousarray(a).tobytes() + str(a.shape).encode() + str(a.dtype).encode()).hexdigest()
    top = t.topology
    h["topology"] = hashlib.sha256(repr([(a.name, a.element.symbol, a.residue.name, a.residue.index, a.residue.resSeq, a.residue.chain.index)
                                         for a in top.atoms] + sorted((b[0].index, b[1].index) for b in top.bonds)).encode()).hexdigest()
    return h


def _protein(rng, variant):
    import mdtraj as md
    repo = os.environ.get("VERIF_REPO", "/repo")
    t = md.load(os.path.join(repo, "tests/data/2EQQ.pdb"))[: 6 + variant]
    t.xyz = (t.xyz + rng.normal(scale=0.002, size=t.xyz.shape)).astype(np.float32)
    t.unitcell_lengths = np.full((t.n_frames, 3), 8.0, np.float32)
    # odd variants: a skewed cell whose standard vectors are NOT in reduced form (c_y > b_y/2), so code that reduces a box
    # has something to change
    t.unitcell_angles = np.tile(np.array([[50.0, 65.0, 75.0]], np.float32) if variant % 2 else np.array([[90.0, 90.0, 90.0]], np.float32), (t.n_frames, 1))
    t.time = np.arange(t.n_frames, dtype=np.float32) * 2
    return t


def _fns():
    import mdtraj as md
    ca = lambda t: t.topology.select("name CA")
    pairs = lambda t: np.array([[0, 5], [3, 40], [7, 100]])
    F = {}
    F["compute_distances"] = (lambda t: md.compute_distances(t, pairs(t)), ())
    F["compute_distances(opt=False)"] = (lambda t: md.compute_distances(t, pairs(t), opt=False), ())
    F["compute_displacements(opt=False)"] = (lambda t: md.compute_displacements(t, pairs(t), opt=False), ())
    F["compute_angles(opt=False)"] = (lambda t: md.compute_angles(t, np.array([[0, 1, 2], [5, 9, 30]]), opt=False), ())
    F["compute_dihedrals(opt=False)"] = (lambda t: md.compute_dihedrals(t, np.array([[0, 1, 2, 3], [5, 9, 30, 60]]), opt=False), ())
    F["compute_displacements"] = (lambda t: md.compute_displacements(t, pairs(t)), ())
    F["compute_angles"] = (lambda t: md.compute_angles(t, np.array([[0, 1, 2], [5, 9, 30]])), ())
    F["compute_dihedrals"] = (lambda t: md.compute_dihedrals(t, np.array([[0, 1, 2, 3], [5, 9, 30, 60]])), ())
    F["compute_phi"] = (lambda t: md.compute_phi(t), ())
    F["compute_psi"] = (lambda t: md.compute_psi(t), ())
    F["compute_chi1"] = (lambda t: md.compute_chi1(t), ())
    F["compute_omega"] = (lambda t: md.compute_omega(t), ())
    F["compute_rg"] = (lambda t: md.compute_rg(t), ())
    F["compute_center_of_mass"] = (lambda t: md.compute_center_of_mass(t), ())
    F["compute_center_of_geometry"] = (lambda t: md.compute_center_of_geometry(t), ())
    F["compute_gyration_tensor"] = (lambda t: md.compute_gyration_tensor(t), ())
    F["compute_inertia_tensor"] = (lambda t: md.compute_inertia_tensor(t), ())
    F["principal_moments"] = (lambda t: md.principal_moments(t), ())
    F["asphericity"] = (lambda t: md.asphericity(t), ())
    F["compute_contacts(closest-heavy)"] = (lambda t: md.compute_contacts(t, [[0, 5], [2, 9]]), ())
    F["compute_contacts(ca)"] = (lambda t: md.compute_contacts(t, "all", scheme="ca"), ())
    F["compute_neighbors"] = (lambda t: md.compute_neighbors(t, 0.5, ca(t)[:5]), ())
    F["compute_neighborlist"] = (lambda t: md.compute_neighborlist(t, 0.4), ())
    F["shrake_rupley"] = (lambda t: md.shrake_rupley(t[:2], n_sphere_points=30), ())
    F["shrake_rupley(residue)"] = (lambda t: md.shrake_rupley(t[:2], n_sphere_points=30, mode="residue"), ())
    F["compute_dssp"] = (lambda t: md.compute_dssp(t), ())
    F["kabsch_sander"] = (lambda t: md.kabsch_sander(t), ())
    F["baker_hubbard"] = (lambda t: md.baker_hubbard(t), ())
    F["wernet_nilsson"] = (lambda t: md.wernet_nilsson(t), ())
    F["compute_drid"] = (lambda t: md.compute_drid(t, atom_indices=ca(t)), ())
    F["density"] = (lambda t: md.density(t), ())
    F["compute_rdf"] = (lambda t: md.compute_rdf(t, pairs(t), r_range=(0, 1)), ())
    F["find_closest_contact"] = (lambda t: md.find_closest_contact(t, [0, 1, 2], [50, 51]), ())
    F["unitcell_volumes"] = (lambda t: t.unitcell_volumes, ())
    F["unitcell_vectors"] = (lambda t: np.array(t.unitcell_vectors, copy=True), ())
    F["hash"] = (lambda t: hash(t), ())
    F["getitem"] = (lambda t: t[::2], ())
    F["atom_slice"] = (lambda t: t.atom_slice(ca(t)), ())
    F["join"] = (lambda t: t.join(t[:2]), ())
    F["stack"] = (lambda t: t.stack(t.atom_slice([0, 1, 2])), ())
    F["remove_solvent"] = (lambda t: t.remove_solvent(), ())
    F["image_molecules(inplace=False)"] = (lambda t: t.image_molecules(inplace=False), ())
    F["make_molecules_whole(inplace=False)"] = (lambda t: t.make_molecules_whole(inplace=False), ())
    F["smooth(inplace=False)"] = (lambda t: t.smooth(3, inplace=False), ())
    F["to_dataframe"] = (lambda t: t.topology.to_dataframe(), ())
    F["select"] = (lambda t: t.topology.select("protein and name CA"), ())
    F["rmsd(ref=input)"] = (lambda t: md.rmsd(_fresh(t), t, 0), ("xyz",))  # reference is centred in place? only target documented
    F["rmsd(target=input)"] = (lambda t: md.rmsd(t, _fresh(t), 0), ("xyz",))
    F["rmsd(atom_indices)"] = (lambda t: md.rmsd(t, _fresh(t), 0, atom_indices=ca(t)), ("xyz",))
    F["rmsf"] = (lambda t: md.rmsf(t, _fresh(t), 0), ("xyz",))
    F["superpose(ref=input)"] = (lambda t: _fresh(t).superpose(t, 0), ())
    F["lprmsd"] = (lambda t: md.lprmsd(t, _fresh(t), 0, atom_indices=ca(t)), ("xyz",))
    for ext in ("h5", "xtc", "trr", "dcd", "nc", "pdb", "gro", "xyz", "lammpstrj", "mdcrd", "pdb.gz"):
        F[f"save({ext})"] = ((lambda e: (lambda t: t.save(os.path.join(tempfile.mkdtemp(dir=_TMP), "x." + e))))(ext), ())
    # ---- wider table (IMMUTABLE_WIDE): public analysis / save entry points and option values the table above never calls
    from mdtraj.geometry import alignment
    charges = lambda t: np.array([((i * 7) % 5 - 2) * 0.2 for i in range(t.n_atoms)])
    groups = lambda t: [[a.index for a in r.atoms] for r in list(t.topology.residues)[:6]]
    tp = np.array([[0, 1], [0, 3], [2, 5]])
    F["acylindricity"] = (lambda t: md.acylindricity(t), ())
    F["relative_shape_antisotropy"] = (lambda t: md.relative_shape_antisotropy(t), ())
    F["compute_chi2"] = (lambda t: md.compute_chi2(t), ())
    F["compute_chi3"] = (lambda t: md.compute_chi3(t), ())
    F["compute_chi4"] = (lambda t: md.compute_chi4(t), ())
    F["compute_J3_HN_HA"] = (lambda t: md.compute_J3_HN_HA(t), ())
    F["compute_directors"] = (lambda t: md.compute_directors(t, indices=groups(t)), ())
    F["compute_nematic_order"] = (lambda t: md.compute_nematic_order(t, indices=groups(t)), ())
    F["compute_nematic_order(residues)"] = (lambda t: md.compute_nematic_order(t, indices="residues"), ())
    F["compute_distances_t"] = (lambda t: md.compute_distances_t(t, pairs(t), tp), ())
    F["compute_distances_t(opt=False)"] = (lambda t: md.compute_distances_t(t, pairs(t), tp, opt=False), ())
    F["compute_rdf_t"] = (lambda t: md.compute_rdf_t(t, pairs(t), tp, r_range=(0, 1)), ())
    F["dipole_moments"] = (lambda t: md.dipole_moments(t, charges(t)), ())
    F["static_dielectric"] = (lambda t: md.static_dielectric(t, charges(t), 300.0), ())
    F["isothermal_compressability_kappa_T"] = (lambda t: md.isothermal_compressability_kappa_T(t, 300.0), ())
    F["density(masses)"] = (lambda t: md.density(t, masses=np.ones(t.n_atoms)), ())
    F["compute_center_of_mass(select)"] = (lambda t: md.compute_center_of_mass(t, select="name CA"), ())
    F["compute_contacts(sidechain-heavy)"] = (lambda t: md.compute_contacts(t, [[1, 6], [2, 9]], scheme="sidechain-heavy"), ())
    F["compute_contacts(closest,periodic=False)"] = (lambda t: md.compute_contacts(t, [[0, 5], [2, 9]], scheme="closest", periodic=False), ())
    F["compute_neighbors(haystack)"] = (lambda t: md.compute_neighbors(t, 0.5, ca(t)[:5], haystack_indices=ca(t)[5:], periodic=False), ())
    F["compute_neighborlist(frame=1)"] = (lambda t: md.compute_neighborlist(t, 0.4, frame=1, periodic=False), ())
    F["shrake_rupley(get_mapping)"] = (lambda t: md.shrake_rupley(t[:2], n_sphere_points=30, mode="residue", get_mapping=True), ())
    F["compute_dssp(simplified=False)"] = (lambda t: md.compute_dssp(t, simplified=False), ())
    F["baker_hubbard(periodic=False)"] = (lambda t: md.baker_hubbard(t, periodic=False, freq=0.3), ())
    F["compute_drid(all)"] = (lambda t: md.compute_drid(t.atom_slice(ca(t))), ())
    F["find_closest_contact(frame=2)"] = (lambda t: md.find_closest_contact(t, [0, 1, 2], [50, 51], frame=2, periodic=False), ())
    F["compute_average_structure(xyz)"] = (lambda t: alignment.compute_average_structure(t.xyz[:, :40]), ())
    F["alignment.rmsd_qcp(xyz)"] = (lambda t: alignment.rmsd_qcp(t.xyz[0, :40], t.xyz[1, :40]), ())
    F["rmsf(ref=None)"] = (lambda t: md.rmsf(t, None), ("xyz",))
    F["rmsd(ref_atom_indices)"] = (lambda t: md.rmsd(t, _fresh(t), 0, atom_indices=ca(t), ref_atom_indices=ca(t)[::-1].copy()), ("xyz",))
    F["rmsd(reference=self)"] = (lambda t: md.rmsd(t, t, 1), ("xyz",))
    F["rmsd(parallel=False)"] = (lambda t: md.rmsd(t, _fresh(t), 0, parallel=False), ("xyz",))
    F["superpose(target=input)"] = (lambda t: t.superpose(_fresh(t), 0), ("xyz",))
    F["center_coordinates"] = (lambda t: t.center_coordinates(), ("xyz",))
    F["center_coordinates(mass_weighted)"] = (lambda t: t.center_coordinates(mass_weighted=True), ("xyz",))
    F["make_molecules_whole(inplace=True)"] = (lambda t: t.make_molecules_whole(inplace=True), ("xyz",))
    F["image_molecules(inplace=True)"] = (lambda t: t.image_molecules(inplace=True, anchor_molecules=[set(t.topology.atoms)], other_molecules=[]), ("xyz",))
    F["image_molecules(inplace=False,anchor_molecules)"] = (lambda t: t.image_molecules(inplace=False, anchor_molecules=[set(list(t.topology.atoms)[:200])],
                                                                                         other_molecules=[set(list(t.topology.atoms)[200:])], make_whole=False), ())
    F["smooth(order=1)"] = (lambda t: t.smooth(3, order=1, atom_indices=[0, 3, 5]), ())
    F["smooth(inplace=True)"] = (lambda t: t.smooth(3, order=1, inplace=True), ("xyz",))
    F["slice(copy=False)"] = (lambda t: t.slice(slice(1, 4), copy=False), ())
    F["str/repr/len"] = (lambda t: (str(t), repr(t).split(" at 0x")[0], len(t), t.timestep, t.n_residues, t.n_chains), ())
    F["eq"] = (lambda t: t == _fresh(t), ())
    F["topology.queries"] = (lambda t: (t.topology.find_molecules(), t.topology.select_pairs("name CA", "name N"), t.topology.to_fasta(),
                                        t.topology.select_atom_indices("heavy"), t.topology.select_atom_indices("minimal")), ())
    F["pickle"] = (lambda t: __import__("pickle").dumps(t), ())
    F["deepcopy"] = (lambda t: __import__("copy").deepcopy(t), ())
    F["save_pdb(bfactors,ter=False)"] = (lambda t: t.save_pdb(os.path.join(tempfile.mkdtemp(dir=_TMP), "x.pdb"), bfactors=np.arange(t.n_atoms) % 50, ter=False), ())
    F["save_gro(precision=5)"] = (lambda t: t.save_gro(os.path.join(tempfile.mkdtemp(dir=_TMP), "x.gro"), precision=5), ())
    F["save_hdf5(mode=a)"] = (lambda t: t.save_hdf5(os.path.join(tempfile.mkdtemp(dir=_TMP), "x.h5"), mode="a"), ())
    for ext in ("ncrst", "rst7", "dtr", "netcdf", "crd", "xyz.gz"):
        F[f"save({ext})"] = ((lambda e: (lambda t: t.save(os.path.join(tempfile.mkdtemp(dir=_TMP), "x." + e))))(ext), ())
    return F


def _fresh(t):
    import mdtraj as md
    return md.Trajectory(np.array(t.xyz, copy=True), t.topology.copy(), time=t.time.copy(), unitcell_lengths=t.unitcell_lengths.copy(),
                         unitcell_angles=t.unitcell_angles.copy())


IMMUTABLE_NAMES = ["compute_distances", "compute_distances(opt=False)", "compute_displacements(opt=False)", "compute_angles(opt=False)",
                   "compute_dihedrals(opt=False)", "compute_displacements", "compute_angles", "compute_dihedrals",
                   "compute_phi", "compute_psi", "compute_chi1", "compute_omega", "compute_rg", "compute_center_of_mass",
                   "compute_center_of_geometry", "compute_gyration_tensor", "compute_inertia_tensor", "principal_moments", "asphericity",
                   "compute_contacts(closest-heavy)", "compute_contacts(ca)", "compute_neighbors", "compute_neighborlist", "shrake_rupley",
                   "shrake_rupley(residue)", "compute_dssp", "kabsch_sander", "baker_hubbard", "wernet_nilsson", "compute_drid", "density",
                   "compute_rdf", "find_closest_contact", "unitcell_volumes", "unitcell_vectors", "hash", "getitem", "atom_slice", "join", "stack",
                   "remove_solvent", "image_molecules(inplace=False)", "make_molecules_whole(inplace=False)", "smooth(inplace=False)",
                   "to_dataframe", "select", "rmsd(ref=input)", "rmsd(target=input)", "rmsd(atom_indices)", "rmsf", "superpose(ref=input)",
                   "lprmsd"] + [f"save({e})" for e in ("h5", "xtc", "trr", "dcd", "nc", "pdb", "gro", "xyz", "lammpstrj", "mdcrd", "pdb.gz")]


IN_PLACE_DOCUMENTED = {"rmsd(ref=input)", "rmsd(target=input)", "rmsd(atom_indices)", "rmsf", "lprmsd"}
IMMUTABLE_WIDE = ["acylindricity", "relative_shape_antisotropy", "compute_chi2", "compute_chi3", "compute_chi4", "compute_J3_HN_HA", "compute_directors",
                  "compute_nematic_order", "compute_nematic_order(residues)", "compute_distances_t", "compute_distances_t(opt=False)", "compute_rdf_t",
                  "dipole_moments", "static_dielectric", "isothermal_compressability_kappa_T", "density(masses)",
                  "compute_center_of_mass(select)", "compute_contacts(sidechain-heavy)", "compute_contacts(closest,periodic=False)",
                  "compute_neighbors(haystack)", "compute_neighborlist(frame=1)", "shrake_rupley(get_mapping)", "compute_dssp(simplified=False)",
                  "baker_hubbard(periodic=False)", "compute_drid(all)", "find_closest_contact(frame=2)", "compute_average_structure(xyz)",
                  "alignment.rmsd_qcp(xyz)", "rmsf(ref=None)", "rmsd(ref_atom_indices)", "rmsd(reference=self)", "rmsd(parallel=False)",
                  "superpose(target=input)", "center_coordinates", "center_coordinates(mass_weighted)", "make_molecules_whole(inplace=True)",
                  "image_molecules(inplace=True)", "image_molecules(inplace=False,anchor_molecules)", "smooth(order=1)", "smooth(inplace=True)", "slice(copy=False)", "str/repr/len", "eq", "topology.queries", "pickle", "deepcopy",
                  "save_pdb(bfactors,ter=False)", "save_gro(precision=5)", "save_hdf5(mode=a)"] + [f"save({e})" for e in ("ncrst", "rst7", "dtr", "netcdf", "crd", "xyz.gz")]
IN_PLACE_WIDE = {"rmsf(ref=None)", "rmsd(ref_atom_indices)", "rmsd(reference=self)", "rmsd(parallel=False)", "superpose(target=input)", "center_coordinates",
                 "center_coordinates(mass_weighted)", "make_molecules_whole(inplace=True)", "image_molecules(inplace=True)", "smooth(inplace=True)"}


def _canon(x, h):
    import mdtraj as md
    if x is None:
        h.update(b"None")
    elif isinstance(x, md.Trajectory):
        for nm in ("xyz", "time", "unitcell_lengths", "unitcell_angles"):
            _canon(getattr(x, nm), h)
        h.update(repr([(a.name, a.residue.name, a.residue.index) for a in x.topology.atoms]).encode())
    elif isinstance(x, np.ndarray):
        h.update(str(x.shape).encode() + str(x.dtype).encode() + np.ascontiguousarray(x).tobytes())
    elif hasattr(x, "toarray"):
        _canon(x.toarray(), h)
    elif isinstance(x, (list, tuple)):
        h.update(b"[%d" % len(x))
        for y in x:
            _canon(y, h)
    elif hasattr(x, "to_numpy"):
        h.update(x.to_csv().encode())
    else:
        h.update(repr(x).encode())


def _result_digest(name, t):
    """digest of what the function name returns (for save(ext): of what the written file loads back as)"""
    import mdtraj as md
    h = hashlib.sha256()
    if name.startswith("save("):
        ext = name[5:-1]
        d = tempfile.mkdtemp(dir=_TMP)
        path = os.path.join(d, "x." + ext)
        t.save(path)
        from vlib.gen import files as vfiles
        if ext not in vfiles.FORMATS:  # formats of the wider table (restart files are numbered per frame): what was written, by name and size
            def _sizes(root):
                return sorted((os.path.relpath(os.path.join(dp, f), root), os.path.getsize(os.path.join(dp, f))) for dp, _, fs in os.walk(root) for f in fs)
            h.update(repr(_sizes(d)).encode())
            return h.hexdigest()
        kw = {} if vfiles.FORMATS[ext]["self_top"] else {"top": t.topology}
        _canon(md.load(path, **kw), h)
    else:
        _canon(_fns()[name][0](t), h)
    return h.hexdigest()


def run_pair(case, ctx):
    """g(t) after f(t) on the very same objects must equal g on a pristine copy: an analysis call must not leave anything
    behind (caches on the trajectory / topology, arrays handed out and later mutated) that changes later results."""
    rng = common.rng_for("C03p", case["seed"])
    t = _protein(rng, case["variant"])
    pristine = _fresh(t)
    f, g = case["f"], case["g"]
    try:
        ref = _result_digest(g, pristine)
    except Exception as e:
        ctx.skip("immutable.observational", f"{g} raised {type(e).__name__} on the probe trajectory")
        return
    try:
        _fns()[f][0](t) if not f.startswith("save(") else _result_digest(f, t)
    except Exception as e:
        ctx.skip("immutable.observational", f"{f} raised {type(e).__name__} on the probe trajectory")
        return
    try:
        got = _result_digest(g, t)
    except Exception as e:
        ctx.violation("immutable.observational", f"{f}:breaks-later-call-of:{g}", f"after {f}(t), {g}(t) raises {type(e).__name__}: {e} (it works on a pristine copy)")
        return
    ctx.observe("pair_first", f)
    if got != ref:
        ctx.violation("immutable.observational", f"{f}:changes-later-result-of:{g}",
                      f"{g}(t) after {f}(t) differs from {g} on a pristine copy of t (cell variant {'skewed-unreduced' if case['variant'] % 2 else 'orthorhombic'})")
    else:
        ctx.ok("immutable.observational")


def _mutate_topology(top, mutation, seed):
    """deterministic in-place edit through public attributes / API; identical on equal topologies"""
    from mdtraj.core import element as E
    rng = common.rng_for("C03mutation", seed)
    atoms = list(top.atoms)
    if mutation == "rename_atoms":
        swap = {"CA": "CX", "CG1": "CG2", "CG2": "CG1", "OG1": "OGx", "N": "Nx", "O": "Ox", "H": "HN", "CB": "CBx"}
        for res in top.residues:
            if rng.random() < 0.35:
                for a in res.atoms:
                    if a.name in swap and rng.random() < 0.6:
                        a.name = swap[a.name]
    elif mutation == "rename_residues":
        for res in top.residues:
            if rng.random() < 0.3:
                res.name = {"ALA": "GLY", "GLY": "ALA", "LYS": "NLE", "HOH": "SOL", "PRO": "ALA"}.get(res.name, "PRO" if rng.random() < 0.3 else "UNK")
    elif mutation == "change_elements":
        for a in atoms:
            if rng.random() < 0.15:
                a.element = {"C": E.sulfur, "N": E.oxygen, "O": E.nitrogen, "H": E.carbon, "S": E.carbon}.get(a.element.symbol, E.carbon)
    elif mutation == "add_bonds":
        for _ in range(12):
            i, j = (int(x) for x in rng.integers(0, len(atoms), 2))
            if i != j:
                top.add_bond(atoms[i], atoms[j])


def run_mutate(case, ctx):
    rng = common.rng_for("C03m", case["seed"])
    t = _protein(rng, case["variant"])
    pristine = _fresh(t)
    g, mu = case["g"], case["mutation"]
    _mutate_topology(pristine.topology, mu, case["seed"])  # edited before anything ever looked at it
    try:
        ref = _result_digest(g, pristine)
        ref_err = None
    except Exception as e:
        ref, ref_err = None, type(e).__name__
    try:
        _result_digest(g, t)  # first call: whatever gets remembered is remembered now
    except Exception as e:
        ctx.skip("immutable.topology-edit", f"{g} raised {type(e).__name__} on the probe trajectory")
        return
    _mutate_topology(t.topology, mu, case["seed"])
    try:
        got, got_err = _result_digest(g, t), None
    except Exception as e:
        got, got_err = None, type(e).__name__
    ctx.observe("topology_edit", mu)
    if (got, got_err) != (ref, ref_err):
        ctx.violation("immutable.topology-edit", f"{g}:result-after-in-place-{mu}-differs-from-fresh-topology",
                      f"{g}(t) after an in-place {mu} of t.topology ({'raises ' + got_err if got_err else 'value'}) differs from {g} on a trajectory whose "
                      f"topology was edited the same way before its first use ({'raises ' + ref_err if ref_err else 'value'})")
    else:
        ctx.ok("immutable.topology-edit")


def run_immutable(case, ctx):
    rng = common.rng_for("C03i", case["seed"])
    t = _protein(rng, case["variant"])
    fn, exempt = _fns()[case["fn"]]
    before = _digest(t)
    try:
        fn(t)
    except Exception as e:
        ctx.skip("immutable.input", f"{case['fn']} raised {type(e).__name__} on the probe trajectory")
        return
    after = _digest(t)
    changed = [k for k in before if before[k] != after[k] and k not in exempt]
    ctx.observe("function", case["fn"])
    if changed:
        ctx.violation("immutable.input", f"{case['fn']}:modifies-input:{'+'.join(changed)}",
                      f"{case['fn']} changed its input trajectory's {changed} (documented in-place fields: {list(exempt)})")
    else:
        ctx.ok("immutable.input")
