"""C03 — slicing, joining, stacking act like array indexing on all fields; no stale cached state; inputs untouched.

Monitors
* shadow model: a dict of plain numpy arrays (xyz, time, lengths, angles) plus the list of surviving original atom
  ids is driven through the numpy equivalent of every operation of a random history; after each operation every field
  of the real Trajectory must equal the model bit-for-bit (indexing/concatenation are exact), all per-frame fields have
  n_frames rows, the topology has xyz.shape[1] atoms carrying the expected original ids.
* memory: np.shares_memory(result.xyz, source.xyz) must be false for every operation that returns a new object; for
  slicing (copy=True), join and atom_slice also time / cell arrays, and no Atom/Residue/Chain object may be shared
  (identity scan); slice(copy=False) is exempt as documented.
* cached traces: trajectories are built centro-symmetric (atoms come in +x/-x pairs, atom subsets take whole pairs), so
  every frame stays centred under all exact operations and `md.rmsd(t, ref, precentered=True)` is a legitimate call at
  any point after center_coordinates(); it is compared on msd with md.rmsd on fresh copies built from the raw arrays
  (tolerance 2e-4*(G_a+G_b)/N + 1e-9: both paths run the same QCP kernel, honest differences are ~1e-6 relative; a
  stale or mis-indexed trace shifts msd by O(G/N)).
* input immutability: byte hashes of every array and a topology fingerprint of the INPUT before and after each of ~45
  analysis/save calls; fields documented as modified in place (rmsd/rmsf/superpose/center_coordinates/lprmsd centre or
  move xyz; inplace=True variants) are exempt for exactly those fields.
In-place pokes into the arrays (t.xyz[0] += 1) are documented unsafe and are not part of the alphabet."""
from __future__ import annotations

import atexit
import hashlib
import os
import shutil
import tempfile

import numpy as np

from vlib.gen import common

PROPERTY = "C03"
LEVEL = "exploration"
NATIVE = ["mdtraj._rmsd", "mdtraj.geometry._geometry"]
RULE = ("case = seeded random operation history (length 3..8 quick, ..25 thorough) over a centro-symmetric trajectory "
        "(3..40 frames, 6..60 atoms, with/without cell, protein+water topology), or one (function, trajectory) pair of the "
        "input-immutability table; non-trivial = at least one model/memory/trace comparison decided; distinct = descriptors")
WORKERS = {"quick": 8, "thorough": 16}
BUDGET = {"quick": 90, "thorough": 1200}
ENV = {"OMP_NUM_THREADS": "2"}
FLOORS = {"quick": {"model.fields": 1500, "memory.xyz": 700, "traces.precentered-vs-scratch": 200, "immutable.input": 40}}
ASSUMPTIONS = ["precentered=True is judged only on coordinates that are centred (centro-symmetric construction keeps them so)",
               "float arithmetic of center_coordinates/superpose is not modelled: after them the model adopts the real xyz once "
               "centroid / rigidity have been checked"]
OPS = ["int", "negint", "slice", "revslice", "index", "mask", "slice_nocopy", "join", "plus", "mdjoin", "join_overlap", "stack", "atom_slice",
       "atom_slice_inplace", "center", "center_mw", "superpose", "remove_solvent", "set_xyz", "set_time", "set_cell", "obs_rmsd"]
_TMP = None


def worker_init(tier, seed):
    global _TMP
    _TMP = tempfile.mkdtemp(prefix="c03-", dir="/var/tmp")
    atexit.register(shutil.rmtree, _TMP, True)


def gen_cases(tier, seed):
    nh = 2500 if tier == "quick" else 40000
    reps = 1 if tier == "quick" else 6
    for r in range(reps):
        for j, name in enumerate(IMMUTABLE_NAMES):
            yield dict(i=r * 100 + j, kind="immutable", fn=name, seed=common.case_seed(seed, "C03i", r * 100 + j), variant=r)
    # observational immutability over pairs: g(t) must not depend on whether f(t) was called before on the same objects
    pure = [n for n in IMMUTABLE_NAMES if n not in IN_PLACE_DOCUMENTED]
    if tier == "quick":
        rngp = common.rng_for("C03pairs", seed)
        pairs = [(pure[int(rngp.integers(len(pure)))], IMMUTABLE_NAMES[int(rngp.integers(len(IMMUTABLE_NAMES)))]) for _ in range(400)]
        # a few pairs that share derived state by construction are always present
        pairs += [("compute_center_of_mass", "density"), ("compute_inertia_tensor", "density"), ("compute_distances(opt=False)", "unitcell_vectors"),
                  ("compute_distances(opt=False)", "save(xtc)"), ("compute_displacements(opt=False)", "save(trr)"), ("compute_angles(opt=False)", "unitcell_volumes"),
                  ("compute_dihedrals(opt=False)", "save(gro)"), ("unitcell_volumes", "save(gro)"), ("compute_phi", "compute_chi1"),
                  ("shrake_rupley", "shrake_rupley(residue)"), ("select", "compute_contacts(ca)")]
    else:
        pairs = [(f, g) for f in pure for g in IMMUTABLE_NAMES]
    for j, (f, g) in enumerate(pairs):
        if f == g:
            continue
        yield dict(i=500 + j, kind="pair", f=f, g=g, seed=common.case_seed(seed, "C03p", j), variant=j % 2)
        if tier != "quick" or j >= 400:  # thorough: both cell variants for every pair; quick: for the pinned pairs
            yield dict(i=50000 + j, kind="pair", f=f, g=g, seed=common.case_seed(seed, "C03p", j), variant=(j + 1) % 2)
    # results after an in-place edit of the topology (public attributes / add_bond) must equal the results on a topology
    # that was built that way from the start: nothing derived from the topology may be remembered across the edit
    muts = ["rename_atoms", "rename_residues", "change_elements", "add_bonds"]
    if tier == "quick":
        rngm = common.rng_for("C03mut", seed)
        mcases = [(pure[int(rngm.integers(len(pure)))], muts[k % 4]) for k in range(120)]  # (documented in-place functions excluded)
        mcases += [(g, mu) for g in ("compute_dssp", "kabsch_sander", "baker_hubbard", "compute_chi1", "compute_phi", "compute_contacts(closest-heavy)",
                                    "compute_contacts(ca)", "shrake_rupley", "compute_rg", "compute_center_of_mass", "select", "density", "remove_solvent",
                                    "image_molecules(inplace=False)", "make_molecules_whole(inplace=False)", "save(pdb)", "save(h5)", "hash")
                   for mu in muts]
    else:
        mcases = [(g, mu) for g in pure for mu in muts for _ in range(2)]
    for j, (g, mu) in enumerate(mcases):
        yield dict(i=80000 + j, kind="mutate", g=g, mutation=mu, seed=common.case_seed(seed, "C03m", j), variant=j % 2)
    for i in range(nh):
        rng = common.rng_for("C03", seed, i)
        yield dict(i=100000 + i, kind="history", seed=common.case_seed(seed, "C03", i), n_frames=int(rng.integers(3, 41)),
                   n_pairs=int(rng.integers(3, 31)), sym=bool(rng.random() < 0.55), odd=int(rng.integers(0, 2)), cell=bool(rng.random() < 0.6),
                   length=int(rng.integers(3, 9 if tier == "quick" else 26)))


# ------------------------------------------------------------------------------------------------ trajectories
def sym_topology(n_pairs, rng):
    """protein-like residues plus some waters; atoms i and i+1 (i even) form a +x/-x pair and share a residue"""
    import mdtraj as md
    from mdtraj.core import element as elem
    top = md.Topology()
    ch = top.add_chain()
    ids = []
    k = 0
    while k < n_pairs:
        water = rng.random() < 0.25
        npair = 1 if water else int(rng.integers(1, 4))
        npair = min(npair, n_pairs - k)
        res = top.add_residue("HOH" if water else ["ALA", "GLY", "LYS"][int(rng.integers(3))], ch)
        for p in range(npair):
            for s in (0, 1):
                top.add_atom(("O" if water else ["CA", "CB", "N", "C"][(2 * p + s) % 4]), elem.oxygen if water else elem.carbon, res)
                ids.append(2 * k + s)
            k += 1
        if rng.random() < 0.3:
            ch = top.add_chain()
    atoms = list(top.atoms)
    for a in range(0, len(atoms) - 1, 2):
        top.add_bond(atoms[a], atoms[a + 1])
    return top, ids


def sym_xyz(rng, n_frames, n_pairs):
    h = rng.normal(scale=1.0, size=(n_frames, n_pairs, 3)).astype(np.float32)
    xyz = np.empty((n_frames, 2 * n_pairs, 3), np.float32)
    xyz[:, 0::2] = h
    xyz[:, 1::2] = -h
    return xyz


def gen_xyz(rng, n_frames, n_atoms, sym):
    """sym: centro-symmetric frames (stay centred under every exact operation); else arbitrary frames with a random
    offset per frame (any atom count, so every remainder modulo the SIMD width 4 occurs)"""
    if sym:
        return sym_xyz(rng, n_frames, n_atoms // 2)
    return (rng.normal(scale=1.0, size=(n_frames, n_atoms, 3)) + rng.uniform(-2, 2, (n_frames, 1, 3))).astype(np.float32)


def make(rng, n_frames, n_atoms, cell, top=None, ids=None, sym=True):
    import mdtraj as md
    if top is None:
        top, ids = sym_topology((n_atoms + 1) // 2, rng)
        if top.n_atoms != n_atoms:  # odd atom count: drop the last atom
            top = top.subset(list(range(n_atoms)))
            ids = ids[:n_atoms]
    xyz = gen_xyz(rng, n_frames, n_atoms, sym)
    t = md.Trajectory(xyz.copy(), top)
    time = np.cumsum(rng.uniform(0.5, 2.0, n_frames)).astype(np.float32)
    t.time = time.copy()
    m = dict(xyz=xyz, time=time, L=None, A=None, ids=list(ids))
    if cell:
        L = rng.uniform(3, 6, (n_frames, 3)).astype(np.float32)
        A = np.tile(np.array([[90.0, 90.0, 90.0]], np.float32), (n_frames, 1))
        t.unitcell_lengths = L.copy()
        t.unitcell_angles = A.copy()
        m["L"], m["A"] = L, A
    return t, m


def atom_ids(top):
    """original atom ids are carried in atom.serial-free way: use residue index + name is ambiguous, so we tag by identity map"""
    return None


# ------------------------------------------------------------------------------------------------ checks
def check_fields(ctx, t, m, opname, exact=True):
    problems = []
    nf = m["xyz"].shape[0]
    if t.xyz.shape != m["xyz"].shape:
        problems.append(f"xyz shape {t.xyz.shape} model {m['xyz'].shape}")
    elif exact and not np.array_equal(t.xyz, m["xyz"]):
        problems.append("xyz values differ from numpy indexing")
    if t.time.shape != (nf,):
        problems.append(f"time shape {t.time.shape} for {nf} frames")
    elif not np.array_equal(t.time, m["time"]):
        problems.append("time differs")
    for nm, got, exp in (("unitcell_lengths", t.unitcell_lengths, m["L"]), ("unitcell_angles", t.unitcell_angles, m["A"])):
        if (got is None) != (exp is None):
            problems.append(f"{nm} presence {got is not None} model {exp is not None}")
        elif got is not None and (got.shape != (nf, 3) or not np.array_equal(got, exp)):
            problems.append(f"{nm} differs (shape {got.shape})")
    if t.topology is not None and t.topology.n_atoms != m["xyz"].shape[1]:
        problems.append(f"topology has {t.topology.n_atoms} atoms, xyz {m['xyz'].shape[1]}")
    if problems:
        what = "+".join(sorted({p.split()[0] for p in problems}))
        ctx.violation("model.fields", f"{opname}:field-mismatch:{what}", f"after {opname}: " + "; ".join(problems))
        return False
    ctx.ok("model.fields")
    return True


def check_memory(ctx, out, src, opname, strict):
    """strict: slicing(copy=True)/join/atom_slice -> nothing mutable shared; otherwise only xyz"""
    if np.shares_memory(out.xyz, src.xyz):
        ctx.violation("memory.xyz", f"{opname}:xyz-shares-memory-with-input", f"{opname}: result.xyz shares memory with the input's xyz")
    else:
        ctx.ok("memory.xyz")
    if not strict:
        return
    shared = []
    for nm in ("time", "unitcell_lengths", "unitcell_angles"):
        a, b = getattr(out, nm), getattr(src, nm)
        if a is not None and b is not None and np.shares_memory(a, b):
            shared.append(nm)
    if out.topology is src.topology:
        shared.append("topology-object")
    else:
        src_ids = {id(x) for x in src.topology.atoms} | {id(x) for x in src.topology.residues} | {id(x) for x in src.topology.chains}
        if any(id(x) in src_ids for x in out.topology.atoms) or any(id(x) in src_ids for x in out.topology.residues) \
                or any(id(x) in src_ids for x in out.topology.chains):
            shared.append("topology-members")
        if any(id(b[0]) in src_ids or id(b[1]) in src_ids for b in out.topology.bonds):
            shared.append("bond-atoms")
    if shared:
        ctx.violation("memory.all", f"{opname}:shares-mutable-data:{'+'.join(shared)}", f"{opname}: result shares {shared} with its source")
    else:
        ctx.ok("memory.all")


def msd_scratch(x, r):
    """rmsd^2 from scratch through md.rmsd on fresh objects built from raw arrays"""
    import mdtraj as md
    top = common.simple_topology(x.shape[1])
    a = md.Trajectory(np.array(x, copy=True), top)
    b = md.Trajectory(np.array(r, copy=True), top)
    return md.rmsd(a, b, 0).astype(np.float64) ** 2


def observe_rmsd(ctx, t, m, hist):
    """md.rmsd(t, t, frame, precentered=True) vs RMSD from scratch on fresh copies.

    On a correct tree the shortcut is safe after ANY history of the alphabet: cached traces exist only while the
    coordinates are the centred ones they were computed from (every operation that changes coordinates or the atom set
    goes through the xyz setter / builds a new object, which drops them; frame slicing indexes them), and without
    cached traces md.rmsd falls back to centring itself.  So no 'is it centred?' precondition is applied here — a
    stale trace on moved coordinates is exactly what must be seen.  md.rmsd may centre its target in place (documented):
    afterwards the model adopts the new xyz once it is verified to be a per-frame translation of the old one."""
    import mdtraj as md
    fr = int(hist["rng"].integers(0, t.n_frames))
    raw = np.array(t.xyz, copy=True)
    had_traces = t._rmsd_traces is not None
    try:
        got = md.rmsd(t, t, fr, precentered=True).astype(np.float64) ** 2
    except Exception as e:
        ctx.violation("traces.precentered-vs-scratch", f"rmsd(precentered=True):raises:{type(e).__name__}", f"after {hist['ops']}: {e!r}")
        return
    ref = msd_scratch(raw, raw[fr:fr + 1])
    N = raw.shape[1]
    c = raw.astype(np.float64) - raw.astype(np.float64).mean(axis=1, keepdims=True)
    G = (c ** 2).sum(axis=(1, 2))
    off = float(np.abs(raw).max())
    tol = 2e-4 * (G + G[fr]) / N + 1e-9 + 64 * (2.0 ** -24 * off) ** 2
    bad = np.abs(got - ref) > tol
    ctx.observe("precentered_call", "cached-traces" if had_traces else "no-traces(fallback)")
    if got.shape != ref.shape or bad.any():
        j = int(np.argmax(bad)) if got.shape == ref.shape else -1
        cause = next((o for o in reversed(hist["since_center"])), "none")
        ctx.violation("traces.precentered-vs-scratch", f"stale-rmsd-traces-after:{cause}" if had_traces else f"rmsd(precentered=True):no-traces:wrong-after:{cause}",
                      f"rmsd(precentered=True) differs from rmsd from scratch after {hist['ops']}: msd {got[j]:.6g} vs {ref[j]:.6g} (tol {tol[j]:.2g})")
    else:
        ctx.ok("traces.precentered-vs-scratch")
    if not np.array_equal(t.xyz, raw):
        x = np.asarray(t.xyz, np.float64)
        moved = x - raw
        rigid_shift = np.abs(moved - moved[:, :1]).max() <= 1e-5 * max(1.0, off)
        if rigid_shift:
            m["xyz"] = np.array(t.xyz, copy=True)  # documented in-place centring of the target
            ctx.observe("rmsd_centred_target_in_place", "yes")
        else:
            ctx.violation("traces.precentered-modifies", "rmsd(precentered=True):distorts-xyz", "rmsd(precentered=True) changed the coordinates by more than a per-frame translation")


def observe_as_reference(ctx, t, m, hist):
    """The live object serves as the REFERENCE on which another, fresh trajectory is superposed; the result must be the one
    obtained with a brand-new Trajectory holding the same arrays (whatever was done to or with the object before:
    earlier superpositions on it, in-place moves of it).  The same frame is used most of the time, so that anything an
    earlier call may have left on the object for that frame would be reused."""
    import mdtraj as md
    rng = hist["rng"]
    fr = 0 if rng.random() < 0.7 else int(rng.integers(0, t.n_frames))
    mob = (rng.normal(size=(2, t.n_atoms, 3)) + rng.uniform(-2, 2, (1, 1, 3))).astype(np.float32)
    fresh = md.Trajectory(np.array(t.xyz, copy=True), t.topology)
    try:
        a = md.Trajectory(mob.copy(), t.topology).superpose(t, frame=fr).xyz
        b = md.Trajectory(mob.copy(), t.topology).superpose(fresh, frame=fr).xyz
    except Exception as e:
        ctx.violation("reference.fresh-vs-used", f"superpose(reference=object):raises:{type(e).__name__}", f"after {hist['ops']}: {e!r}")
        return
    hist["ref_uses"] = hist.get("ref_uses", 0) + 1
    ctx.observe("used_as_reference", "first use" if hist["ref_uses"] == 1 else "repeated use")
    if np.array_equal(a, b):
        ctx.ok("reference.fresh-vs-used")
    else:
        cause = next((o for o in reversed(hist["ops"]) if not o.startswith("obs_")), "none")
        ctx.violation("reference.fresh-vs-used", f"superpose-on-used-object-differs-from-fresh-copy:after:{cause}",
                      f"superposing a trajectory on frame {fr} of the object differs from superposing it on a fresh Trajectory with the same "
                      f"coordinates (max {float(np.abs(a - b).max()):.4g} nm) after {hist['ops']}")
    check_fields(ctx, t, m, "superpose(other, reference=this)", exact=True)


def run_case(case, ctx):
    if case["kind"] == "immutable":
        return run_immutable(case, ctx)
    if case["kind"] == "pair":
        return run_pair(case, ctx)
    if case["kind"] == "mutate":
        return run_mutate(case, ctx)
    import mdtraj as md
    rng = common.rng_for("C03h", case["seed"])
    sym = case.get("sym", True)
    n_atoms0 = 2 * case["n_pairs"] + (0 if sym else case.get("odd", 0))
    t, m = make(rng, case["n_frames"], n_atoms0, case["cell"], sym=sym)
    ctx.observe("construction", "centro-symmetric" if sym else f"arbitrary(n_atoms%4={n_atoms0 % 4})")
    base_top, base_ids = t.topology, list(m["ids"])
    hist = dict(ops=[], rng=rng, centered_once=False, since_center=[])
    if not check_fields(ctx, t, m, "construct"):
        return
    forced = ["center"] if rng.random() < 0.65 else []
    for step in range(case["length"]):
        op = forced.pop() if forced else OPS[int(rng.integers(len(OPS)))]
        nf, na = m["xyz"].shape[:2]
        src = t
        label = op
        try:
            if op in ("int", "negint"):
                k = int(rng.integers(0, nf))
                key = k if op == "int" else k - nf
                out = t[key]
                m2 = _index(m, [k])
                strict, exact = True, True
                label = "getitem[int]" if op == "int" else "getitem[-int]"
            elif op in ("slice", "revslice", "slice_nocopy"):
                a, b = sorted(int(x) for x in rng.integers(0, nf + 1, 2))
                if a == b:
                    a, b = 0, nf
                stp = int(rng.integers(1, 4))
                key = slice(a, b, stp) if op != "revslice" else slice(b - 1, a - 1 if a > 0 else None, -stp)
                sel = list(range(nf))[key]
                if not sel:
                    continue
                if op == "slice_nocopy":
                    out = t.slice(key, copy=False)
                    label = "slice(copy=False)"
                else:
                    out = t[key]
                    label = "getitem[slice]" if op == "slice" else "getitem[reversed-slice]"
                m2 = _index(m, sel)
                strict, exact = op != "slice_nocopy", True
            elif op == "index":
                sel = [int(x) for x in rng.integers(0, nf, int(rng.integers(1, nf + 3)))]
                out = t[np.array(sel)] if rng.random() < 0.5 else t[sel]
                m2 = _index(m, sel)
                strict, exact = True, True
                label = "getitem[index-array]"
            elif op == "mask":
                mask = rng.random(nf) < 0.6
                mask[int(rng.integers(0, nf))] = True
                out = t[mask]
                m2 = _index(m, list(np.where(mask)[0]))
                strict, exact = True, True
                label = "getitem[bool-mask]"
            elif op in ("join", "plus", "mdjoin"):
                k = int(rng.integers(1, 4)) if op == "mdjoin" else 1
                others, oms = [], []
                for _ in range(k):
                    o, om = make(rng, int(rng.integers(1, 6)), na, m["L"] is not None, top=t.topology, ids=m["ids"], sym=sym and na % 2 == 0)
                    if hist["centered_once"] and rng.random() < 0.7:
                        o.center_coordinates()
                        om["xyz"] = np.array(o.xyz, copy=True)
                    others.append(o)
                    oms.append(om)
                if op == "join":
                    out = t.join(others[0])
                    label = "join"
                elif op == "plus":
                    out = t + others[0]
                    label = "add"
                else:
                    out = md.join([t] + others)
                    label = "md.join"
                m2 = dict(xyz=np.concatenate([m["xyz"]] + [o["xyz"] for o in oms]), time=np.concatenate([m["time"]] + [o["time"] for o in oms]),
                          L=None if m["L"] is None else np.concatenate([m["L"]] + [o["L"] for o in oms]),
                          A=None if m["A"] is None else np.concatenate([m["A"]] + [o["A"] for o in oms]), ids=m["ids"])
                strict, exact = True, True
                for o in others:
                    check_memory(ctx, out, o, label + "(other)", True)
            elif op == "join_overlap":
                # the documented overlap rule: when the last frame of one piece equals the first frame of the next (within
                # 2e-3 nm) the former is dropped -> numpy: concatenate(m[:-1], other)
                if nf < 2:
                    continue
                o, om = make(rng, int(rng.integers(2, 6)), na, m["L"] is not None, top=t.topology, ids=m["ids"], sym=sym and na % 2 == 0)
                if hist["centered_once"]:
                    o.center_coordinates()
                x0 = np.array(o.xyz, copy=True)
                x0[0] = t.xyz[-1]
                o.xyz = x0
                if hist["centered_once"]:
                    o.center_coordinates()  # traces of the (already centred) pieces are cached on both sides
                om["xyz"] = np.array(o.xyz, copy=True)
                if not np.all(np.abs(om["xyz"][0] - m["xyz"][-1]) < 2e-3):
                    continue
                out = t.join(o, discard_overlapping_frames=True)
                label = "join(discard_overlapping_frames)"
                cut = _index(m, list(range(nf - 1)))
                m2 = dict(xyz=np.concatenate([cut["xyz"], om["xyz"]]), time=np.concatenate([cut["time"], om["time"]]),
                          L=None if m["L"] is None else np.concatenate([cut["L"], om["L"]]),
                          A=None if m["A"] is None else np.concatenate([cut["A"], om["A"]]), ids=m["ids"])
                strict, exact = True, True
                check_memory(ctx, out, o, label + "(other)", True)
            elif op == "stack":
                o, om = make(rng, nf, 2 * int(rng.integers(1, 4)), False)
                out = t.stack(o)
                m2 = dict(xyz=np.hstack([m["xyz"], om["xyz"]]), time=m["time"], L=m["L"], A=m["A"],
                          ids=m["ids"] + [10000 + 100 * step + i for i in om["ids"]])
                strict, exact = False, True
                check_memory(ctx, out, o, "stack(other)", False)
            elif op in ("atom_slice", "atom_slice_inplace"):
                if sym and na % 2 == 0:
                    npair = na // 2
                    keep = np.where(rng.random(npair) < 0.7)[0]
                    if len(keep) < 2:
                        keep = np.arange(min(2, npair))
                    idx = np.sort(np.concatenate([2 * keep, 2 * keep + 1]))
                else:
                    idx = np.where(rng.random(na) < 0.7)[0]
                    if len(idx) < 3:
                        idx = np.arange(min(3, na))
                inplace = op == "atom_slice_inplace"
                out = t.atom_slice(idx, inplace=inplace)
                label = f"atom_slice(inplace={inplace})"
                if inplace and out is not t:
                    ctx.violation("model.fields", "atom_slice(inplace=True):does-not-return-self", "atom_slice(inplace=True) returned another object")
                m2 = dict(xyz=m["xyz"][:, idx], time=m["time"], L=m["L"], A=m["A"], ids=[m["ids"][i] for i in idx])
                strict, exact = True, True
                if inplace:
                    src = None
            elif op in ("center", "center_mw"):
                out = t.center_coordinates(mass_weighted=(op == "center_mw"))
                label = f"center_coordinates(mass_weighted={op == 'center_mw'})"
                if out is not t:
                    ctx.violation("model.fields", "center_coordinates:does-not-return-self", "center_coordinates returned another object")
                x = np.asarray(t.xyz, np.float64)
                scale = max(1.0, np.abs(m["xyz"]).max())
                if op == "center":
                    ok = np.abs(x.mean(axis=1)).max() < 1e-5 * scale
                else:
                    masses = np.array([a.element.mass for a in t.topology.atoms])
                    ok = np.abs((x * masses[None, :, None]).sum(1) / masses.sum()).max() < 1e-5 * scale
                rel = np.abs((x - x[:, :1]) - (m["xyz"].astype(np.float64) - m["xyz"][:, :1].astype(np.float64))).max() < 1e-5 * scale
                ctx.check(bool(ok and rel), "center.postcondition", f"{label}:not-centred-or-distorted", f"{label}: centroid not at origin or relative positions changed")
                m2 = dict(m, xyz=np.array(t.xyz, copy=True))
                strict, exact, src = False, True, None
                hist["centered_once"] = True
                hist["since_center"] = []
            elif op == "superpose":
                ref, _ = make(rng, 2, na, False, top=t.topology, ids=m["ids"], sym=sym and na % 2 == 0)
                if rng.random() < 0.7:  # a reference away from the origin: superpose moves every frame to ITS centroid
                    ref.xyz = (ref.xyz + rng.uniform(-3, 3, (1, 1, 3))).astype(np.float32)
                before = np.array(t.xyz, copy=True)
                out = t.superpose(ref, frame=int(rng.integers(0, 2)))
                label = "superpose"
                d0 = np.linalg.norm(before[:, 1:] - before[:, :-1], axis=-1)
                d1 = np.linalg.norm(t.xyz[:, 1:] - t.xyz[:, :-1], axis=-1)
                ctx.check(bool(np.abs(d0 - d1).max() < 1e-4 * max(1.0, np.abs(before).max())), "superpose.rigid", "superpose:not-rigid",
                          "superpose changed interatomic distances")
                m2 = dict(m, xyz=np.array(t.xyz, copy=True))
                strict, exact, src = False, True, None
            elif op == "remove_solvent":
                inplace = bool(rng.random() < 0.3)
                keep = [a.index for a in t.topology.atoms if a.residue.name != "HOH"]
                if len(keep) < 4 or len(keep) == na:
                    continue
                out = t.remove_solvent(inplace=inplace)
                label = f"remove_solvent(inplace={inplace})"
                m2 = dict(xyz=m["xyz"][:, keep], time=m["time"], L=m["L"], A=m["A"], ids=[m["ids"][i] for i in keep])
                strict, exact = True, True
                if inplace:
                    src = None
            elif op == "set_xyz":
                new = gen_xyz(rng, nf, na, sym and na % 2 == 0)
                t.xyz = new.copy()
                out, m2 = t, dict(m, xyz=new)
                strict, exact, src = False, True, None
                label = "xyz="
            elif op == "set_time":
                new = np.cumsum(rng.uniform(0.1, 1, nf)).astype(np.float32)
                t.time = new.copy()
                out, m2 = t, dict(m, time=new)
                strict, exact, src = False, True, None
                label = "time="
            elif op == "set_cell":
                if rng.random() < 0.25:
                    t.unitcell_vectors = None
                    out, m2 = t, dict(m, L=None, A=None)
                    label = "unitcell_vectors=None"
                else:
                    L = rng.uniform(3, 7, (nf, 3)).astype(np.float32)
                    A = np.full((nf, 3), 90.0, np.float32)
                    t.unitcell_lengths = L.copy()
                    t.unitcell_angles = A.copy()
                    out, m2 = t, dict(m, L=L, A=A)
                    label = "unitcell_lengths/angles="
                strict, exact, src = False, True, None
            else:  # obs_rmsd
                hist["ops"].append("obs_rmsd")
                observe_rmsd(ctx, t, m, hist)
                check_fields(ctx, t, m, "rmsd(precentered=True)", exact=True)
                continue
        except Exception as e:
            ctx.violation("op.raises", f"{label}:raises:{type(e).__name__}", f"{label} raised {e!r} after {hist['ops']}")
            return
        hist["ops"].append(label)
        if not label.endswith("="):  # assignments of time / cell cannot invalidate traces; xyz= is recorded
            hist["since_center"].append(label)
        elif label == "xyz=":
            hist["since_center"].append(label)
        ctx.observe("op", label)
        if not check_fields(ctx, out, m2, label, exact=exact):
            return
        if src is not None and out is not src:
            if op == "slice_nocopy":
                ctx.skip("memory.xyz", "slice(copy=False) shares data by documented design")
            else:
                check_memory(ctx, out, src, label, strict)
            # the source must be untouched by a non-inplace operation
            if not check_fields(ctx, src, m, label + ":source", exact=True):
                return
        t, m = out, m2
        if rng.random() < 0.35:
            hist["ops"].append("obs_rmsd")
            observe_rmsd(ctx, t, m, hist)
        if rng.random() < 0.3:
            hist["ops"].append("obs_reference")
            observe_as_reference(ctx, t, m, hist)
    observe_rmsd(ctx, t, m, hist)
    observe_as_reference(ctx, t, m, hist)


def _index(m, sel):
    sel = list(sel)
    return dict(xyz=m["xyz"][sel], time=m["time"][sel], L=None if m["L"] is None else m["L"][sel],
                A=None if m["A"] is None else m["A"][sel], ids=m["ids"])


# ------------------------------------------------------------------------------------------------ input immutability
def _digest(t):
    h = {}
    for nm in ("xyz", "time", "unitcell_lengths", "unitcell_angles", "unitcell_vectors", "unitcell_volumes"):
        a = getattr(t, nm)
        h[nm] = None if a is None else hashlib.sha256(np.ascontiguousarray(a).tobytes() + str(a.shape).encode() + str(a.dtype).encode()).hexdigest()
    top = t.topology
    h["topology"] = hashlib.sha256(repr([(a.name, a.element.symbol, a.residue.name, a.residue.index, a.residue.resSeq, a.residue.chain.index)
                                         for a in top.atoms] + sorted((b[0].index, b[1].index) for b in top.bonds)).encode()).hexdigest()
    return h


def _protein(rng, variant):
    import mdtraj as md
    repo = os.environ.get("VERIF_REPO", "/repo")
    t = md.load(os.path.join(repo, "tests/data/2EQQ.pdb"))[: 6 + variant]
    t.xyz = (t.xyz + rng.normal(scale=0.002, size=t.xyz.shape)).astype(np.float32)
    t.unitcell_lengths = np.full((t.n_frames, 3), 8.0, np.float32)
    # odd variants: a skewed cell whose standard vectors are NOT in reduced form (c_y > b_y/2), so code that reduces a box
    # has something to change
    t.unitcell_angles = np.tile(np.array([[50.0, 65.0, 75.0]], np.float32) if variant % 2 else np.array([[90.0, 90.0, 90.0]], np.float32), (t.n_frames, 1))
    t.time = np.arange(t.n_frames, dtype=np.float32) * 2
    return t


def _fns():
    import mdtraj as md
    ca = lambda t: t.topology.select("name CA")
    pairs = lambda t: np.array([[0, 5], [3, 40], [7, 100]])
    F = {}
    F["compute_distances"] = (lambda t: md.compute_distances(t, pairs(t)), ())
    F["compute_distances(opt=False)"] = (lambda t: md.compute_distances(t, pairs(t), opt=False), ())
    F["compute_displacements(opt=False)"] = (lambda t: md.compute_displacements(t, pairs(t), opt=False), ())
    F["compute_angles(opt=False)"] = (lambda t: md.compute_angles(t, np.array([[0, 1, 2], [5, 9, 30]]), opt=False), ())
    F["compute_dihedrals(opt=False)"] = (lambda t: md.compute_dihedrals(t, np.array([[0, 1, 2, 3], [5, 9, 30, 60]]), opt=False), ())
    F["compute_displacements"] = (lambda t: md.compute_displacements(t, pairs(t)), ())
    F["compute_angles"] = (lambda t: md.compute_angles(t, np.array([[0, 1, 2], [5, 9, 30]])), ())
    F["compute_dihedrals"] = (lambda t: md.compute_dihedrals(t, np.array([[0, 1, 2, 3], [5, 9, 30, 60]])), ())
    F["compute_phi"] = (lambda t: md.compute_phi(t), ())
    F["compute_psi"] = (lambda t: md.compute_psi(t), ())
    F["compute_chi1"] = (lambda t: md.compute_chi1(t), ())
    F["compute_omega"] = (lambda t: md.compute_omega(t), ())
    F["compute_rg"] = (lambda t: md.compute_rg(t), ())
    F["compute_center_of_mass"] = (lambda t: md.compute_center_of_mass(t), ())
    F["compute_center_of_geometry"] = (lambda t: md.compute_center_of_geometry(t), ())
    F["compute_gyration_tensor"] = (lambda t: md.compute_gyration_tensor(t), ())
    F["compute_inertia_tensor"] = (lambda t: md.compute_inertia_tensor(t), ())
    F["principal_moments"] = (lambda t: md.principal_moments(t), ())
    F["asphericity"] = (lambda t: md.asphericity(t), ())
    F["compute_contacts(closest-heavy)"] = (lambda t: md.compute_contacts(t, [[0, 5], [2, 9]]), ())
    F["compute_contacts(ca)"] = (lambda t: md.compute_contacts(t, "all", scheme="ca"), ())
    F["compute_neighbors"] = (lambda t: md.compute_neighbors(t, 0.5, ca(t)[:5]), ())
    F["compute_neighborlist"] = (lambda t: md.compute_neighborlist(t, 0.4), ())
    F["shrake_rupley"] = (lambda t: md.shrake_rupley(t[:2], n_sphere_points=30), ())
    F["shrake_rupley(residue)"] = (lambda t: md.shrake_rupley(t[:2], n_sphere_points=30, mode="residue"), ())
    F["compute_dssp"] = (lambda t: md.compute_dssp(t), ())
    F["kabsch_sander"] = (lambda t: md.kabsch_sander(t), ())
    F["baker_hubbard"] = (lambda t: md.baker_hubbard(t), ())
    F["wernet_nilsson"] = (lambda t: md.wernet_nilsson(t), ())
    F["compute_drid"] = (lambda t: md.compute_drid(t, atom_indices=ca(t)), ())
    F["density"] = (lambda t: md.density(t), ())
    F["compute_rdf"] = (lambda t: md.compute_rdf(t, pairs(t), r_range=(0, 1)), ())
    F["find_closest_contact"] = (lambda t: md.find_closest_contact(t, [0, 1, 2], [50, 51]), ())
    F["unitcell_volumes"] = (lambda t: t.unitcell_volumes, ())
    F["unitcell_vectors"] = (lambda t: np.array(t.unitcell_vectors, copy=True), ())
    F["hash"] = (lambda t: hash(t), ())
    F["getitem"] = (lambda t: t[::2], ())
    F["atom_slice"] = (lambda t: t.atom_slice(ca(t)), ())
    F["join"] = (lambda t: t.join(t[:2]), ())
    F["stack"] = (lambda t: t.stack(t.atom_slice([0, 1, 2])), ())
    F["remove_solvent"] = (lambda t: t.remove_solvent(), ())
    F["image_molecules(inplace=False)"] = (lambda t: t.image_molecules(inplace=False), ())
    F["make_molecules_whole(inplace=False)"] = (lambda t: t.make_molecules_whole(inplace=False), ())
    F["smooth(inplace=False)"] = (lambda t: t.smooth(3, inplace=False), ())
    F["to_dataframe"] = (lambda t: t.topology.to_dataframe(), ())
    F["select"] = (lambda t: t.topology.select("protein and name CA"), ())
    F["rmsd(ref=input)"] = (lambda t: md.rmsd(_fresh(t), t, 0), ("xyz",))  # reference is centred in place? only target documented
    F["rmsd(target=input)"] = (lambda t: md.rmsd(t, _fresh(t), 0), ("xyz",))
    F["rmsd(atom_indices)"] = (lambda t: md.rmsd(t, _fresh(t), 0, atom_indices=ca(t)), ("xyz",))
    F["rmsf"] = (lambda t: md.rmsf(t, _fresh(t), 0), ("xyz",))
    F["superpose(ref=input)"] = (lambda t: _fresh(t).superpose(t, 0), ())
    F["lprmsd"] = (lambda t: md.lprmsd(t, _fresh(t), 0, atom_indices=ca(t)), ("xyz",))
    for ext in ("h5", "xtc", "trr", "dcd", "nc", "pdb", "gro", "xyz", "lammpstrj", "mdcrd", "pdb.gz"):
        F[f"save({ext})"] = ((lambda e: (lambda t: t.save(os.path.join(tempfile.mkdtemp(dir=_TMP), "x." + e))))(ext), ())
    return F


def _fresh(t):
    import mdtraj as md
    return md.Trajectory(np.array(t.xyz, copy=True), t.topology.copy(), time=t.time.copy(), unitcell_lengths=t.unitcell_lengths.copy(),
                         unitcell_angles=t.unitcell_angles.copy())


IMMUTABLE_NAMES = ["compute_distances", "compute_distances(opt=False)", "compute_displacements(opt=False)", "compute_angles(opt=False)",
                   "compute_dihedrals(opt=False)", "compute_displacements", "compute_angles", "compute_dihedrals",
                   "compute_phi", "compute_psi", "compute_chi1", "compute_omega", "compute_rg", "compute_center_of_mass",
                   "compute_center_of_geometry", "compute_gyration_tensor", "compute_inertia_tensor", "principal_moments", "asphericity",
                   "compute_contacts(closest-heavy)", "compute_contacts(ca)", "compute_neighbors", "compute_neighborlist", "shrake_rupley",
                   "shrake_rupley(residue)", "compute_dssp", "kabsch_sander", "baker_hubbard", "wernet_nilsson", "compute_drid", "density",
                   "compute_rdf", "find_closest_contact", "unitcell_volumes", "unitcell_vectors", "hash", "getitem", "atom_slice", "join", "stack",
                   "remove_solvent", "image_molecules(inplace=False)", "make_molecules_whole(inplace=False)", "smooth(inplace=False)",
                   "to_dataframe", "select", "rmsd(ref=input)", "rmsd(target=input)", "rmsd(atom_indices)", "rmsf", "superpose(ref=input)",
                   "lprmsd"] + [f"save({e})" for e in ("h5", "xtc", "trr", "dcd", "nc", "pdb", "gro", "xyz", "lammpstrj", "mdcrd", "pdb.gz")]


IN_PLACE_DOCUMENTED = {"rmsd(ref=input)", "rmsd(target=input)", "rmsd(atom_indices)", "rmsf", "lprmsd"}


def _canon(x, h):
    import mdtraj as md
    if x is None:
        h.update(b"None")
    elif isinstance(x, md.Trajectory):
        for nm in ("xyz", "time", "unitcell_lengths", "unitcell_angles"):
            _canon(getattr(x, nm), h)
        h.update(repr([(a.name, a.residue.name, a.residue.index) for a in x.topology.atoms]).encode())
    elif isinstance(x, np.ndarray):
        h.update(str(x.shape).encode() + str(x.dtype).encode() + np.ascontiguousarray(x).tobytes())
    elif hasattr(x, "toarray"):
        _canon(x.toarray(), h)
    elif isinstance(x, (list, tuple)):
        h.update(b"[%d" % len(x))
        for y in x:
            _canon(y, h)
    elif hasattr(x, "to_numpy"):
        h.update(x.to_csv().encode())
    else:
        h.update(repr(x).encode())


def _result_digest(name, t):
    """digest of what the function name returns (for save(ext): of what the written file loads back as)"""
    import mdtraj as md
    h = hashlib.sha256()
    if name.startswith("save("):
        ext = name[5:-1]
        d = tempfile.mkdtemp(dir=_TMP)
        path = os.path.join(d, "x." + ext)
        t.save(path)
        from vlib.gen import files as vfiles
        kw = {} if vfiles.FORMATS[ext]["self_top"] else {"top": t.topology}
        _canon(md.load(path, **kw), h)
    else:
        _canon(_fns()[name][0](t), h)
    return h.hexdigest()


def run_pair(case, ctx):
    """g(t) after f(t) on the very same objects must equal g on a pristine copy: an analysis call must not leave anything
    behind (caches on the trajectory / topology, arrays handed out and later mutated) that changes later results."""
    rng = common.rng_for("C03p", case["seed"])
    t = _protein(rng, case["variant"])
    pristine = _fresh(t)
    f, g = case["f"], case["g"]
    try:
        ref = _result_digest(g, pristine)
    except Exception as e:
        ctx.skip("immutable.observational", f"{g} raised {type(e).__name__} on the probe trajectory")
        return
    try:
        _fns()[f][0](t) if not f.startswith("save(") else _result_digest(f, t)
    except Exception as e:
        ctx.skip("immutable.observational", f"{f} raised {type(e).__name__} on the probe trajectory")
        return
    try:
        got = _result_digest(g, t)
    except Exception as e:
        ctx.violation("immutable.observational", f"{f}:breaks-later-call-of:{g}", f"after {f}(t), {g}(t) raises {type(e).__name__}: {e} (it works on a pristine copy)")
        return
    ctx.observe("pair_first", f)
    if got != ref:
        ctx.violation("immutable.observational", f"{f}:changes-later-result-of:{g}",
                      f"{g}(t) after {f}(t) differs from {g} on a pristine copy of t (cell variant {'skewed-unreduced' if case['variant'] % 2 else 'orthorhombic'})")
    else:
        ctx.ok("immutable.observational")


def _mutate_topology(top, mutation, seed):
    """deterministic in-place edit through public attributes / API; identical on equal topologies"""
    from mdtraj.core import element as E
    rng = common.rng_for("C03mutation", seed)
    atoms = list(top.atoms)
    if mutation == "rename_atoms":
        swap = {"CA": "CX", "CG1": "CG2", "CG2": "CG1", "OG1": "OGx", "N": "Nx", "O": "Ox", "H": "HN", "CB": "CBx"}
        for res in top.residues:
            if rng.random() < 0.35:
                for a in res.atoms:
                    if a.name in swap and rng.random() < 0.6:
                        a.name = swap[a.name]
    elif mutation == "rename_residues":
        for res in top.residues:
            if rng.random() < 0.3:
                res.name = {"ALA": "GLY", "GLY": "ALA", "LYS": "NLE", "HOH": "SOL", "PRO": "ALA"}.get(res.name, "PRO" if rng.random() < 0.3 else "UNK")
    elif mutation == "change_elements":
        for a in atoms:
            if rng.random() < 0.15:
                a.element = {"C": E.sulfur, "N": E.oxygen, "O": E.nitrogen, "H": E.carbon, "S": E.carbon}.get(a.element.symbol, E.carbon)
    elif mutation == "add_bonds":
        for _ in range(12):
            i, j = (int(x) for x in rng.integers(0, len(atoms), 2))
            if i != j:
                top.add_bond(atoms[i], atoms[j])


def run_mutate(case, ctx):
    rng = common.rng_for("C03m", case["seed"])
    t = _protein(rng, case["variant"])
    pristine = _fresh(t)
    g, mu = case["g"], case["mutation"]
    _mutate_topology(pristine.topology, mu, case["seed"])  # edited before anything ever looked at it
    try:
        ref = _result_digest(g, pristine)
        ref_err = None
    except Exception as e:
        ref, ref_err = None, type(e).__name__
    try:
        _result_digest(g, t)  # first call: whatever gets remembered is remembered now
    except Exception as e:
        ctx.skip("immutable.topology-edit", f"{g} raised {type(e).__name__} on the probe trajectory")
        return
    _mutate_topology(t.topology, mu, case["seed"])
    try:
        got, got_err = _result_digest(g, t), None
    except Exception as e:
        got, got_err = None, type(e).__name__
    ctx.observe("topology_edit", mu)
    if (got, got_err) != (ref, ref_err):
        ctx.violation("immutable.topology-edit", f"{g}:result-after-in-place-{mu}-differs-from-fresh-topology",
                      f"{g}(t) after an in-place {mu} of t.topology ({'raises ' + got_err if got_err else 'value'}) differs from {g} on a trajectory whose "
                      f"topology was edited the same way before its first use ({'raises ' + ref_err if ref_err else 'value'})")
    else:
        ctx.ok("immutable.topology-edit")


def run_immutable(case, ctx):
    rng = common.rng_for("C03i", case["seed"])
    t = _protein(rng, case["variant"])
    fn, exempt = _fns()[case["fn"]]
    before = _digest(t)
    try:
        fn(t)
    except Exception as e:
        ctx.skip("immutable.input", f"{case['fn']} raised {type(e).__name__} on the probe trajectory")
        return
    after = _digest(t)
    changed = [k for k in before if before[k] != after[k] and k not in exempt]
    ctx.observe("function", case["fn"])
    if changed:
        ctx.violation("immutable.input", f"{case['fn']}:modifies-input:{'+'.join(changed)}",
                      f"{case['fn']} changed its input trajectory's {changed} (documented in-place fields: {list(exempt)})")
    else:
        ctx.ok("immutable.input")
