"""C19 — incremental writing equals one-shot writing and survives a crash.   (level: fault_enumeration)

Monitors
(a) compositions: every ordered partition of n <= 6 frames (2^(n-1) each) is written through ONE handle per
    streaming format; after close, md.load must give bit-for-bit the arrays of the one-shot file (xyz, time, cell).
    HDF5 additionally through append mode across two opens.
(b) ragged refusal: at every position of a composition one invalid write is injected (atom count +-1, cell added /
    dropped, time added / dropped).  If it raises: after close the file must load with exactly the frames accepted
    (before and after).  If it does not raise, it is a violation only when the resulting file is inconsistent (does
    not load, or does not hold exactly accepted-before + this + accepted-after frames): a format that stores e.g. a
    default box for every frame is not made ragged by an omitted box, and is recorded as skip.
(c) crash points (fault injection): for h5, nc, xtc, dcd a writer child executes write(c1); flush; write(c2); flush ...
    announcing each point "k-th write(+flush where offered) returned" on a pipe and blocking.  At every announced point
    the parent snapshots the file bytes while the writer is blocked (the kernel-visible state = what survives an abrupt
    death at that point: user-space buffers are lost either way) and at the case's kill point sends SIGKILL and uses the
    real file.  Every snapshot / killed file must load with exactly the frames written so far, bit-for-bit equal to the
    one-shot reference.  DCD offers no flush(): its points are "write returned" (reporters flush only if offered).
Level: fault_enumeration — crash points k <= 5 writes x 3 chunk patterns x {cell, no cell} are enumerated completely.

Round-5 widening (same oracles: bit-for-bit equality with the one-shot file): input classes of write() the original cases never
pass -- a single frame given with the frame axis dropped (2-d coordinates, scalar time, 1-d cell: how a simulation reporter
calls write), float64 / non-contiguous / Fortran-ordered arrays, triclinic cells whose angles change per frame, frames larger
than any stdio / HDF5 / netCDF buffer (700 atoms), the writers' further options (HDF5 velocities / energies / temperature /
lambda, XTC/TRR step and lambda, XYZ / LAMMPS types, GRO precision, PDB bfactors) given at every call and compared through
the file object's read() or the file text, opening in 'w' mode over an existing longer file, ragged writes that add or drop an
optional HDF5 field, and crash points of a writer that writes reporter-style single frames / large frames / optional fields."""
from __future__ import annotations

import atexit
import itertools
import os
import shutil
import signal
import subprocess
import sys
import tempfile

import numpy as np

from vlib.gen import common, files

PROPERTY = "C19"
LEVEL = "fault_enumeration"
NATIVE = ["mdtraj.formats.xtc", "mdtraj.formats.trr", "mdtraj.formats.dcd", "mdtraj.formats.dtr"]
RULE = ("cases: (a) all ordered partitions of n<=6 frames per format x {cell,no cell} x {time,no time}; (b) one invalid write "
        "injected at each position of sampled compositions; (c) every crash point of writer children for h5/nc/xtc/dcd. "
        "round-5: (a) also with single frames given without frame axis / float64 / non-contiguous / Fortran-ordered arrays, triclinic per-frame cells, 700-atom frames, the writers' further options, mode 'w' over an existing longer file; (b) also an optional HDF5 field added / dropped; (c) also reporter-style, large-frame and optional-field writers. non-trivial = the file was loaded back and compared with the one-shot reference; distinct = distinct descriptors")
WORKERS = {"quick": 8, "thorough": 16}
BUDGET = {"quick": 90, "thorough": 1500}
FLOORS = {"quick": {"compose": 400, "ragged.refused-and-intact": 100, "crash.frames-survive": 60, "compose.options": 15}}
EXHAUSTIVE = {"quick": False, "thorough": True}
ASSUMPTIONS = ["crash = abrupt death of the writing process (SIGKILL); the page cache survives; power loss is out of scope",
               "a snapshot of the file taken while the writer is blocked at an announced point equals the state an abrupt "
               "death at that point leaves behind; validated by one real SIGKILL per writer child"]

STREAM = ["h5", "nc", "dcd", "xtc", "trr", "mdcrd", "xyz", "lammpstrj", "gro", "pdb", "dtr"]
CRASH = ["h5", "nc", "xtc", "dcd"]
NA = 12
_TMP = None


def worker_init(tier, seed):
    global _TMP
    _TMP = tempfile.mkdtemp(prefix="c19-", dir="/var/tmp")
    atexit.register(shutil.rmtree, _TMP, True)


def partitions(n):
    for bits in itertools.product([0, 1], repeat=n - 1):
        parts, cur = [], 1
        for b in bits:
            if b:
                parts.append(cur)
                cur = 1
            else:
                cur += 1
        parts.append(cur)
        yield parts


def variants(fmt):
    """(cell, time) combinations the streaming writer of this format can take"""
    cells = {"xyz": [False], "lammpstrj": [True]}.get(fmt, [True, False])
    times = [True, False] if fmt in ("h5", "nc", "xtc", "trr", "gro", "dtr") else [False]
    if fmt == "dtr":
        return [(True, True)]
    return [(c, t) for c in cells for t in times]


ASAN_EVERY = {"quick": 0, "thorough": 4}
GROUPS = {"thorough": [dict(name="asan", flavour="asan", workers=3)]}


def gen_cases(tier, seed):
    return common.with_asan_slice(_gen_cases(tier, seed), ASAN_EVERY[tier])


def _gen_cases(tier, seed):
    i = 0
    nmax = 6 if tier == "thorough" else 5
    for fmt in STREAM:
        for cell, time in variants(fmt):
            for n in range(1, nmax + 1):
                for parts in partitions(n):
                    if tier == "quick" and n >= 4 and (i * 7 + seed) % 3 != 0:
                        i += 1
                        continue
                    yield dict(i=i, kind="compose", fmt=fmt, cell=cell, time=time, parts=parts)
                    i += 1
    # long sessions: hundreds of frames through one handle, in many small writes and in writes larger than any internal
    # chunk / buffer / frames-per-file setting
    longs = [[1] * 130, [100, 1, 100], [64] * 5, [257], [1, 255, 1], [33, 67, 29, 101]]
    for k, fmt in enumerate(STREAM):
        vs = variants(fmt)
        for parts in (longs if tier == "thorough" else [longs[(k + seed) % len(longs)], longs[(k + seed + 3) % len(longs)]]):
            if fmt in ("pdb", "gro") and sum(parts) > 200:
                parts = [max(1, p // 2) for p in parts]
            cell, time = vs[(k + len(parts)) % len(vs)]
            yield dict(i=i, kind="compose", fmt=fmt, cell=cell, time=time, parts=parts)
            i += 1
    for k in range(3):
        yield dict(i=i, kind="temp-path", fmt="dtr", cell=True, time=True, parts=[1, 2], variant=k)
        i += 1
        yield dict(i=i, kind="temp-path", fmt="dcd", cell=True, time=False, parts=[1, 2], variant=k)
        i += 1
    # two writers of the same format open at the same time, writes interleaved: no state may be shared between handles
    for fmt in STREAM:
        for cell, time in variants(fmt)[:2]:
            for k, (pa, pb) in enumerate([([1, 2], [2, 1, 1]), ([3], [1, 1]), ([1, 1, 1], [2])]):
                yield dict(i=i, kind="compose2", fmt=fmt, cell=cell, time=time, parts=pa, parts2=pb)
                i += 1
    yield dict(i=i, kind="append", fmt="h5", cell=True, time=True, parts=[2, 1], parts2=[1, 2])
    i += 1
    yield dict(i=i, kind="append", fmt="h5", cell=False, time=False, parts=[1], parts2=[3])
    i += 1
    # ---- round-5: input classes of write() (module docstring)
    small = [[1, 1, 1], [2, 1], [1, 3, 1], [3], [1, 2, 2, 1]]
    for f, fmt in enumerate(STREAM):
        vs = variants(fmt)
        pick = small if tier == "thorough" else [small[(f + seed) % len(small)], small[(f + seed + 2) % len(small)]]
        for k, shape in enumerate(SHAPES):
            for parts in pick:
                cell, time = vs[(k + len(parts) + f) % len(vs)]
                yield dict(i=i, kind="compose", fmt=fmt, cell=cell, time=time, parts=parts, shape=shape)
                i += 1
        if fmt in OPT_FORMATS:
            for parts in pick:
                for shape in (None, "2d"):
                    cell, time = vs[(len(parts) + f) % len(vs)]
                    yield dict(i=i, kind="compose", fmt=fmt, cell=cell, time=time, parts=parts, opts=True, **({"shape": shape} if shape else {}))
                    i += 1
        if not files.FORMATS[fmt]["ortho_only"] and any(c for c, _ in vs):
            for parts in pick:
                cell, time = [v for v in vs if v[0]][len(parts) % len([v for v in vs if v[0]])]
                yield dict(i=i, kind="compose", fmt=fmt, cell=True, time=time, parts=parts, tric=True)
                i += 1
                yield dict(i=i, kind="compose", fmt=fmt, cell=True, time=time, parts=parts, tric="shear")
                i += 1
        for parts in pick[:1] if tier == "quick" else pick:
            cell, time = vs[(1 + f) % len(vs)]
            yield dict(i=i, kind="compose", fmt=fmt, cell=cell, time=time, parts=parts, na=700)
            i += 1
            yield dict(i=i, kind="compose", fmt=fmt, cell=cell, time=time, parts=parts, over=True)
            i += 1
    # ragged writes
    nr = 2000 if tier == "quick" else 6000
    # atoms=1: a shape numpy would broadcast; overflow: a coordinate beyond a text format's field width (refused by the
    # writers that check it — then the refusal must leave no partial frame behind; formats that can hold the value skip)
    bads = ["atoms+1", "atoms-1", "atoms=1", "cell-toggle", "time-toggle", "overflow", "overflow-huge"]
    for j in range(nr):
        rng = common.rng_for("C19r", seed, j)
        fmt = STREAM[j % len(STREAM)]
        vs = variants(fmt)
        cell, time = vs[int(rng.integers(len(vs)))]
        n = int(rng.integers(1, 6))
        allp = list(partitions(n))
        parts = allp[int(rng.integers(len(allp)))]
        c = dict(i=i, kind="ragged", fmt=fmt, cell=cell, time=time, parts=parts, pos=int(rng.integers(0, len(parts) + 1)),
                 bad=bads[(j // len(STREAM)) % len(bads)])
        if fmt == "h5" and c["pos"] > 0 and rng.random() < 0.5:
            c["reopen"] = True
        yield c
        i += 1
    # round-5: an optional field of the format added / dropped in mid-file (HDF5 velocities, energies, temperature, lambda)
    for j in range(120 if tier == "quick" else 600):
        rng = common.rng_for("C19rf", seed, j)
        n = int(rng.integers(1, 6))
        allp = list(partitions(n))
        parts = allp[int(rng.integers(len(allp)))]
        cell, time = variants("h5")[int(rng.integers(4))]
        c = dict(i=i, kind="ragged", fmt="h5", cell=cell, time=time, parts=parts, pos=int(rng.integers(1, len(parts) + 1)), bad="field-toggle", opts=bool(j % 2))
        if rng.random() < 0.4:
            c["reopen"] = True
        yield c
        i += 1
    # crash points: k <= 5 writes x 3 chunk patterns x cell; the kill point rotates with the seed
    pats = {"ones": [1, 1, 1, 1, 1], "grow": [1, 2, 3, 1, 2], "big": [4, 1, 3, 2, 1]}
    for fmt in CRASH:
        for cell in (True, False):
            for pname, parts in pats.items():
                kills = range(1, 6) if tier == "thorough" else sorted({1 + (seed + i) % 5, 1 + (seed + i + 2) % 5})
                for k in kills:
                    yield dict(i=i, kind="crash", fmt=fmt, cell=cell, time=fmt in ("h5", "nc", "xtc"), parts=parts, pattern=pname, kill_at=k)
                    i += 1
                    if fmt == "h5":
                        # live output appended to an existing file (mode 'a'): frames written by an earlier, closed session
                        yield dict(i=i, kind="crash", fmt=fmt, cell=cell, time=True, parts=parts, pattern=pname + "+append", kill_at=k, pre=[2, 1])
                        i += 1
    # round-5 crash points: the writer is called the way a simulation reporter calls it (one frame per call, frame axis dropped),
    # with frames larger than the I/O buffers, and with the optional HDF5 fields
    for f, fmt in enumerate(CRASH):
        for cell in (True, False):
            for cname, extra in (("reporter", dict(shape="2d", parts=[1, 1, 1, 1, 1])), ("large", dict(na=700, parts=[1, 2, 1, 1, 2])),
                                 ("large-reporter", dict(na=700, shape="2d", parts=[1, 1, 1, 1, 1])), ("options", dict(opts=True, parts=[1, 2, 3, 1, 2]))):
                if cname == "options" and fmt not in ("h5", "xtc"):
                    continue
                kills = range(1, 6) if tier == "thorough" else [1 + (seed + i) % 5]
                for k in kills:
                    yield dict(i=i, kind="crash", fmt=fmt, cell=cell, time=fmt in ("h5", "nc", "xtc"), pattern=cname, kill_at=k, **extra)
                    i += 1


# ------------------------------------------------------------------------------------------------ writer adapters
def native_arrays(t, fmt, cell, time):
    """keyword arguments of fileobj.write for a slice t of the identifying trajectory, in the file object's native units"""
    u = files.FORMATS["pdb" if fmt == "pdb" else fmt]["unit"]
    xyz = (t.xyz * np.float32(u)).astype(np.float32)
    L = (t.unitcell_lengths * u).astype(np.float32) if cell else None
    A = t.unitcell_angles.astype(np.float32) if cell else None
    tm = t.time.astype(np.float32) if time else None
    if fmt == "h5":
        return dict(coordinates=t.xyz, time=tm, cell_lengths=t.unitcell_lengths if cell else None, cell_angles=A)
    if fmt == "nc":
        return dict(coordinates=xyz, time=tm, cell_lengths=L, cell_angles=A)
    if fmt == "dcd":
        return dict(xyz=xyz, cell_lengths=L, cell_angles=A)
    if fmt in ("xtc", "trr"):
        return dict(xyz=t.xyz, time=tm, box=t.unitcell_vectors if cell else None)
    if fmt == "mdcrd":
        return dict(xyz=xyz, cell_lengths=L)
    if fmt == "xyz":
        return dict(xyz=xyz)
    if fmt == "lammpstrj":
        return dict(xyz=xyz, cell_lengths=L, cell_angles=A)
    if fmt == "dtr":
        return dict(xyz=xyz, cell_lengths=L, cell_angles=A, times=tm)
    raise KeyError(fmt)


OPT_FORMATS = ("h5", "xtc", "trr", "xyz", "lammpstrj", "gro", "pdb")   # writers with options beyond coordinates / time / cell
SHAPES = ("2d", "f64", "noncontig", "fortran")


def frame_ids(t):
    """index of each frame of the identifying trajectory (files.ident_traj: time = 2 f + (f % 3) / 2, so f = time // 2)"""
    return (np.asarray(t.time, np.float64) // 2.0).astype(int)


def option_arrays(t, fmt):
    """the writer's further per-frame options, as functions of the frame identity (so any partition must give the same file)"""
    f = frame_ids(t).astype(np.float32)
    na = t.n_atoms
    if fmt == "h5":
        return dict(velocities=(t.xyz * 0.5 + 1000.0).astype(np.float32), kineticEnergy=f * 2.0 + 7.0, potentialEnergy=-f * 3.0 - 11.0,
                    temperature=300.0 + f, alchemicalLambda=f / 64.0)
    if fmt == "xtc":
        return dict(step=(100 + 10 * f).astype(np.int32))
    if fmt == "trr":
        return dict(step=(100 + 10 * f).astype(np.int32), lambd=f / 64.0)
    if fmt == "xyz":
        return dict(types=[["C", "N", "O"][a % 3] for a in range(na)])
    if fmt == "lammpstrj":
        return dict(types=[1 + a % 3 for a in range(na)])
    return {}


def reshape_args(kw, shape):
    """the same data in another accepted input class"""
    out = {}
    for k, v in kw.items():
        if v is None or k == "types":
            out[k] = v
            continue
        v = np.asarray(v)
        if shape == "2d":
            out[k] = v[0]              # frame axis dropped: (n_atoms, 3) coordinates, scalar time, (3,) cell ...
        elif shape == "f64":
            out[k] = v.astype(np.float64) if v.dtype.kind == "f" else v.astype(np.int64)
        elif shape == "noncontig":
            big = np.zeros(v.shape + (2,), v.dtype)
            big[..., 0] = v
            out[k] = big[..., 0]
        elif shape == "fortran":
            out[k] = np.asfortranarray(v)
        else:
            out[k] = v
    return out


def do_write(fh, fmt, t, cell, time, model0=0, shape=None, opts=False):
    if fmt == "gro":
        kw = dict(time=t.time if time else None, unitcell_vectors=t.unitcell_vectors if cell else None)
        if opts:
            kw["precision"] = 5
        if shape in ("f64", "noncontig", "fortran"):
            kw = dict(reshape_args({k: v for k, v in kw.items() if k != "precision"}, shape), **({"precision": 5} if opts else {}))
            fh.write(reshape_args(dict(x=t.xyz), shape)["x"], t.topology, **kw)
        else:
            fh.write(t.xyz, t.topology, **kw)   # (the GRO writer documents 3-d coordinates only)
    elif fmt == "pdb":
        for f in range(t.n_frames):
            pos = t.xyz[f] * 10.0
            if shape == "f64":
                pos = pos.astype(np.float64)
            elif shape in ("noncontig", "fortran"):
                pos = reshape_args(dict(x=pos), shape)["x"]
            kw = {}
            if opts:
                kw["bfactors"] = np.round(np.arange(t.n_atoms) * 0.25 + float(frame_ids(t)[f]), 2)
            fh.write(pos, t.topology, modelIndex=model0 + f,
                     unitcell_lengths=tuple(t.unitcell_lengths[f] * 10.0) if cell else None,
                     unitcell_angles=tuple(t.unitcell_angles[f]) if cell else None, **kw)
    else:
        kw = native_arrays(t, fmt, cell, time)
        if opts:
            kw.update(option_arrays(t, fmt))
        if shape == "2d":
            for f in range(t.n_frames):
                one = {k: (v if v is None or k == "types" else np.asarray(v)[f:f + 1]) for k, v in kw.items()}
                fh.write(**reshape_args(one, "2d"))
        elif shape:
            fh.write(**reshape_args(kw, shape))
        else:
            fh.write(**kw)


_KEEPALIVE = []


def open_w(path, fmt, top, mode="w"):
    import mdtraj as md
    # The DTR writer keeps a raw pointer into the path string it was given and opens the directory only at the first
    # write (known finding below): every path handed to md.open is therefore kept alive here, so that the ordinary
    # cases do not depend on Python's memory reuse.  The defect itself is probed by the dedicated "dtr-temp-path" cases.
    _KEEPALIVE.append(path)
    if len(_KEEPALIVE) > 5000:
        del _KEEPALIVE[:2500]
    fh = md.open(path, mode)
    if fmt == "h5" and mode == "w":
        fh.topology = top
    return fh


def traj_for(n, cell, na=NA, tric=False):
    return files.ident_traj(n, na, cell=tric if isinstance(tric, str) else ("tric" if tric else "ortho"))


def load_back(path, fmt, top):
    import mdtraj as md
    return md.load(path, **files.load_kwargs(fmt, top))


def same(a, b, fmt, cell, time, ignore_default_time=False):
    """bit-for-bit comparison of two loaded trajectories; returns list of differing fields"""
    diff = []
    if ignore_default_time and not time and fmt in ("xtc", "trr"):
        # known mechanism (keyed once, in the composition monitor): without explicit times these writers number the
        # frames of every write() call from 0 again; do not let it cascade into the ragged / crash monitors
        a = a[:]
        a.time = b.time[:a.n_frames] if a.n_frames <= b.n_frames else a.time
    if a.xyz.shape != b.xyz.shape or not np.array_equal(a.xyz, b.xyz):
        diff.append(f"xyz {a.xyz.shape} vs {b.xyz.shape}")
    if not np.array_equal(a.time, b.time):
        diff.append("time")
    if (a.unitcell_lengths is None) != (b.unitcell_lengths is None):
        diff.append("cell presence")
    elif a.unitcell_lengths is not None and not (np.array_equal(a.unitcell_lengths, b.unitcell_lengths)
                                                 and np.array_equal(a.unitcell_angles, b.unitcell_angles)):
        diff.append("cell values")
    return diff


def write_parts(path, fmt, t, parts, cell, time, mode="w", start=0, shape=None, opts=False):
    fh = open_w(path, fmt, t.topology, mode)
    try:
        pos = start
        for p in parts:
            do_write(fh, fmt, t[pos:pos + p], cell, time, model0=pos, shape=shape, opts=opts)
            pos += p
    finally:
        fh.close()
    return pos


def run_case(case, ctx):
    fmt, cell, time, parts = case["fmt"], case["cell"], case["time"], case["parts"]
    ctx.observe("format", fmt)
    ctx.observe("kind", case["kind"])
    d = tempfile.mkdtemp(prefix="case-", dir=_TMP)
    try:
        if case["kind"] == "compose":
            _compose(case, ctx, d)
        elif case["kind"] == "append":
            _append(case, ctx, d)
        elif case["kind"] == "compose2":
            _compose2(case, ctx, d)
        elif case["kind"] == "temp-path":
            _temp_path(case, ctx, d)
        elif case["kind"] == "ragged":
            _ragged(case, ctx, d)
        else:
            _crash(case, ctx, d)
    finally:
        shutil.rmtree(d, ignore_errors=True)


def _ext(fmt):
    return fmt


def raw_payload(path, fmt, na):
    """what the writer's further options left in the file: arrays from the file object's read() (h5, xtc, trr) or the file text"""
    import mdtraj as md
    if fmt in ("h5", "xtc", "trr"):
        with md.open(path) as fh:
            res = fh.read()
        items = [(nm, getattr(res, nm)) for nm in res._fields] if hasattr(res, "_fields") else list(enumerate(res))
        return {str(k): (None if v is None else np.asarray(v)) for k, v in items}
    txt = open(path).read().split("\n")
    if fmt == "lammpstrj":
        # the TIMESTEP value is the frame's index within its write() call (the writer takes no time): not an input, not compared
        txt = ["<step>" if k and txt[k - 1] == "ITEM: TIMESTEP" else ln for k, ln in enumerate(txt)]
    return {"text": txt}


def same_payload(a, b):
    bad = []
    for k in a:
        x, y = a[k], b.get(k)
        if isinstance(x, list):
            if x != y:
                j = next((i for i, (p, q) in enumerate(zip(x, y)) if p != q), min(len(x), len(y)))
                bad.append(f"text differs from line {j}: {x[j] if j < len(x) else '<end>'!r} vs {y[j] if j < len(y) else '<end>'!r}")
        elif (x is None) != (y is None) or (x is not None and (x.shape != y.shape or not np.array_equal(x, y))):
            bad.append(f"field {k}")
    return bad


def _compose(case, ctx, d):
    fmt, cell, time, parts = case["fmt"], case["cell"], case["time"], case["parts"]
    shape, opts, na, tric = case.get("shape"), bool(case.get("opts")), case.get("na", NA), case.get("tric") or False
    n = sum(parts)
    t = traj_for(n, cell, na, tric)
    cls = ",".join(x for x in (f"shape={shape}" if shape else "", "options" if opts else "", ("shear" if tric == "shear" else "tric") if tric else "", f"atoms={na}" if na != NA else "") if x)
    if cls:
        ctx.observe("write_input_class", cls)
    one, inc = os.path.join(d, f"one.{fmt}"), os.path.join(d, f"inc.{fmt}")
    try:
        write_parts(one, fmt, t, [n], cell, time, opts=opts)
    except Exception as e:
        ctx.skip("compose", f"{fmt}: one-shot write refused (cell={cell}, time={time}{', ' + cls if cls else ''}): {type(e).__name__}")
        return
    ref = load_back(one, fmt, t.topology)
    if ref.n_frames != n:
        ctx.skip("compose", f"{fmt}: one-shot file does not load with the frames written (C01's subject)")
        return
    if case.get("over"):
        # the target already exists and holds MORE frames: mode 'w' must replace it, not write into it
        ctx.observe("overwrite_existing_longer_file", fmt)
        try:
            write_parts(inc, fmt, files.ident_traj(n + 4, na, cell=(tric if isinstance(tric, str) else "tric") if tric else "ortho", f0=20), [n + 4], cell, time)
        except Exception as e:
            ctx.skip("compose", f"{fmt}: could not prepare the file to be overwritten: {type(e).__name__}")
            return
    try:
        write_parts(inc, fmt, t, parts, cell, time, shape=shape, opts=opts)
        got = load_back(inc, fmt, t.topology)
    except Exception as e:
        if fmt == "xyz" and shape == "2d" and isinstance(e, IndexError):
            ctx.violation("compose", "xyz:single-frame-2d-coordinates:default-types-sized-before-the-frame-axis-is-added:IndexError-after-partial-frame",
                          f"xyz: write(xyz of shape (n_atoms, 3)) raised {e!r} after writing the count line, the comment and 3 atom lines")
            return
        if case.get("over") and fmt == "dtr":
            ctx.violation("compose", f"dtr:mode-w-over-existing-frameset:{type(e).__name__}", f"dtr: md.open(existing.dtr, 'w') + write failed: {e!r}")
            return
        ctx.violation("compose", f"{fmt}:incremental-write-fails:{type(e).__name__}[cell={cell},time={time}{',' + cls if cls else ''}]",
                      f"{fmt}: writing {n} frames as {parts} (cell={cell}, time={time}, {cls}) failed though the one-shot write works: {e!r}")
        return
    diff = same(got, ref, fmt, cell, time)
    ctx.observe("n_writes", len(parts))
    if diff == ["time"] and not time and fmt in ("xtc", "trr") and (len(parts) > 1 or shape == "2d"):
        exp_restart = np.concatenate([np.arange(p) for p in (parts if shape != "2d" else [1] * n)]).astype(got.time.dtype)
        if np.array_equal(got.time, exp_restart):
            ctx.violation("compose", f"{fmt}:no-explicit-time:default-times-restart-at-every-write",
                          f"{fmt}: without explicit times, {n} frames written as {parts} get times {got.time.tolist()} but {ref.time.tolist()} when written at once")
            return
    if diff:
        ctx.violation("compose", f"{fmt}:incremental!=one-shot:{'+'.join(x.split()[0] for x in diff)}[cell={cell},time={time}{',' + cls if cls else ''}]",
                      f"{fmt}: {n} frames written as {parts} (cell={cell}, time={time}, {cls}) load differently from the one-shot file: {diff}")
        return
    if opts:
        bad = same_payload(raw_payload(inc, fmt, na), raw_payload(one, fmt, na))
        if bad:
            ctx.violation("compose.options", f"{fmt}:write-options:incremental!=one-shot[{cls}]", f"{fmt}: {n} frames written as {parts} with the writer's further options: {bad[:3]}")
            return
        ctx.ok("compose.options")
    ctx.ok("compose")


TEMP_PATH_CHILD = r"""
import os, sys, json, gc
sys.path.insert(0, os.environ['VERIF_ROOT'])
from vlib import overlay; overlay.install()
import mdtraj as md
from vlib.props import c19
spec = json.loads(sys.argv[1])
t = c19.traj_for(sum(spec['parts']), spec['cell'])
# the path exists only as a temporary object during the call (lazily opening writers must not keep a pointer into it)
fh = md.open(os.path.join(spec['dir'], 'live') + '.' + spec['fmt'], 'w')
junk = [bytes([65 + (k % 26)]) * (len(spec['dir']) + 9 + (k % 3)) for k in range(2000)]   # reuse freed string storage
gc.collect()
pos = 0
for p in spec['parts']:
    c19.do_write(fh, spec['fmt'], t[pos:pos+p], spec['cell'], spec['time'], model0=pos)
    pos += p
fh.close()
print('DONE')
"""


def _temp_path(case, ctx, d):
    """lazily opening writers (dcd, dtr create the file at the first write) must still write to the path they were given,
    even when the caller's path object is gone by then.  Runs in a child whose cwd is a scratch directory."""
    import json
    fmt, cell, time, parts = case["fmt"], case["cell"], case["time"], case["parts"]
    t = traj_for(sum(parts), cell)
    one = os.path.join(d, f"one.{fmt}")
    write_parts(one, fmt, t, [t.n_frames], cell, time)
    ref = load_back(one, fmt, t.topology)
    cwd = os.path.join(d, "child-cwd")
    os.makedirs(cwd)
    env = dict(os.environ)
    env["VERIF_ROOT"] = os.path.dirname(os.path.dirname(os.path.dirname(os.path.abspath(__file__))))
    p = subprocess.run([sys.executable, "-u", "-c", TEMP_PATH_CHILD, json.dumps(dict(fmt=fmt, cell=cell, time=time, parts=parts, dir=d))],
                       cwd=cwd, env=env, stdout=subprocess.PIPE, stderr=subprocess.PIPE, text=True, timeout=600)
    target = os.path.join(d, f"live.{fmt}")
    litter = os.listdir(cwd)
    if "DONE" not in p.stdout:
        ctx.violation("temp-path", f"{fmt}:writer-keeps-pointer-into-callers-path-string", f"{fmt}: writing through md.open(<temporary path string>, 'w') failed: {p.stderr[-300:]}")
        return
    if not os.path.exists(target):
        ctx.violation("temp-path", f"{fmt}:writer-keeps-pointer-into-callers-path-string",
                      f"{fmt}: md.open(<temporary path string>, 'w') + write + close left nothing at the requested path; the working directory "
                      f"received {[x.encode('utf-8', 'surrogateescape')[:12] for x in litter][:3]}")
        return
    got = load_back(target, fmt, t.topology)
    diff = same(got, ref, fmt, cell, time, ignore_default_time=True)
    if diff or litter:
        ctx.violation("temp-path", f"{fmt}:temporary-path:differs-from-one-shot", f"{fmt}: file written through a temporary path string differs: {diff}; litter {len(litter)}")
    else:
        ctx.ok("temp-path")


def _compose2(case, ctx, d):
    fmt, cell, time = case["fmt"], case["cell"], case["time"]
    pa, pb = case["parts"], case["parts2"]
    ta = traj_for(sum(pa), cell)
    tb = files.ident_traj(sum(pb), NA, cell="ortho", f0=20)  # different frames (20, 21, ...) in the second file
    refs = []
    for nm, t in (("a", ta), ("b", tb)):
        one = os.path.join(d, f"one_{nm}.{fmt}")
        try:
            write_parts(one, fmt, t, [t.n_frames], cell, time)
        except Exception as e:
            ctx.skip("compose2", f"{fmt}: one-shot write refused: {type(e).__name__}")
            return
        refs.append(load_back(one, fmt, t.topology))
    pa_, pb_ = list(pa), list(pb)
    fa = open_w(os.path.join(d, f"inc_a.{fmt}"), fmt, ta.topology)
    fb = open_w(os.path.join(d, f"inc_b.{fmt}"), fmt, tb.topology)
    try:
        ia = ib = 0
        while pa_ or pb_:
            if pa_:
                p = pa_.pop(0)
                do_write(fa, fmt, ta[ia:ia + p], cell, time, model0=ia)
                ia += p
            if pb_:
                p = pb_.pop(0)
                do_write(fb, fmt, tb[ib:ib + p], cell, time, model0=ib)
                ib += p
    except Exception as e:
        ctx.violation("compose2", f"{fmt}:two-writers-interleaved:write-fails:{type(e).__name__}", f"{fmt}: interleaved writes through two handles failed: {e!r}")
        return
    finally:
        for fh in (fa, fb):
            try:
                fh.close()
            except Exception:
                pass
    for nm, t, ref in (("a", ta, refs[0]), ("b", tb, refs[1])):
        try:
            got = load_back(os.path.join(d, f"inc_{nm}.{fmt}"), fmt, t.topology)
        except Exception as e:
            ctx.violation("compose2", f"{fmt}:two-writers-interleaved:file-unloadable", f"{fmt}: file {nm} written through one of two interleaved handles does not load: {e!r}")
            continue
        diff = same(got, ref, fmt, cell, time, ignore_default_time=True)
        if diff:
            ctx.violation("compose2", f"{fmt}:two-writers-interleaved:differs-from-one-shot:{'+'.join(x.split()[0] for x in diff)}",
                          f"{fmt}: file {nm} written while another {fmt} writer was open differs from its one-shot file: {diff}")
        else:
            ctx.ok("compose2")


def _append(case, ctx, d):
    fmt, cell, time = case["fmt"], case["cell"], case["time"]
    p1, p2 = case["parts"], case["parts2"]
    n = sum(p1) + sum(p2)
    t = traj_for(n, cell)
    one, inc = os.path.join(d, "one.h5"), os.path.join(d, "inc.h5")
    write_parts(one, fmt, t, [n], cell, time)
    ref = load_back(one, fmt, t.topology)
    pos = write_parts(inc, fmt, t, p1, cell, time)
    write_parts(inc, fmt, t, p2, cell, time, mode="a", start=pos)
    got = load_back(inc, fmt, t.topology)
    diff = same(got, ref, fmt, cell, time)
    if diff:
        ctx.violation("append", f"h5:append-mode!=one-shot:{'+'.join(x.split()[0] for x in diff)}", f"h5 append across two opens {p1}+{p2}: {diff}")
    else:
        ctx.ok("append")


def _ragged(case, ctx, d):
    import mdtraj as md
    fmt, cell, time, parts, pos, bad = case["fmt"], case["cell"], case["time"], case["parts"], case["pos"], case["bad"]
    n = sum(parts)
    ctx.observe("bad_write", bad)
    t = traj_for(n + 1, cell)
    good_frames = t[:n]
    path = os.path.join(d, f"r.{fmt}")
    # the invalid write: one extra frame (index n) in a shape the file cannot hold consistently
    bt = t[n:n + 1]
    bcell, btime = cell, time
    if bad == "atoms+1":
        bt = files.ident_traj(1, NA + 1, cell="ortho", f0=n)
    elif bad == "atoms-1":
        bt = files.ident_traj(1, NA - 1, cell="ortho", f0=n)
    elif bad == "atoms=1":
        bt = files.ident_traj(1, 1, cell="ortho", f0=n)
    elif bad in ("overflow", "overflow-huge"):
        x = np.array(bt.xyz, copy=True)
        # 3e4 nm = 3e5 angstrom: beyond F8.3 in either unit; 2e7 nm = 2e8 angstrom: beyond even a width-8 field without decimals
        x[0, NA // 2, 1] = 3.0e4 if bad == "overflow" else 2.0e7
        bt = bt[:]
        bt.xyz = x
    elif bad == "cell-toggle":
        if (cell, time) not in variants(fmt) or (not cell, time) not in variants(fmt):
            ctx.skip("ragged", f"{fmt}: writer takes no optional cell")
            return
        bcell = not cell
    elif bad == "time-toggle":
        if (cell, not time) not in variants(fmt):
            ctx.skip("ragged", f"{fmt}: writer takes no optional time")
            return
        btime = not time
    opts = bool(case.get("opts"))
    bopts = opts
    if bad == "field-toggle":
        # an optional per-frame field of the format (HDF5: velocities, energies, temperature, lambda) added to / dropped from
        # a file whose earlier frames have / lack it
        bopts = not opts
        if pos == 0:
            ctx.skip("ragged", "first write defines the schema: nothing to be ragged against")
            return
    if pos == 0 and bad in ("cell-toggle", "time-toggle"):
        ctx.skip("ragged", "first write defines the schema: nothing to be ragged against")
        return
    if pos == 0 and bad.startswith("atoms"):
        ctx.skip("ragged", "first write defines the atom count")
        return
    fh = open_w(path, fmt, good_frames.topology)
    raised = None
    try:
        p0 = 0
        for k, p in enumerate(parts + [0]):
            if k == pos:
                if case.get("reopen"):
                    # the invalid write is the FIRST write of a new session appending to the file (h5 mode 'a')
                    fh.close()
                    fh = open_w(path, fmt, good_frames.topology, mode="a")
                    ctx.observe("ragged_session", "first write after reopening in append mode")
                try:
                    do_write(fh, fmt, bt, bcell, btime, model0=90, opts=bopts)
                except Exception as e:
                    raised = e
            if p:
                do_write(fh, fmt, good_frames[p0:p0 + p], cell, time, model0=p0, opts=opts)
                p0 += p
    except Exception as e:
        if raised is not None:
            ctx.violation("ragged.writer-usable-after-refusal", f"{fmt}:{bad}:writer-broken-after-refused-write:{type(e).__name__}",
                          f"{fmt}: after refusing a {bad} write the next valid write failed: {e!r}", parts=parts, pos=pos)
            return
        raise
    finally:
        try:
            fh.close()
        except Exception:
            pass
    ref_path = os.path.join(d, f"ref.{fmt}")
    write_parts(ref_path, fmt, good_frames, [n] if n else [], cell, time, opts=opts) if n else None
    if raised is not None:
        ctx.observe("refused", f"{fmt}:{bad}")
        if n == 0:
            ctx.ok("ragged.refused")
            return
        try:
            got = load_back(path, fmt, good_frames.topology)
        except Exception as e:
            ctx.violation("ragged.refused-and-intact", f"{fmt}:{bad}:file-unloadable-after-refused-write",
                          f"{fmt}: after a refused {bad} write (at position {pos} of {parts}) the file does not load: {e!r}")
            return
        ref = load_back(ref_path, fmt, good_frames.topology)
        diff = same(got, ref, fmt, cell, time, ignore_default_time=True)
        if diff:
            ctx.violation("ragged.refused-and-intact", f"{fmt}:{bad}:refused-write-left-traces:{'+'.join(x.split()[0] for x in diff)}",
                          f"{fmt}: a {bad} write was refused at position {pos} of {parts}, but the file then loads with {got.n_frames} frames "
                          f"instead of the {n} accepted ({diff})")
        else:
            ctx.ok("ragged.refused-and-intact")
        return
    # not refused: only a violation if the file is now inconsistent
    try:
        got = load_back(path, fmt, good_frames.topology if not bad.startswith("atoms") else good_frames.topology)
        consistent = got.n_frames == n + 1
    except Exception as e:
        got, consistent = None, False
    if bad.startswith("overflow"):
        ctx.skip("ragged.refused", f"{fmt}: a coordinate of 3e4 / 2e7 nm is accepted (fidelity of what was stored is C01's subject)")
    elif bad.startswith("atoms"):
        ctx.violation("ragged.refused", f"{fmt}:{bad}:atom-count-change-accepted",
                      f"{fmt}: a write with {bt.n_atoms} atoms into a file of {NA}-atom frames was accepted "
                      f"(file then {'loads with %d frames' % got.n_frames if got is not None else 'does not load'})", parts=parts, pos=pos)
    elif consistent and bad == "cell-toggle" and bcell and not _stored_cell(got, sum(parts[:pos]), bt):
        # the write ADDED cell information to a file whose earlier frames have none, was accepted, and the information is
        # not in the file: neither refused nor stored
        ctx.violation("ragged.refused", f"{fmt}:{bad}:added-cell-accepted-but-silently-dropped",
                      f"{fmt}: a write that adds a unit cell (position {pos} of {parts}, earlier frames without) was accepted, but the "
                      f"file loads {'without any cell' if got.unitcell_lengths is None else 'with another cell for that frame'}")
    elif consistent and bad == "cell-toggle" and not bcell and _cell_hole(got, sum(parts[:pos])):
        # the write DROPPED the cell in a file whose other frames have one and was accepted: that frame now loads with a
        # degenerate cell (zero lengths) among valid ones — a ragged file in all but name
        ctx.violation("ragged.refused", f"{fmt}:{bad}:dropped-cell-accepted:frames-with-and-without-cell-in-one-file",
                      f"{fmt}: a write without unit cell (position {pos} of {parts}, other frames with one) was accepted; the file loads "
                      f"with lengths {got.unitcell_lengths[sum(parts[:pos])].tolist()} for that frame among valid cells")
    elif not consistent:
        ctx.violation("ragged.refused", f"{fmt}:{bad}:ragged-write-accepted-file-inconsistent",
                      f"{fmt}: a {bad} write at position {pos} of {parts} was accepted and the file is now "
                      f"{'unloadable' if got is None else 'holding %d frames instead of %d' % (got.n_frames, n + 1)}")
    else:
        ctx.skip("ragged.refused", f"{fmt}: {bad} write accepted and file stays consistent (format stores a default for every frame)")


def _cell_hole(got, k):
    L = got.unitcell_lengths
    if L is None or k >= got.n_frames or got.n_frames < 2:
        return False
    others = np.delete(np.arange(got.n_frames), k)
    return bool(np.any(L[k] <= 0) and np.all(L[others] > 0))


def _stored_cell(got, k, bt):
    if got.unitcell_lengths is None or k >= got.n_frames:
        return False
    return bool(np.allclose(got.unitcell_lengths[k], bt.unitcell_lengths[0], rtol=1e-3, atol=1e-3)
                and np.allclose(got.unitcell_angles[k], bt.unitcell_angles[0], atol=1e-2))


CHILD = r"""
import os, sys, json, time
sys.path.insert(0, os.environ['VERIF_ROOT'])
from vlib import overlay; overlay.install()
import numpy as np
from vlib.props import c19
spec = json.loads(sys.argv[1])
pre = spec.get('pre') or []
t = c19.traj_for(sum(pre) + sum(spec['parts']), spec['cell'], spec.get('na', c19.NA))
shape, opts = spec.get('shape'), bool(spec.get('opts'))
pos = 0
if pre:
    pos = c19.write_parts(spec['path'], spec['fmt'], t, pre, spec['cell'], spec['time'], opts=opts)
    fh = c19.open_w(spec['path'], spec['fmt'], t.topology, 'a')
else:
    fh = c19.open_w(spec['path'], spec['fmt'], t.topology)
for k, p in enumerate(spec['parts'], 1):
    c19.do_write(fh, spec['fmt'], t[pos:pos+p], spec['cell'], spec['time'], model0=pos, shape=shape, opts=opts)
    pos += p
    if hasattr(fh, 'flush'):
        fh.flush()
        fl = 1
    else:
        fl = 0
    sys.stdout.write('POINT %d %d %d\n' % (k, pos, fl)); sys.stdout.flush()
    if sys.stdin.readline().strip() != 'go':
        time.sleep(3600)
fh.close()
sys.stdout.write('CLOSED\n'); sys.stdout.flush()
"""


def _crash(case, ctx, d):
    import json
    fmt, cell, time, parts, kill_at = case["fmt"], case["cell"], case["time"], case["parts"], case["kill_at"]
    pre = case.get("pre") or []
    shape, opts, na = case.get("shape"), bool(case.get("opts")), case.get("na", NA)
    n = sum(parts) + sum(pre)
    t = traj_for(n, cell, na)
    one = os.path.join(d, f"one.{fmt}")
    write_parts(one, fmt, t, [n], cell, time, opts=opts)
    ref = load_back(one, fmt, t.topology)
    ref_payload = raw_payload(one, fmt, na) if opts and fmt in ("h5", "xtc", "trr") else None
    path = os.path.join(d, f"live.{fmt}")
    env = dict(os.environ)
    env["VERIF_ROOT"] = os.path.dirname(os.path.dirname(os.path.dirname(os.path.abspath(__file__))))
    spec = dict(fmt=fmt, cell=cell, time=time, parts=parts, path=path, pre=pre, shape=shape, opts=opts, na=na)
    if shape or opts or na != NA:
        ctx.observe("crash_writer_class", ",".join(x for x in (f"shape={shape}" if shape else "", "options" if opts else "", f"atoms={na}" if na != NA else "") if x))
    ctx.observe("crash_open_mode", f"{fmt}:{'a' if pre else 'w'}")
    child = subprocess.Popen([sys.executable, "-u", "-c", CHILD, json.dumps(spec)], stdin=subprocess.PIPE, stdout=subprocess.PIPE,
                             stderr=subprocess.PIPE, text=True, env=env)
    snaps = []
    killed_at = None
    try:
        while True:
            line = child.stdout.readline()
            if not line:
                err = child.stderr.read()[-600:]
                ctx.violation("crash.child", f"{fmt}:writer-child-died", f"{fmt}: writer child ended unexpectedly: {err}")
                return
            if line.startswith("POINT"):
                _, k, pos, fl = line.split()
                k, pos, fl = int(k), int(pos), int(fl)
                ctx.observe("flush_offered", f"{fmt}:{bool(fl)}")
                if k == kill_at or k == len(parts):
                    os.kill(child.pid, signal.SIGKILL)
                    child.wait()
                    killed_at = (k, pos)
                    break
                snap = os.path.join(d, f"snap{k}.{fmt}")
                shutil.copyfile(path, snap)
                snaps.append((k, pos, snap))
                child.stdin.write("go\n")
                child.stdin.flush()
    finally:
        if child.poll() is None:
            child.kill()
            child.wait()
        for s in (child.stdin, child.stdout, child.stderr):
            try:
                s.close()
            except Exception:
                pass

    def judge(label, k, pos, fp):
        point = f"after write #{k}{'+flush' if fmt != 'dcd' else ''}"
        try:
            got = load_back(fp, fmt, t.topology)
        except Exception as e:
            ctx.violation("crash.frames-survive", f"{fmt}{'(append)' if pre else ''}:{label}:file-unloadable[cell={cell}]",
                          f"{fmt}: file {label} {point} ({pos} frames written, pattern {parts}) does not load: {e!r}")
            return
        exp = ref[:pos]
        diff = same(got, exp, fmt, cell, time, ignore_default_time=True)
        if diff:
            ctx.violation("crash.frames-survive", f"{fmt}{'(append)' if pre else ''}:{label}:frames-lost-or-altered[cell={cell}]",
                          f"{fmt}: file {label} {point} (mode {'a' if pre else 'w'}) loads with {got.n_frames} frames, {pos} were written and flushed ({diff})")
        else:
            if ref_payload is not None:
                # the optional fields must have survived to the same length as the coordinates
                gp = raw_payload(fp, fmt, na)
                short = [nm for nm, v in ref_payload.items() if v is not None and (gp.get(nm) is None or gp[nm].shape[0] != pos or not np.array_equal(gp[nm], v[:pos]))]
                if short:
                    ctx.violation("crash.frames-survive", f"{fmt}{'(append)' if pre else ''}:{label}:optional-fields-lost-or-altered[cell={cell}]",
                                  f"{fmt}: file {label} {point}: coordinates hold {pos} frames but the fields {short} do not")
                    return
            ctx.ok("crash.frames-survive")
            ctx.observe("crash_points_judged", f"{fmt}:{label}:write#{k}")

    for k, pos, snap in snaps:
        judge("snapshot-while-writer-blocked", k, pos, snap)
    if killed_at:
        judge("after-SIGKILL", killed_at[0], killed_at[1], path)
