"""C08 — per-frame results depend only on that frame, not on neighbours, threads or runs.

Monitors (all compare outputs of the REAL functions with each other; no reference model is needed):
 (i)   frame context:  f(t)[i]  vs  f(t[i])[0]  vs  f(t[perm])[perm^-1(i)] — bit-for-bit where the whole per-frame
       computation happens inside one native kernel call per frame (distances, displacements, angles, dihedrals, rmsd,
       sasa, dssp, kabsch_sander, neighbours, drid, hydrogen-bond criteria), within 8 ulp of the result type where numpy
       reductions over arrays of another shape are part of the path (superpose, rg, centres, tensors, contacts, lprmsd):
       numpy may legally block a reduction differently for another array shape.
 (ii)  team-size sweep + repetition: the same call on the same arrays with the OpenMP team size set in-process to
       1,2,3,5,8,16 and n_frames+3 (ctypes -> libgomp omp_set_num_threads) and repeated: bit-for-bit equal to the
       1-thread result, for every function.
 (iii) junk differential: the coordinates are a C-contiguous view into the middle of a larger buffer whose surroundings
       hold NaN / 1e30 / zeros / another structure; any difference means the result depends on memory outside its input.
 (iv)  environment sweep (thorough): child processes with OMP_NUM_THREADS in {1,2,3,5,8,16,64}, OMP_DYNAMIC, OMP_SCHEDULE.
 (v)   shim schedule evidence: the `shim` build flavour links the extensions against a pthread implementation of the four
       GOMP entry points that logs every parallel region (team size, arrival order) and injects seeded jitter; results
       must equal the plain 1-thread results bit-for-bit, and the evidence lists the regions/arrival orders observed.
 (vi)  ThreadSanitizer drivers: sasa.cpp, neighborlist.cpp and the RMSD kernels inside an `omp parallel for` of the same
       shape as the Cython prange loops are compiled -fsanitize=thread together with the shim (fork/join/barrier are
       pthread primitives TSan intercepts), run for several team sizes and seeds; any data-race report is a violation.
The Cython prange loops themselves are not race-checked (no instrumented interpreter): they rely on (ii) and (v).

Wider classes (cases with wide=True): FUNCTION_NAMES_WIDE adds the per-frame entry points / option values the first table never calls
(opt=False paths, displacements, psi / omega / chi2 / J3 couplings, simplified DSSP, other SASA parameters, haystack neighbours, periodic
neighbour lists, closest / sidechain-heavy / soft_min contacts, shape descriptors, directors / nematic order, density, dipole moments,
per-frame cell volumes / vectors, precentered and ref_atom_indices RMSD, serial and ref_atom_indices superposition, center_coordinates
(both weightings), find_closest_contact(frame), make_molecules_whole, image_molecules); all functions meet frame counts on team-size /
chunk boundaries (15,16,17,31..33,63..65,99..101,255..257) with the single-frame monitor probing the frames AT those positions; index
tables are handed over as int32 / lists / Fortran-ordered / strided views; any of the 12 cell kinds; two more monitors:
 (i-b) sub-selections t[[i, j, i, ...]] with repeats and t[::-2]: a frame met twice gives the same value twice;
 (i-c) the same function called on another structure in between: f(t) afterwards is bit-identical to f(t) before.
Not per-frame and therefore left out: compute_rdf(_t), compute_distances_t, rmsf, static_dielectric, kappa_T, baker_hubbard over several
frames (a frequency), smooth (a filter along time by design), compute_average_structure."""
from __future__ import annotations

import ctypes
import json
import os
import subprocess
import sys

import numpy as np

EPS32 = float(np.finfo(np.float32).eps)

from vlib.gen import common

PROPERTY = "C08"
LEVEL = "exploration"
NATIVE = ["mdtraj.geometry._geometry", "mdtraj._rmsd", "mdtraj._lprmsd", "mdtraj.geometry.drid", "mdtraj.geometry.neighbors",
          "mdtraj.geometry.neighborlist"]
RULE = ("case = (function, structure source, n_frames, seed) for the python monitors, or (driver, team size, seed) for the "
        "ThreadSanitizer drivers, or (function set, environment) for child sweeps; each python case crosses 7 team sizes, "
        "repetition, frame context (single frames + a permutation) and 3 junk environments; non-trivial = at least one "
        "bit-for-bit comparison decided; distinct = distinct descriptors; cases with wide=True take the functions of both tables "
        "(FUNCTION_NAMES_WIDE: 38 more per-frame entry points / option values) to frame counts on team-size / chunk boundaries (15..257), "
        "index tables as int32 / list / Fortran / strided views, every cell kind, and add sub-selections with repeated and reversed frames "
        "and an interleaved call on other data")
WORKERS = {"quick": 8, "thorough": 16}
BUDGET = {"quick": 100, "thorough": 1500}
ENV = {"OMP_NUM_THREADS": "4"}
GROUPS = {"quick": [dict(name="shim", flavour="shim", workers=2)], "thorough": [dict(name="shim", flavour="shim", workers=4)]}
FLOORS = {"quick": {"threads.bitwise": 500, "context.single-frame": 200, "context.permutation": 50, "junk.bitwise": 150,
                    "tsan.no-race": 12, "shim.bitwise": 40, "context.subselection": 60, "context.interleaved-call": 30}}
ASSUMPTIONS = ["OPENBLAS_NUM_THREADS=1 so that only mdtraj's own OpenMP team size varies",
               "8 ulp tolerance only for frame-context comparisons of functions whose path contains numpy reductions"]
TEAM = [1, 2, 3, 5, 8, 16]
_gomp = None


def _set_threads(n):
    """set the OpenMP team size of whatever runtime the extensions are linked against (libgomp or the shim)"""
    global _gomp
    shim = os.environ.get("VERIF_SHIM_LIB")
    if shim:
        if _gomp is None:
            _gomp = ctypes.CDLL(shim)
            _gomp.gompshim_config.argtypes = [ctypes.c_int, ctypes.c_uint, ctypes.c_uint64]
        _gomp.gompshim_config(int(n), 150, int(os.environ.get("VERIF_SEED", "0")) + 1)
    else:
        if _gomp is None:
            _gomp = ctypes.CDLL("libgomp.so.1")
        _gomp.omp_set_num_threads(int(n))


# ------------------------------------------------------------------------------------------------ function table
def _pairs(t, rng, k=12):
    return rng.integers(0, t.n_atoms, (k, 2))


def functions():
    import mdtraj as md
    F = {}

    # every per-frame function of the pinned tree is bit-stable alone / in company / reordered (verified over seeds 0-3 and the
    # thorough tier), so every comparison is bitwise; the one allowance left is the mixed-cell-class rounding rule in run_case
    def reg(name, fn, exact=True, protein=False, cell=False):
        F[name] = dict(fn=fn, exact=exact, protein=protein, cell=cell)

    reg("compute_distances", lambda t, a: md.compute_distances(t, a["pairs"], periodic=False))
    reg("compute_distances(periodic)", lambda t, a: md.compute_distances(t, a["pairs"], periodic=True), cell=True)
    reg("compute_displacements(periodic)", lambda t, a: md.compute_displacements(t, a["pairs"], periodic=True), cell=True)
    reg("compute_angles", lambda t, a: md.compute_angles(t, a["triplets"], periodic=False))
    reg("compute_angles(periodic)", lambda t, a: md.compute_angles(t, a["triplets"], periodic=True), cell=True)
    reg("compute_dihedrals", lambda t, a: md.compute_dihedrals(t, a["quartets"], periodic=False))
    reg("compute_dihedrals(periodic)", lambda t, a: md.compute_dihedrals(t, a["quartets"], periodic=True), cell=True)
    reg("rmsd", lambda t, a: md.rmsd(_cp(t), _cp(a["ref"]), 0))
    reg("rmsd(parallel=False)", lambda t, a: md.rmsd(_cp(t), _cp(a["ref"]), 0, parallel=False))
    reg("rmsd(atom_indices)", lambda t, a: md.rmsd(_cp(t), _cp(a["ref"]), 0, atom_indices=a["subset"]))
    reg("superpose", lambda t, a: _cp(t).superpose(_cp(a["ref"]), 0).xyz)
    reg("superpose(atom_indices)", lambda t, a: _cp(t).superpose(_cp(a["ref"]), 0, atom_indices=a["subset"]).xyz)
    reg("shrake_rupley", lambda t, a: md.shrake_rupley(t, n_sphere_points=40))
    reg("shrake_rupley(residue)", lambda t, a: md.shrake_rupley(t, n_sphere_points=40, mode="residue"))
    reg("compute_dssp", lambda t, a: md.compute_dssp(t, simplified=False), protein=True)
    reg("kabsch_sander", lambda t, a: [m.toarray() for m in md.kabsch_sander(t)], protein=True)
    reg("wernet_nilsson", lambda t, a: [np.asarray(x) for x in md.wernet_nilsson(t)], protein=True)
    reg("baker_hubbard(single-frame)", lambda t, a: [np.asarray(md.baker_hubbard(t[i], freq=0.0)) for i in range(t.n_frames)], protein=True)
    reg("compute_neighbors", lambda t, a: [np.asarray(x) for x in md.compute_neighbors(t, 0.45, a["subset"][:6], periodic=False)])
    reg("compute_neighbors(periodic)", lambda t, a: [np.asarray(x) for x in md.compute_neighbors(t, 0.45, a["subset"][:6], periodic=True)], cell=True)
    reg("compute_neighborlist", lambda t, a: [_nl(md.compute_neighborlist(t, 0.4, frame=i)) for i in range(t.n_frames)])
    reg("compute_contacts", lambda t, a: md.compute_contacts(t, a["respairs"], scheme="closest-heavy")[0], protein=True)
    reg("compute_contacts(ca)", lambda t, a: md.compute_contacts(t, a["respairs"], scheme="ca")[0], protein=True)
    reg("compute_rg", lambda t, a: md.compute_rg(t))
    reg("compute_center_of_mass", lambda t, a: md.compute_center_of_mass(t))
    reg("compute_center_of_geometry", lambda t, a: md.compute_center_of_geometry(t))
    reg("compute_gyration_tensor", lambda t, a: md.compute_gyration_tensor(t))
    reg("compute_inertia_tensor", lambda t, a: md.compute_inertia_tensor(t))
    reg("compute_drid", lambda t, a: md.compute_drid(t, atom_indices=a["subset"]))
    reg("lprmsd", lambda t, a: md.lprmsd(_cp(t), _cp(a["ref"]), 0, atom_indices=a["subset"]))
    reg("compute_phi", lambda t, a: md.compute_phi(t)[1], protein=True)
    reg("compute_chi1", lambda t, a: md.compute_chi1(t)[1], protein=True)
    # ---- wider table (FUNCTION_NAMES_WIDE): per-frame entry points, option values and code paths the table above never calls
    reg("compute_displacements", lambda t, a: md.compute_displacements(t, a["pairs"], periodic=False))
    reg("compute_distances(opt=False)", lambda t, a: md.compute_distances(t, a["pairs"], periodic=False, opt=False))
    reg("compute_distances(periodic,opt=False)", lambda t, a: md.compute_distances(t, a["pairs"], periodic=True, opt=False), cell=True)
    reg("compute_angles(periodic,opt=False)", lambda t, a: md.compute_angles(t, a["triplets"], periodic=True, opt=False), cell=True)
    reg("compute_dihedrals(periodic,opt=False)", lambda t, a: md.compute_dihedrals(t, a["quartets"], periodic=True, opt=False), cell=True)
    reg("compute_psi", lambda t, a: md.compute_psi(t)[1], protein=True)
    reg("compute_omega", lambda t, a: md.compute_omega(t)[1], protein=True)
    reg("compute_chi2", lambda t, a: md.compute_chi2(t)[1], protein=True)
    reg("compute_J3_HN_HA", lambda t, a: md.compute_J3_HN_HA(t)[1], protein=True)
    reg("compute_dssp(simplified)", lambda t, a: md.compute_dssp(t, simplified=True), protein=True)
    reg("shrake_rupley(probe=0.2,n=97)", lambda t, a: md.shrake_rupley(t, probe_radius=0.2, n_sphere_points=97))
    reg("shrake_rupley(change_radii)", lambda t, a: md.shrake_rupley(t, n_sphere_points=30, change_radii={"C": 0.2}))
    reg("compute_neighbors(haystack)", lambda t, a: [np.asarray(x) for x in md.compute_neighbors(t, 0.45, a["subset"][:6], haystack_indices=a["subset"][6:], periodic=False)])
    reg("compute_neighborlist(periodic)", lambda t, a: [_nl(md.compute_neighborlist(t, 0.4, frame=i, periodic=True)) for i in range(t.n_frames)], cell=True)
    reg("compute_contacts(closest)", lambda t, a: md.compute_contacts(t, a["respairs"], scheme="closest")[0], protein=True)
    reg("compute_contacts(sidechain-heavy)", lambda t, a: md.compute_contacts(t, a["respairs"], scheme="sidechain-heavy")[0], protein=True)
    reg("compute_contacts(soft_min)", lambda t, a: md.compute_contacts(t, a["respairs"], scheme="closest-heavy", soft_min=True)[0], protein=True)
    reg("principal_moments", lambda t, a: md.principal_moments(t))
    reg("asphericity", lambda t, a: md.asphericity(t))
    reg("acylindricity", lambda t, a: md.acylindricity(t))
    reg("relative_shape_antisotropy", lambda t, a: md.relative_shape_antisotropy(t))
    reg("compute_directors", lambda t, a: md.compute_directors(t, indices=a["groups"]))
    reg("compute_nematic_order", lambda t, a: md.compute_nematic_order(t, indices=a["groups"]))
    reg("density", lambda t, a: md.density(t), cell=True)
    reg("dipole_moments", lambda t, a: md.dipole_moments(t, a["charges"]))
    reg("unitcell_volumes", lambda t, a: t.unitcell_volumes, cell=True)
    reg("unitcell_vectors", lambda t, a: t.unitcell_vectors, cell=True)
    reg("rmsd(precentered)", lambda t, a: md.rmsd(_cp(t).center_coordinates(), _cp(a["ref"]).center_coordinates(), 0, precentered=True))
    reg("rmsd(ref_atom_indices)", lambda t, a: md.rmsd(_cp(t), _cp(a["ref"]), 0, atom_indices=a["subset"], ref_atom_indices=a["subset"][::-1].copy()))
    reg("superpose(parallel=False)", lambda t, a: _cp(t).superpose(_cp(a["ref"]), 0, parallel=False).xyz)
    reg("superpose(ref_atom_indices)", lambda t, a: _cp(t).superpose(_cp(a["ref"]), 0, atom_indices=a["subset"], ref_atom_indices=a["subset"][::-1].copy()).xyz)
    reg("center_coordinates", lambda t, a: _cp(t).center_coordinates().xyz)
    reg("center_coordinates(mass_weighted)", lambda t, a: _cp(t).center_coordinates(mass_weighted=True).xyz)
    reg("compute_rg(masses)", lambda t, a: md.compute_rg(t, masses=np.abs(a["charges"]) + 1.0))
    reg("compute_drid(all atoms)", lambda t, a: md.compute_drid(t.atom_slice(a["subset"])))
    reg("find_closest_contact(frame)", lambda t, a: [np.array(md.find_closest_contact(t, a["subset"][:5], a["subset"][5:], frame=i, periodic=False), dtype=np.float64)
                                                     for i in range(t.n_frames)])
    reg("make_molecules_whole", lambda t, a: _cp(t).make_molecules_whole(inplace=True).xyz, protein=True, cell=True)
    reg("image_molecules", lambda t, a: _cp(t).image_molecules(inplace=True, anchor_molecules=[set(list(t.topology.atoms)[:50])],
                                                                other_molecules=[set(r.atoms) for r in list(t.topology.residues)[8:]]).xyz, protein=True, cell=True)
    return F


FUNCTION_NAMES = ["compute_distances", "compute_distances(periodic)", "compute_displacements(periodic)", "compute_angles",
                  "compute_angles(periodic)", "compute_dihedrals", "compute_dihedrals(periodic)", "rmsd", "rmsd(parallel=False)",
                  "rmsd(atom_indices)", "superpose", "superpose(atom_indices)", "shrake_rupley", "shrake_rupley(residue)", "compute_dssp",
                  "kabsch_sander", "wernet_nilsson", "baker_hubbard(single-frame)", "compute_neighbors", "compute_neighbors(periodic)",
                  "compute_neighborlist", "compute_contacts", "compute_contacts(ca)", "compute_rg", "compute_center_of_mass",
                  "compute_center_of_geometry", "compute_gyration_tensor", "compute_inertia_tensor", "compute_drid", "lprmsd",
                  "compute_phi", "compute_chi1"]


FUNCTION_NAMES_WIDE = ["compute_displacements", "compute_distances(opt=False)", "compute_distances(periodic,opt=False)", "compute_angles(periodic,opt=False)",
                       "compute_dihedrals(periodic,opt=False)", "compute_psi", "compute_omega", "compute_chi2", "compute_J3_HN_HA", "compute_dssp(simplified)",
                       "shrake_rupley(probe=0.2,n=97)", "shrake_rupley(change_radii)", "compute_neighbors(haystack)", "compute_neighborlist(periodic)",
                       "compute_contacts(closest)", "compute_contacts(sidechain-heavy)", "compute_contacts(soft_min)", "principal_moments", "asphericity",
                       "acylindricity", "relative_shape_antisotropy", "compute_directors", "compute_nematic_order", "density", "dipole_moments",
                       "unitcell_volumes", "unitcell_vectors", "rmsd(precentered)", "rmsd(ref_atom_indices)", "superpose(parallel=False)",
                       "superpose(ref_atom_indices)", "center_coordinates", "center_coordinates(mass_weighted)", "compute_rg(masses)",
                       "compute_drid(all atoms)", "find_closest_contact(frame)", "make_molecules_whole", "image_molecules"]
# frame counts sitting on / next to team sizes (1..16), twice a team size, the 100-frame default chunk and 256
BOUNDARY_NF = [15, 16, 17, 31, 32, 33, 63, 64, 65, 99, 100, 101, 255, 256]
IDX_KINDS = ["int64", "int32", "list", "fortran-view", "strided-view"]


def _idx(arr, kind):
    """the same index table in another container / dtype / memory layout"""
    arr = np.asarray(arr)
    if kind == "int32":
        return arr.astype(np.int32)
    if kind == "list":
        return arr.tolist()
    if kind == "fortran-view":
        return np.asfortranarray(arr)
    if kind == "strided-view":
        return np.repeat(arr, 2, axis=0)[::2]
    return arr


def _nl(lst):
    return [np.sort(np.asarray(x)) for x in lst]


def _cp(t):
    import mdtraj as md
    return md.Trajectory(np.array(t.xyz, copy=True), t.topology, unitcell_lengths=None if t.unitcell_lengths is None else t.unitcell_lengths.copy(),
                         unitcell_angles=None if t.unitcell_angles is None else t.unitcell_angles.copy())


def per_frame(res, n):
    """canonical list of per-frame numpy arrays"""
    if isinstance(res, np.ndarray):
        assert res.shape[0] == n, (res.shape, n)
        return [np.ascontiguousarray(res[i]) for i in range(n)]
    out = []
    assert len(res) == n
    for r in res:
        if isinstance(r, list):
            out.append([np.asarray(x) for x in r])
        else:
            out.append(np.asarray(r))
    return out


def same(a, b, exact=True):
    if isinstance(a, list):
        return len(a) == len(b) and all(same(x, y, exact) for x, y in zip(a, b))
    if a.shape != b.shape or a.dtype != b.dtype:
        return False
    if exact or a.dtype.kind not in "f":
        return a.tobytes() == b.tobytes() or (a.dtype.kind == "f" and np.array_equal(a, b, equal_nan=True))
    if np.array_equal(a, b, equal_nan=True):
        return True
    eps = np.finfo(a.dtype).eps
    scale = np.maximum(np.abs(a), np.abs(b))
    scale = np.maximum(scale, np.abs(a).max() * 1e-3 if a.size else 0)
    return bool(np.all(np.abs(a - b) <= 8 * eps * np.maximum(scale, np.finfo(a.dtype).tiny)))


# ------------------------------------------------------------------------------------------------ structures
def structure(case, need_protein, need_cell):
    import mdtraj as md
    rng = common.rng_for("C08s", case["seed"])
    nf = case["n_frames"]
    repo = os.environ.get("VERIF_REPO", "/repo")
    if need_protein or case["source"] == "protein":
        if case.get("md_protein"):
            # frames of a real simulation (lysozyme, 158 residues): secondary structure that comes and goes from frame to
            # frame (3-, 4- and 5-turns, bridges), which an NMR ensemble of a 28-residue peptide does not have
            base = md.load(os.path.join(repo, "tests/data/1am7_corrected.xtc"), top=os.path.join(repo, "tests/data/1am7_protein.pdb"))
            base.unitcell_vectors = None
        else:
            base = md.load(os.path.join(repo, "tests/data/2EQQ.pdb"))
        if case.get("water_first"):
            # a residue without backbone in front of the protein: the first protein residue has no preceding carbonyl
            w = md.load(os.path.join(repo, "tests/data/tip3p_300K_1ATM.pdb")).atom_slice([0, 1, 2])
            w = md.Trajectory(np.repeat(w.xyz[:1] + 3.0, base.n_frames, axis=0), w.topology)
            base = w.stack(base)
        idx = [int(x) for x in rng.integers(0, base.n_frames, nf)]
        if nf >= 100:
            # long trajectories run through the source frames in order (a time series): what the late frames contain
            # (contacts, hydrogen bonds, turns) has not been seen in any early frame
            idx = [int(x) for x in np.floor(np.linspace(0, base.n_frames - 1e-9, nf))]
        xyz = base.xyz[idx] + rng.normal(scale=0.0005 if case.get("md_protein") else 0.01, size=(nf, base.n_atoms, 3)).astype(np.float32)
        t = md.Trajectory(xyz.astype(np.float32), base.topology)
    else:
        na = case["n_atoms"]
        top = common.simple_topology(na, per_res=3)
        side = int(np.ceil(na ** (1 / 3)))
        grid = np.array([(i % side, (i // side) % side, i // (side * side)) for i in range(na)], dtype=np.float64) * 0.3
        xyz = grid[None] + rng.uniform(0, 0.12, (nf, na, 3))
        t = md.Trajectory(xyz.astype(np.float32), top)
    if need_cell or case.get("cell"):
        ext = float(np.abs(t.xyz).max()) * 2 + 2.0
        l, a = common.random_cell(rng, case.get("cellkind"), lo=ext, hi=ext * 1.3)
        t.unitcell_lengths = np.tile(l, (nf, 1)).astype(np.float32) + rng.uniform(0, 0.2, (nf, 3)).astype(np.float32)
        ang = np.tile(a, (nf, 1)).astype(np.float32)
        if nf > 1 and rng.random() < 0.5:
            # the cell CLASS changes along the trajectory (e.g. two runs joined): some frames orthorhombic, some skewed —
            # a per-frame result must not depend on what kind of cell another frame has
            skew = np.array([75.0, 100.0, 110.0], np.float32) if np.all(a == 90.0) else a.astype(np.float32)
            for f in range(nf):
                ang[f] = np.float32(90.0) if (f == 0) == (rng.random() < 0.8) else skew
        t.unitcell_angles = ang
        # scatter the atoms over neighbouring periodic images (per-atom lattice shifts of that frame's cell) so that the
        # minimum-image machinery really has work to do in the periodic functions
        B = t.unitcell_vectors.astype(np.float64)
        shifts = rng.integers(-1, 2, (nf, t.n_atoms, 3)).astype(np.float64)
        t.xyz = (t.xyz.astype(np.float64) + np.einsum("fak,fkj->faj", shifts, B)).astype(np.float32)
    args = dict(pairs=_pairs(t, rng), triplets=rng.integers(0, t.n_atoms, (8, 3)), quartets=rng.integers(0, t.n_atoms, (8, 4)),
                subset=np.sort(rng.choice(t.n_atoms, size=min(t.n_atoms, 24), replace=False)))
    args["triplets"] = args["triplets"][[len(set(r)) == 3 for r in args["triplets"]]]
    args["quartets"] = args["quartets"][[len(set(r)) == 4 for r in args["quartets"]]]
    if len(args["triplets"]) == 0:
        args["triplets"] = np.array([[0, 1, 2]])
    if len(args["quartets"]) == 0:
        args["quartets"] = np.array([[0, 1, 2, 3]])
    ref = md.Trajectory(np.array(t.xyz[:1] + rng.normal(scale=0.05, size=(1, t.n_atoms, 3)), dtype=np.float32), t.topology)
    args["ref"] = ref
    args["charges"] = rng.uniform(-0.5, 0.5, t.n_atoms)
    res_atoms = [[x.index for x in r.atoms] for r in t.topology.residues]
    args["groups"] = [g for g in res_atoms if len(g) >= 3][:8] or [list(range(min(3, t.n_atoms)))]
    if case.get("idx_kind"):
        for k_ in ("pairs", "triplets", "quartets", "subset"):
            args[k_] = _idx(args[k_], case["idx_kind"]) if k_ != "subset" or case["idx_kind"] in ("int32", "int64", "strided-view") else args[k_]
    nres = t.topology.n_residues
    args["respairs"] = np.array([[i, j] for i in range(0, min(nres, 12)) for j in range(i + 3, min(nres, 12))][:20]) if nres > 4 else None
    return t, args


def guarded(t, junk, rng):
    """same trajectory, but xyz (and cell) are views into the middle of junk-filled buffers"""
    import mdtraj as md
    nf, na = t.n_frames, t.n_atoms
    pad = 3
    buf = np.empty((nf + 2 * pad, na, 3), np.float32)
    if junk == "nan":
        buf[:] = np.nan
    elif junk == "huge":
        buf[:] = 1e30
    elif junk == "zero":
        buf[:] = 0.0
    else:
        buf[:] = rng.normal(scale=2.0, size=buf.shape)
    buf[pad:pad + nf] = t.xyz
    view = buf[pad:pad + nf]
    g = md.Trajectory(view, t.topology)
    if g.xyz.ctypes.data != view.ctypes.data:
        return None, buf
    if t.unitcell_lengths is not None:
        g.unitcell_lengths = t.unitcell_lengths.copy()
        g.unitcell_angles = t.unitcell_angles.copy()
    return g, buf


# ------------------------------------------------------------------------------------------------ cases
# frame counts of the second variant: every function meets trajectories of more than 100 and more than 256 frames in every run
LONGER = [2, 130, 8, 17, 257, 5, 13, 257, 24, 40, 130, 3]
MD_PROTEIN_FNS = ("compute_dssp", "kabsch_sander", "wernet_nilsson", "compute_contacts", "compute_contacts(ca)", "compute_phi", "compute_chi1")


def gen_cases(tier, seed):
    i = 0
    reps = 6 if tier == "quick" else 10
    for r in range(reps):
        for k, name in enumerate(FUNCTION_NAMES):
            for variant in range(2 if tier == "quick" else 3):
                rng = common.rng_for("C08", seed, r, k, variant)
                nf = int(LONGER[(r + k + seed) % len(LONGER)]) if variant else int(rng.integers(1, 9))
                c = dict(i=i, kind="py", fn=name, seed=common.case_seed(seed, "C08", i), n_frames=nf,
                         source="protein" if (variant == 0 and k % 3 == 0) else "lattice", n_atoms=int(rng.choice([7, 30, 61, 150])),
                         cell=bool(rng.random() < 0.3), cellkind=["ortho", "triclinic", "hex120"][int(rng.integers(3))],
                         water_first=bool(name in ("kabsch_sander", "compute_dssp") and variant == 1),
                         md_protein=bool(name in MD_PROTEIN_FNS and (r + variant) % 2 == 1))
                yield c
                i += 1
                if variant == 0:
                    d = dict(c)
                    d["group"] = "shim"
                    d["i"] = i
                    yield d
                    i += 1
    # wider classes: the functions of the wider table, and every function at frame counts on team-size / chunk boundaries, with index
    # tables in other containers / dtypes / layouts, any cell kind; these cases also run the sub-selection and interleaved-call monitors.
    # quick: each function once or twice per run (rotating through the boundary counts by seed), thorough: all of them
    allnames = FUNCTION_NAMES_WIDE + FUNCTION_NAMES
    i = max(i, 100000)
    for k, name in enumerate(allnames):
        wide_fn = name in FUNCTION_NAMES_WIDE
        nvar = 1 if tier == "quick" else 6
        for variant in range(nvar):
            rng = common.rng_for("C08w", seed, k, variant)
            heavy = name.startswith(("compute_dssp", "kabsch_sander", "wernet_nilsson", "baker_hubbard", "compute_contacts", "shrake_rupley", "make_molecules", "image_molecules"))
            # wide-table functions: a LONG trajectory (every frame position up to 255..257 exists; 63..65 for the expensive ones) in
            # every third variant (quick: for every other function, alternating with the seed), otherwise a boundary count rotating
            # with the seed; original-table functions (which meet 130 / 257 frames in the cases above): a boundary count
            nfs = [x for x in BOUNDARY_NF if x <= (33 if heavy else 101)]
            if wide_fn and ((variant % 3 == 0) if tier != "quick" else ((k + seed) % 2 == 0)):
                nf = int(([63, 64, 65] if heavy else [255, 256, 257])[(k + seed + variant) % 3])
            else:
                nf = int(nfs[(k + 3 * variant + seed) % len(nfs)])
            yield dict(i=i, kind="py", wide=True, fn=name, seed=common.case_seed(seed, "C08w", i), n_frames=nf,
                       source="protein" if (variant % 3 == 1) else "lattice", n_atoms=int(rng.choice([7, 30, 61, 150, 333])),
                       cell=bool(rng.random() < 0.4), cellkind=str(rng.choice(common.CELL_KINDS)), idx_kind=str(rng.choice(IDX_KINDS)),
                       water_first=False, md_protein=bool(name in MD_PROTEIN_FNS and rng.random() < 0.4))
            i += 1
    # ThreadSanitizer drivers
    for drv, argsets in (("sasa", [[8, 60, 40], [5, 33, 20], [13, 20, 30]]), ("neighborlist", [[400, 1], [900, 0], [150, 1]]),
                         ("rmsd", [[16, 37], [7, 64], [33, 3]])):
        for ai, args in enumerate(argsets if tier == "thorough" else argsets[:2]):
            for th in ([2, 3, 5, 8] if tier == "quick" else [2, 3, 4, 5, 8, 16]):
                for rep in range(1 if tier == "quick" else 3):
                    yield dict(i=i, kind="tsan", driver=drv, args=args, threads=th, rep=rep, seed=seed * 100 + rep)
                    i += 1
    if tier == "thorough":
        for drv, args in (("sasa", [4, 30, 20]), ("sasa", [7, 50, 30]), ("neighborlist", [300, 1]), ("neighborlist", [200, 0]),
                          ("rmsd", [9, 37]), ("rmsd", [5, 6])):
            for th in (1, 3):
                yield dict(i=i, kind="valgrind", driver=drv, args=args, threads=th, seed=seed)
                i += 1
        for env in [dict(OMP_NUM_THREADS=n) for n in (1, 2, 3, 5, 8, 16, 64)] + [dict(OMP_DYNAMIC="true", OMP_NUM_THREADS=8),
                                                                                      dict(OMP_SCHEDULE="dynamic,1", OMP_NUM_THREADS=5),
                                                                                      dict(OMP_SCHEDULE="guided", OMP_NUM_THREADS=3),
                                                                                      dict(OMP_DYNAMIC="true", OMP_SCHEDULE="static", OMP_NUM_THREADS=16)]:
            yield dict(i=i, kind="env", env={k: str(v) for k, v in env.items()}, seed=seed)
            i += 1


# ------------------------------------------------------------------------------------------------ monitors
def run_case(case, ctx):
    if case["kind"] == "tsan":
        return run_tsan(case, ctx)
    if case["kind"] == "env":
        return run_env(case, ctx)
    if case["kind"] == "valgrind":
        return run_valgrind(case, ctx)
    F = functions()
    spec = F[case["fn"]]
    name = case["fn"]
    t, args = structure(case, spec["protein"], spec["cell"])
    if name.startswith("compute_contacts") and args["respairs"] is None:
        ctx.skip("setup", "too few residues for contacts")
        return
    n = t.n_frames
    rng = common.rng_for("C08r", case["seed"])
    fn = spec["fn"]
    shim = case.get("group") == "shim"
    mon = "shim" if shim else "threads"

    def call(tr, threads):
        _set_threads(threads)
        return per_frame(fn(tr, args), tr.n_frames)

    try:
        base = call(t, 1)
    except Exception as e:
        ctx.skip("setup", f"{name} raised {type(e).__name__} on the probe structure: {str(e)[:80]}")
        return
    ctx.observe("function", name)
    if case.get("md_protein"):
        ctx.observe("structure_source", "simulation frames (1am7)")
    # (ii) team sizes and repetition
    for th in TEAM + [n + 3]:
        for rep in range(2 if th in (5, n + 3) else 1):
            got = call(t, th)
            bad = [i for i in range(n) if not same(got[i], base[i], True)]
            ctx.observe("team_size", f"{name}:{min(th, 99)}")
            # which frames are first in their thread's static chunk for this team size (evidence of chunk positions)
            ctx.observe("frames_vs_team", "frames>team" if n > th else "frames<=team")
            if bad:
                ctx.violation(f"{mon}.bitwise", f"{name}:{'shim:' if shim else ''}depends-on-team-size-or-run",
                              f"{name}: result of frames {bad[:6]} with {th} threads differs from the 1-thread result (n_frames={n})", threads=th)
                return
            ctx.ok(f"{mon}.bitwise")
    if shim:
        lib = ctypes.CDLL(os.environ["VERIF_SHIM_LIB"])
        lib.gompshim_regions.restype = ctypes.c_ulong
        ctx.observe("shim_regions_logged", name, int(lib.gompshim_regions()))
        return
    _set_threads(4)
    # (i) frame context
    sample = sorted(set([0, n - 1] + [int(x) for x in rng.integers(0, n, 4)]))
    if case.get("wide"):  # plus the frames sitting on team-size / chunk boundaries of this trajectory
        sample = sorted(set(sample + [x for x in (15, 16, 17, 31, 32, 33, 63, 64, 65, 99, 100, 101, 127, 128, 129, 255, 256) if x < n]))
    for i in sample:
        one = call(t[i], 4)[0]
        ok = same(one, base[i], spec["exact"])
        if not ok and t.unitcell_angles is not None and isinstance(one, np.ndarray) and one.dtype.kind == "f":
            # mdtraj chooses between its orthorhombic and its general minimum-image arithmetic once per call, from the cells
            # of ALL frames; a rectangular frame that sits among skewed ones is therefore computed with the general
            # formulas inside the trajectory and with the rectangular ones alone.  Both are correct; they round differently
            # once coordinates are large (float32 spacing at 50 nm is 4e-6 nm).  In exactly that situation the comparison
            # allows what the rounding of the INPUT coordinates can explain, and nothing more.
            rect_i = bool(np.all(np.abs(t.unitcell_angles[i] - 90.0) <= 1e-6))
            rect_all = bool(np.all(np.abs(t.unitcell_angles - 90.0) <= 1e-6))
            if rect_i != rect_all:
                cmax = float(np.abs(t.xyz[i]).max())
                tol = 16 * EPS32 * cmax * (10.0 if any(w in name for w in ("angles", "dihedrals", "phi", "chi")) else 1.0)
                dd = np.abs(one.astype(np.float64) - base[i].astype(np.float64))
                if any(w in name for w in ("angles", "dihedrals", "phi", "chi")):
                    dd = np.minimum(dd, 2 * np.pi - dd)
                ok = bool(one.shape == base[i].shape and np.all(dd <= tol))
                if ok:
                    ctx.observe("context_rounding_only", f"{name}: rectangular frame among skewed ones, differs by input rounding only")
        if not ok:
            pos = "first" if i == 0 else ("last" if i == n - 1 else "middle")
            ctx.violation("context.single-frame", f"{name}:frame-alone-differs-from-frame-in-trajectory",
                          f"{name}: frame {i} ({pos}) of {n} computed alone differs from its value inside the trajectory", frame=i,
                          water_first=case.get("water_first"))
            return
        ctx.ok("context.single-frame")
    if n > 1:
        perm = rng.permutation(n)
        gp = call(t[perm], 4)
        bad = [int(perm[k]) for k in range(n) if not same(gp[k], base[perm[k]], spec["exact"])]
        if bad:
            ctx.violation("context.permutation", f"{name}:frame-result-depends-on-position-in-trajectory",
                          f"{name}: frames {bad[:6]} change value when the trajectory is reordered")
            return
        ctx.ok("context.permutation")
    if case.get("wide"):
        ctx.observe("wide.index_layout", case.get("idx_kind"))
        ctx.observe("wide.n_frames", f"{name}:{n}" if n >= 15 else "1-8")
        # (i-b) sub-selections with repeated and reversed frames: a frame met twice gives the same value twice
        sel = [int(x) for x in rng.integers(0, n, min(n + 2, 12))] + [n - 1, 0, 0]
        for key, idxs, what in ((np.array(sel), sel, "index list with repeats"), (slice(None, None, -2), list(range(n))[::-1][::2], "reversed strided slice")):
            gs = call(t[key], 4)
            bad = [idxs[k] for k in range(len(idxs)) if not same(gs[k], base[idxs[k]], spec["exact"])]
            if bad:
                ctx.violation("context.subselection", f"{name}:frame-result-depends-on-the-selection-it-is-part-of",
                              f"{name}: frames {bad[:6]} change value inside t[{what}]")
                return
            ctx.ok("context.subselection")
        # (i-c) another call of the same function on a different structure in between: nothing may be carried from call to call
        other_case = dict(case, n_frames=3, n_atoms=int(case["n_atoms"]) + 5, source="lattice", seed=case["seed"] + 1, md_protein=False, water_first=False)
        try:
            t2, args2 = structure(other_case, spec["protein"], spec["cell"])
            fn(t2, args2)
            if name.startswith("shrake_rupley"):
                # ... and the same function with OTHER option values (more sphere points, another probe): work tables that
                # are kept from call to call must not leak into a later call with smaller ones
                md_ = __import__("mdtraj")
                md_.shrake_rupley(t2, n_sphere_points=960, probe_radius=0.3)
                ctx.observe("interleaved_other_options", name)
        except Exception as e:
            ctx.skip("context.interleaved-call", f"the in-between call raised {type(e).__name__}")
        else:
            again = call(t, 4)
            bad = [k for k in range(n) if not same(again[k], base[k], True)]
            if bad:
                ctx.violation("context.interleaved-call", f"{name}:result-depends-on-an-earlier-call-on-other-data",
                              f"{name}: frames {bad[:6]} differ after the same function was called on another structure in between")
                return
            ctx.ok("context.interleaved-call")
    # (iii) junk differential
    for junk in ("nan", "huge", "other"):
        g, buf = guarded(t, junk, rng)
        if g is None:
            ctx.skip("junk.bitwise", "Trajectory copied the guarded view")
            break
        got = call(g, 4)
        bad = [i for i in range(n) if not same(got[i], base[i], True)]
        if bad:
            ctx.violation("junk.bitwise", f"{name}:depends-on-memory-outside-the-frames",
                          f"{name}: frames {bad[:6]} change when the memory around the coordinate array holds {junk}", junk=junk)
            return
        ctx.ok("junk.bitwise")


def run_tsan(case, ctx):
    from vlib import natives
    try:
        exe = natives.build_driver(case["driver"], "tsan")
    except subprocess.CalledProcessError as e:
        ctx.violation("tsan.build", f"tsan-driver:{case['driver']}:does-not-build", (e.stdout or b"").decode(errors="replace")[-600:])
        return
    r = natives.run_tsan(exe, case["args"] + [case["seed"]], case["threads"], seed=case["seed"] + 1)
    ctx.observe("tsan_driver", f"{case['driver']}:threads={case['threads']}")
    if "RESULT" not in r["stdout"]:
        ctx.violation("tsan.run", f"tsan-driver:{case['driver']}:crashed", f"driver rc={r['rc']}: {r['stderr_tail'][-400:]}")
        return
    if "mismatches=0" not in r["stdout"].replace("frame_mismatches", "mismatches").replace("serial_mismatches", "mismatches") \
            and "asymmetric=0" not in r["stdout"]:
        ctx.violation("tsan.result", f"driver:{case['driver']}:parallel-result-differs-from-serial", r["stdout"].strip())
    if r["races"]:
        pr = r["races"][0]["pair"]
        ctx.violation("tsan.no-race", f"data-race:{case['driver']}:" + "|".join(f"{f}@{fl}" for f, fl in pr),
                      f"ThreadSanitizer: data race in {pr} with {case['threads']} threads", report=r["races"][0]["text"][:1200])
    else:
        ctx.ok("tsan.no-race")


def run_valgrind(case, ctx):
    """memcheck on the uninstrumented drivers.  Verdict: invalid writes / frees inside mdtraj kernels (the process state, hence
    every later per-frame result, is then not a function of the frames).  Uses of uninitialised values and invalid reads are
    LEADS recorded in the evidence: whether a result depends on them is decided by the bit-for-bit monitors (repetition,
    junk differential, frame context) — e.g. neighborlist.cpp evaluates a `triclinic` flag from an uninitialised box in the
    non-periodic path and never uses it, which memcheck reports although no output can depend on it."""
    from vlib import natives
    exe = natives.build_driver(case["driver"], "plain")
    r = natives.run_valgrind(exe, case["args"] + [case["seed"]], case["threads"])
    ctx.observe("valgrind_driver", f"{case['driver']}:threads={case['threads']}")
    if "RESULT" not in r["stdout"]:
        ctx.skip("valgrind", f"driver did not finish under valgrind: {r['stderr_tail'][-200:]}")
        return
    kf = natives.kernel_files(case["driver"])
    verdicts = [x for x in r["reports"] if x["kind"].startswith(("Invalid write", "Invalid free", "Mismatched free")) and x["file"] in kf]
    for x in r["reports"]:
        if x not in verdicts and x["file"] in kf:
            ctx.observe("valgrind_lead", f"{x['kind'][:40]}:{x['func']}@{x['file']}")
    if verdicts:
        v = verdicts[0]
        ctx.violation("valgrind", f"valgrind:{case['driver']}:{v['kind'].replace(' ', '-')}:{v['func']}", f"memcheck: {v['kind']} in {v['func']} ({v['file']})", report=v["text"])
    else:
        ctx.ok("valgrind")


ENV_CHILD = r"""
import os, sys, json, hashlib
sys.path.insert(0, os.environ['VERIF_ROOT'])
from vlib import overlay; overlay.install()
import numpy as np
from vlib.props import c08
F = c08.functions()
out = {}
for k, name in enumerate(c08.FUNCTION_NAMES):
    case = dict(seed=1000 + k, n_frames=[3, 9, 20][k % 3], source='protein' if k % 4 == 0 else 'lattice', n_atoms=61, cell=False)
    spec = F[name]
    try:
        t, args = c08.structure(case, spec['protein'], spec['cell'])
        res = c08.per_frame(spec['fn'](t, args), t.n_frames)
        h = hashlib.sha256()
        def feed(x):
            if isinstance(x, list):
                for y in x: feed(y)
            else:
                h.update(np.ascontiguousarray(x).tobytes())
        feed(res)
        out[name] = h.hexdigest()
    except Exception as e:
        out[name] = 'ERR ' + type(e).__name__
print('HASHES ' + json.dumps(out))
"""


def _env_hashes(env_extra):
    env = dict(os.environ)
    for k in ("OMP_NUM_THREADS", "OMP_DYNAMIC", "OMP_SCHEDULE"):
        env.pop(k, None)
    env.update(env_extra)
    env["VERIF_ROOT"] = os.path.dirname(os.path.dirname(os.path.dirname(os.path.abspath(__file__))))
    p = subprocess.run([sys.executable, "-u", "-c", ENV_CHILD], env=env, stdout=subprocess.PIPE, stderr=subprocess.PIPE, text=True, timeout=900)
    for line in p.stdout.splitlines():
        if line.startswith("HASHES "):
            return json.loads(line[7:])
    raise RuntimeError("child failed: " + p.stderr[-500:])


_BASE_HASHES = None


def run_env(case, ctx):
    global _BASE_HASHES
    if _BASE_HASHES is None:
        _BASE_HASHES = _env_hashes(dict(OMP_NUM_THREADS="1"))
    got = _env_hashes(case["env"])
    tag = ",".join(f"{k}={v}" for k, v in sorted(case["env"].items()))
    ctx.observe("environment", tag)
    for name, h in got.items():
        if h.startswith("ERR") or _BASE_HASHES.get(name, "").startswith("ERR"):
            ctx.skip("env.bitwise", f"{name} raised in child")
            continue
        if h != _BASE_HASHES[name]:
            ctx.violation("env.bitwise", f"{name}:depends-on-openmp-environment", f"{name}: output under {tag} differs from OMP_NUM_THREADS=1")
        else:
            ctx.ok("env.bitwise")


def worker_summary():
    """schedule evidence from the shim: distinct (team size, arrival order) pairs seen by this worker"""
    lib = os.environ.get("VERIF_SHIM_LIB")
    if not lib or _gomp is None:
        return {}
    import tempfile
    fd, path = tempfile.mkstemp(dir="/var/tmp", suffix=".shimlog")
    os.close(fd)
    try:
        _gomp.gompshim_dump.argtypes = [ctypes.c_char_p]
        _gomp.gompshim_dump(path.encode())
        ents = [json.loads(l) for l in open(path) if l.strip()]
    finally:
        os.unlink(path)
    by_team = {}
    for e in ents:
        d = by_team.setdefault(str(e["threads"]), dict(regions=0, distinct_arrival_orders=set(), outlined_functions=set()))
        d["regions"] += e["count"]
        d["distinct_arrival_orders"].add(e["arrival"])
        d["outlined_functions"].add(e["fn"])
    return {"shim": {k: dict(regions=v["regions"], distinct_arrival_orders=len(v["distinct_arrival_orders"]),
                             outlined_functions=len(v["outlined_functions"]), sample_orders=sorted(v["distinct_arrival_orders"])[:3])
                     for k, v in by_team.items()}}


def evidence_extra(records, dones, tier):
    shim = {}
    for d in dones:
        for team, v in (d.get("extra") or {}).get("shim", {}).items():
            a = shim.setdefault(team, dict(regions=0, distinct_arrival_orders=0, outlined_functions=0, sample_orders=[]))
            a["regions"] += v["regions"]
            a["distinct_arrival_orders"] = max(a["distinct_arrival_orders"], v["distinct_arrival_orders"])
            a["outlined_functions"] = max(a["outlined_functions"], v["outlined_functions"])
            a["sample_orders"] = (a["sample_orders"] + v["sample_orders"])[:4]
    return {"shim_schedule_evidence_by_team_size": shim}
