"""C18 — an open trajectory file behaves as a cursor over its frames.

Monitor: a two-integer sequential model (pos, n) shadows every md.open(...) handle through an operation
sequence (read(k), read(), seek(k), seek(d,1), tell(), len()), one or two handles on the same file.
Frames are self-identifying (vlib.gen.files), and `read` results are compared bit-for-bit with the matching
slice of a full read through a fresh handle (same decoder, so no tolerance).  Only in-domain operations
are generated (k <= n-pos for read(k), targets in [0,n) for seeks).  An operation that raises
NotImplementedError / is missing is "not offered" by that format: recorded, never judged.
Thorough tier: every in-domain sequence of length <= 5 over the alphabet, per format (exhaustive)."""
from __future__ import annotations

import atexit
import itertools
import os
import shutil
import tempfile

import numpy as np

from vlib.gen import common, files

PROPERTY = "C18"
LEVEL = "exploration"
NATIVE = ["mdtraj.formats.xtc", "mdtraj.formats.trr", "mdtraj.formats.dcd", "mdtraj.formats.dtr"]
RULE = ("case = (format, atom count class, atom_indices?, one or two handles, in-domain op sequence); quick: seeded random "
        "sequences of length 3..10; thorough: every in-domain sequence of length <= 5 over 11 ops per format plus random "
        "two-handle interleavings; non-trivial = at least one model comparison was decided; distinct = distinct descriptors")
WORKERS = {"quick": 8, "thorough": 16}
BUDGET = {"quick": 60, "thorough": 1200}
EXHAUSTIVE = {"quick": False, "thorough": True}
N_FRAMES = 6
N_LONG = 230
FMTS = ["h5", "xtc", "xtc9", "trr", "dcd", "dcd0", "dcd4", "dcdfix", "trr-double", "trr-vf", "mdcrd-hasbox", "mdcrd-nobox20", "nc", "mdcrd", "mdcrd-nobox", "xyz", "xyz-foreign", "xyz.gz", "lammpstrj", "dtr", "arc"]
# dcd0 = DCD whose header frame count was never patched (0); dcd4 = CHARMM 4-dimensional DCD (see vlib/gen/files.py);
# mdcrd-nobox = MDCRD without box lines (the default files carry a cell)
# gro is not seekable (seek raises NotImplementedError) and is not in the property's list: not judged here.
ALPHABET = [("read", 1), ("read", 2), ("read", 3), ("readall", None), ("seek", 0), ("seek", 2), ("seek", 5),
            ("rseek", 1), ("rseek", -1), ("tell", None), ("len", None)]
FLOORS = {"quick": {"read.frames": 2500, "tell": 2000, "len": 600, "final.remainder": 1000}}
ASSUMPTIONS = ["a full read() through a fresh handle is the reference for frame content (content itself is C01's subject); "
               "it is additionally checked to identify frames 0..n-1 in order",
               "out-of-range reads and seeks are outside the property's domain and are not generated"]

_TMP = None
_CACHE = {}
_OPENKW = {}


def worker_init(tier, seed):
    global _TMP
    _TMP = tempfile.mkdtemp(prefix="c18-", dir="/var/tmp")
    atexit.register(shutil.rmtree, _TMP, True)


def in_domain(op, arg, pos, n):
    if op == "read":
        return arg <= n - pos
    if op == "seek":
        return 0 <= arg < n
    if op == "rseek":
        return 0 <= pos + arg < n
    return True


def apply_model(op, arg, pos, n):
    if op == "read":
        return pos + arg
    if op == "readall":
        return n
    if op == "seek":
        return arg
    if op == "rseek":
        return pos + arg
    return pos


ASAN_EVERY = {"quick": 40, "thorough": 25}
GROUPS = {"quick": [dict(name="asan", flavour="asan", workers=1)], "thorough": [dict(name="asan", flavour="asan", workers=3)]}


def gen_cases(tier, seed):
    return common.with_asan_slice(_gen_cases(tier, seed), ASAN_EVERY[tier])


def _gen_cases(tier, seed):
    n = N_FRAMES
    i = 0
    if tier == "thorough":
        for fmt in FMTS:
            for L in range(1, 6):
                for seq in itertools.product(range(len(ALPHABET)), repeat=L):
                    pos, ok = 0, True
                    for s in seq:
                        op, arg = ALPHABET[s]
                        if not in_domain(op, arg, pos, n):
                            ok = False
                            break
                        pos = apply_model(op, arg, pos, n)
                    if ok:
                        yield dict(i=i, fmt=fmt, ai=bool((i // 7) % 3 == 0), ops=[[0, ALPHABET[s][0], ALPHABET[s][1]] for s in seq])
                        i += 1
    nrand = 20000 if tier == "quick" else 40000
    for j in range(nrand):
        rng = common.rng_for("C18", seed, j)
        fmt = FMTS[j % len(FMTS)]
        n = N_FRAMES
        if j % 20 == 19:
            n = N_LONG  # a long file: reads, seeks and skips over hundreds of frames
        two = bool(rng.random() < 0.4)
        L = int(rng.integers(3, 11 if tier == "quick" else 13))
        pos = [0, 0]
        ops = []
        for _ in range(L):
            h = int(rng.integers(0, 2)) if two else 0
            cand = [(o, a) for o, a in ALPHABET if in_domain(o, a, pos[h], n)]
            # random arguments beyond the fixed alphabet
            o, a = cand[int(rng.integers(len(cand)))]
            if o == "read":
                a = int(rng.integers(1, n - pos[h] + 1))
            elif o == "seek":
                a = int(rng.integers(0, n))
            elif o == "rseek":
                a = int(rng.integers(-pos[h], n - pos[h]))
            ops.append([h, o, a])
            pos[h] = apply_model(o, a, pos[h], n)
        yield dict(i=i, fmt=fmt, ai=bool(rng.random() < 0.35), ops=ops, **({"n": n} if n != N_FRAMES else {}))
        i += 1


def _file_for(fmt, N_FRAMES=N_FRAMES):
    """(path, ext, n_atoms, reference coordinates in native units) for this format (cached per worker)."""
    import mdtraj as md
    if (fmt, N_FRAMES) in _CACHE:
        return _CACHE[fmt, N_FRAMES]
    if fmt == "arc":
        # read-only format: the file is produced by the harness (vlib/gen/files.py arc_write)
        ext, na = "arc", 12
        path = os.path.join(_TMP, f"f_arc_{N_FRAMES}.arc")
        files.arc_write(path, files.ident_xyz(N_FRAMES, na))
    else:
        ext = {"xtc9": "xtc", "dcd0": "dcd", "dcd4": "dcd", "dcdfix": "dcd", "trr-double": "trr", "trr-vf": "trr", "mdcrd-nobox": "mdcrd", "mdcrd-hasbox": "mdcrd",
               "mdcrd-nobox20": "mdcrd", "xyz-foreign": "xyz"}.get(fmt, fmt)
        # mdcrd lines hold 10 numbers: 10 and 20 atoms end a frame on a full line; those two variants also tell the reader
        # up front whether box lines are present (has_box=) instead of letting it detect them
        na = {"xtc9": 6, "mdcrd-hasbox": 10, "mdcrd-nobox20": 20}.get(fmt, 12)
        _OPENKW[fmt] = {"mdcrd-hasbox": dict(has_box=True), "mdcrd-nobox20": dict(has_box=False)}.get(fmt, {})
        t = files.ident_traj(N_FRAMES, na, cell=None if fmt in ("dcd4", "dcdfix", "mdcrd-nobox", "mdcrd-nobox20") else "ortho")
        path = os.path.join(_TMP, f"f_{fmt}_{N_FRAMES}.{ext}")
        t.save(path)
        if fmt == "xyz-foreign":
            files.xyz_make_foreign(path)
        if fmt == "dcd0":
            files.dcd_set_nset(path, 0)
        elif fmt == "dcd4":
            os.rename(path, path + ".3d")
            files.dcd_make_4d(path + ".3d", path, na, N_FRAMES)
        elif fmt == "dcdfix":
            os.rename(path, path + ".all")
            files.dcd_make_fixed(path + ".all", path, na, N_FRAMES)
        elif fmt in ("trr-double", "trr-vf"):
            # GROMACS-written TRR: double precision and/or velocity + force blocks (vlib/gen/files.py)
            files.trr_write_foreign(path, t.xyz, t.unitcell_vectors, t.time, double=(fmt == "trr-double"), velocities=True, forces=True)
    with md.open(path, **files.open_kwargs(ext, na), **_OPENKW.get(fmt, {})) as fh:
        R = np.array(files.coords_of(ext, fh.read()))
    f, a = files.identify(R / (10.0 if ext == "arc" else files.FORMATS[ext]["unit"]))
    good = (R.shape[0] == N_FRAMES and np.array_equal(f[:, 0], np.arange(N_FRAMES) % 40)
            and np.array_equal(a[0], np.arange(na)))
    _CACHE[fmt, N_FRAMES] = (path, ext, na, R, good)
    return _CACHE[fmt, N_FRAMES]


def run_case(case, ctx):
    import mdtraj as md
    fmt = case["fmt"]
    path, ext, na, R, good = _file_for(fmt, case.get("n", N_FRAMES))
    if case.get("n"):
        ctx.observe("file_length", case["n"])
    if not good:
        ctx.skip("reference", f"{fmt}: a full read through a fresh handle does not identify frames 0..n-1 (see C01/C02)")
        return
    n = R.shape[0]
    if fmt == "arc" and n != N_FRAMES:
        # re-map the op arguments into this file's length
        pass
    idx = np.array([1, 3, 4]) if case["ai"] else None
    ctx.observe("format", fmt)
    ctx.observe("atom_indices", case["ai"])
    nh = 1 + max(h for h, _, _ in case["ops"])
    ctx.observe("handles", nh)
    handles = [md.open(path, **files.open_kwargs(ext, na), **_OPENKW.get(fmt, {})) for _ in range(nh)]
    pos = [0] * nh
    last = ["open"] * nh
    off = {}
    # A read() that runs into the end of the file is the one operation after which some formats lose track of the
    # position; every later discrepancy on that handle (until an absolute seek re-bases the position) is the same
    # mechanism, so it gets one key.  Discrepancies on an untainted handle keep their specific keys.
    eof = [False] * nh

    def K(h, specific):
        # (same reader for the GROMACS-written TRR classes: one mechanism, one key)
        return f"{ {'trr-double': 'trr', 'trr-vf': 'trr'}.get(fmt, fmt)}:position-overcounted-after-read()-reached-eof" if eof[h] else specific
    try:
        for h, op, arg in case["ops"]:
            fh = handles[h]
            if not in_domain(op, arg, pos[h], n):
                ctx.skip("domain", "operation out of range for this file length")
                continue
            name = {"read": "read(n)", "readall": "read()", "seek": "seek(abs)", "rseek": "seek(rel)", "tell": "tell",
                    "len": "len"}[op]
            if off.get(name) is False:
                continue
            try:
                if op == "read":
                    res = fh.read(arg, atom_indices=idx) if idx is not None else fh.read(arg)
                elif op == "readall":
                    res = fh.read(atom_indices=idx) if idx is not None else fh.read()
                elif op == "seek":
                    res = fh.seek(arg)
                elif op == "rseek":
                    res = fh.seek(arg, 1)
                elif op == "tell":
                    res = fh.tell()
                else:
                    res = len(fh)
            except (NotImplementedError, AttributeError, TypeError) as e:
                if isinstance(e, NotImplementedError) or "has no len" in str(e) or isinstance(e, AttributeError):
                    off[name] = False
                    ctx.observe("not_offered", f"{fmt}:{name}")
                    if op in ("seek", "rseek"):
                        break  # the model cannot follow; stop this history
                    continue
                raise
            except Exception as e:
                if op == "readall" and pos[h] == n:
                    ctx.skip("read.at-eof", f"{fmt}: read() at end of file raises {type(e).__name__}")
                    eof[h] = True
                    last[h] = name
                    continue
                ctx.violation("raises", K(h, f"{fmt}:{name}:raises-in-domain:{type(e).__name__}"),
                              f"{fmt}: in-domain {name} after {last[h]} at pos {pos[h]} raised {type(e).__name__}: {e}", ops=case["ops"])
                break
            ctx.observe("op", name)
            if op in ("read", "readall"):
                xyz = np.asarray(files.coords_of(ext, res))
                k = arg if op == "read" else n - pos[h]
                if k == 0:
                    # at the end of the file: "no frames" is all that is required (formats differ in the empty shape)
                    if xyz.shape[0] if xyz.ndim else xyz.size:
                        ctx.violation("read.count", K(h, f"{fmt}:read():returns-frames-at-eof"),
                                      f"{fmt}: read() at the end of the file returned {xyz.shape} after {last[h]}", ops=case["ops"])
                        break
                    ctx.ok("read.frames")
                    eof[h] = True
                    last[h] = name
                    continue
                exp = R[pos[h]:pos[h] + k]
                if idx is not None:
                    exp = exp[:, idx]
                if xyz.shape[0] != k:
                    ctx.violation("read.count", K(h, f"{fmt}:{name}:wrong-frame-count-after-{last[h]}"),
                                  f"{fmt}: {name} at pos {pos[h]} of {n} after {last[h]} returned {xyz.shape[0]} frames, expected {k}", ops=case["ops"])
                    break
                if xyz.shape != exp.shape or not np.array_equal(xyz, exp):
                    where = [j for j in range(n - k + 1) if idx is None and np.array_equal(R[j:j + k], xyz)]
                    ctx.violation("read.frames", K(h, f"{fmt}:{name}:wrong-frames-after-{last[h]}"),
                                  f"{fmt}: {name} at pos {pos[h]} after {last[h]} returned frames starting at {where or '?'}", ops=case["ops"])
                    break
                ctx.ok("read.frames")
                if op == "readall":
                    eof[h] = True
            elif op == "tell":
                if res != pos[h]:
                    ctx.violation("tell", K(h, f"{fmt}:tell-wrong-after-{last[h]}"),
                                  f"{fmt}: tell() == {res} after {last[h]}, model position {pos[h]} (n={n})", ops=case["ops"])
                    break
                ctx.ok("tell")
            elif op == "len":
                if res != n:
                    ctx.violation("len", K(h, f"{fmt}:len-wrong-after-{last[h]}"), f"{fmt}: len() == {res} after {last[h]}, file has {n}", ops=case["ops"])
                    break
                ctx.ok("len")
            pos[h] = apply_model(op, arg, pos[h], n)
            if op == "seek":
                eof[h] = False  # an absolute seek re-bases the position
            if op not in ("tell",):
                last[h] = name
        else:
            # final observers make every history observable: position via tell (if offered) and the remainder
            for h, fh in enumerate(handles):
                if off.get("tell") is not False:
                    try:
                        tl = fh.tell()
                        if tl != pos[h]:
                            ctx.violation("tell", K(h, f"{fmt}:tell-wrong-after-{last[h]}"),
                                          f"{fmt}: final tell() == {tl} after {last[h]}, model position {pos[h]} (n={n})", ops=case["ops"])
                            continue
                        ctx.ok("tell")
                    except (NotImplementedError, AttributeError):
                        ctx.observe("not_offered", f"{fmt}:tell")
                if pos[h] < n:
                    try:
                        rest = np.asarray(files.coords_of(ext, fh.read()))
                    except Exception as e:
                        ctx.violation("final.remainder", K(h, f"{fmt}:read():raises-after-{last[h]}:{type(e).__name__}"),
                                      f"{fmt}: read() after {last[h]} at pos {pos[h]} raised {e!r}", ops=case["ops"])
                        continue
                    if rest.shape[0] != n - pos[h] or not np.array_equal(rest, R[pos[h]:]):
                        ctx.violation("final.remainder", K(h, f"{fmt}:remainder-wrong-after-{last[h]}"),
                                      f"{fmt}: after {last[h]} the remainder read returned {rest.shape[0]} frames, model expects frames {pos[h]}..{n - 1}",
                                      ops=case["ops"])
                    else:
                        ctx.ok("final.remainder")
    finally:
        for fh in handles:
            try:
                fh.close()
            except Exception:
                pass
