"""C18 — an open trajectory file behaves as a cursor over its frames.

Monitor: a two-integer sequential model (pos, n) shadows every md.open(...) handle through an operation
sequence (read(k), read(), seek(k), seek(d,1), tell(), len()), one or two handles on the same file.
Frames are self-identifying (vlib.gen.files), and `read` results are compared bit-for-bit with the matching
slice of a full read through a fresh handle (same decoder, so no tolerance).  Only in-domain operations
are generated (k <= n-pos for read(k), targets in [0,n) for seeks).  An operation that raises
NotImplementedError / is missing is "not offered" by that format: recorded, never judged.
Thorough tier: every in-domain sequence of length <= 5 over the alphabet, per format (exhaustive).

Round-5 widening (same model): (1) every array the file object returns from read() -- times, steps, cells / box vectors,
lambda, velocities, energies ... -- is compared with the matching slice of the reference read, not only the coordinates
(monitor read.fields); (2) seek(offset, whence=2) "relative to the end of file, offset <= 0" where the class offers it
(op eseek); (3) files as other programs write them and option classes of md.open: LAMMPS dumps (other column sets,
triclinic bounds, unsorted atoms), extended XYZ (+gz), AMBER NetCDF with velocities/forces/temp0, HDF5 with every optional
field, DCD big-endian / 8-byte record markers / degree angles + long title, TRR whose frames differ in size, mdcrd with
another title and CRLF, Desmond directory opened through clickme.dtr, .arc without box line, extension aliases
(.hdf5 .netcdf .crd), XTC so compressible that read() needs several buffer chunks, and XTC/TRR opened with the documented
min_chunk_size / chunk_size_multiplier options forcing one-frame buffer chunks."""
from __future__ import annotations

import atexit
import itertools
import os
import shutil
import tempfile

import numpy as np

from vlib.gen import common, files

PROPERTY = "C18"
LEVEL = "exploration"
NATIVE = ["mdtraj.formats.xtc", "mdtraj.formats.trr", "mdtraj.formats.dcd", "mdtraj.formats.dtr"]
RULE = ("case = (format, atom count class, atom_indices?, one or two handles, in-domain op sequence); quick: seeded random "
        "sequences of length 3..10; thorough: every in-domain sequence of length <= 5 over 11 ops per format plus random "
        "two-handle interleavings; round-5 streams: the same histories on foreign / alias / option file classes (see module docstring), histories with seek(offset, whence=2), every array of the read() result compared; round-10 stream: read(k, stride) inserted as an unjudged disturbance, position re-based by an absolute seek, everything after it judged; non-trivial = at least one model comparison was decided; distinct = distinct descriptors")
WORKERS = {"quick": 8, "thorough": 16}
BUDGET = {"quick": 60, "thorough": 1200}
EXHAUSTIVE = {"quick": False, "thorough": True}
N_FRAMES = 6
N_LONG = 230
FMTS = ["h5", "xtc", "xtc9", "trr", "dcd", "dcd0", "dcd4", "dcdfix", "trr-double", "trr-vf", "mdcrd-hasbox", "mdcrd-nobox20", "nc", "mdcrd", "mdcrd-nobox", "xyz", "xyz-foreign", "xyz.gz", "lammpstrj", "dtr", "arc"]
OLD_FMTS = list(FMTS)   # the pre-widening streams keep drawing from this list, so their cases are unchanged
# round-5 classes (module docstring; writers in vlib/gen/files.py)
WIDE = ["lammpstrj-ortho-vel", "lammpstrj-tric", "xyz-ext", "xyz-ext.gz", "nc-amber", "nc-double", "h5-rich", "dcd-be", "dcd-rec64", "dcd-deg", "trr-mixed",
        "mdcrd-crlf", "dtr-clickme", "arc-nobox", "xtc-dense", "hdf5", "netcdf", "crd", "xtc-chunk1", "trr-chunk1"]
# frames of 1021 atoms: the TRR frame body (36-byte box + 12 bytes per atom) is then exactly 3 x 4096 bytes, the size of common
# stdio / page buffers; every reader that skips or buffers by blocks meets its boundary case (the other formats: frames larger
# than any such buffer)
BIGFRAME = ["trr-1021", "xtc-1021", "dcd-1021"]
FMTS = FMTS + WIDE + BIGFRAME
TRR_CLASSES = {"trr-1021": "trr", "trr-double": "trr", "trr-vf": "trr", "trr-mixed": "trr", "trr-chunk1": "trr"}   # one reader, one mechanism key
UNIT = {"h5": 1.0, "hdf5": 1.0, "xtc": 1.0, "trr": 1.0}   # others: angstrom (10 per nm)
# dcd0 = DCD whose header frame count was never patched (0); dcd4 = CHARMM 4-dimensional DCD (see vlib/gen/files.py);
# mdcrd-nobox = MDCRD without box lines (the default files carry a cell)
# gro is not seekable (seek raises NotImplementedError) and is not in the property's list: not judged here.
ALPHABET = [("read", 1), ("read", 2), ("read", 3), ("readall", None), ("seek", 0), ("seek", 2), ("seek", 5),
            ("rseek", 1), ("rseek", -1), ("tell", None), ("len", None)]
ALPHABET_E = ALPHABET + [("eseek", -1), ("eseek", -4)]   # + seek(offset, whence=2): used by the round-5 streams only
FLOORS = {"quick": {"read.frames": 2500, "tell": 2000, "len": 600, "final.remainder": 1000, "read.fields": 20000, "strided-read.disturbances": 1000}}
ASSUMPTIONS = ["a full read() through a fresh handle is the reference for frame content (content itself is C01's subject); "
               "it is additionally checked to identify frames 0..n-1 in order",
               "out-of-range reads and seeks are outside the property's domain and are not generated"]

_TMP = None
_CACHE = {}
_OPENKW = {}


def worker_init(tier, seed):
    global _TMP
    _TMP = tempfile.mkdtemp(prefix="c18-", dir="/var/tmp")
    atexit.register(shutil.rmtree, _TMP, True)


def in_domain(op, arg, pos, n):
    if op == "read":
        return arg <= n - pos
    if op == "seek":
        return 0 <= arg < n
    if op == "rseek":
        return 0 <= pos + arg < n
    if op == "eseek":
        return arg <= 0 and 0 <= n + arg < n
    return True


def apply_model(op, arg, pos, n):
    if op == "read":
        return pos + arg
    if op == "readall":
        return n
    if op == "seek":
        return arg
    if op == "rseek":
        return pos + arg
    if op == "eseek":
        return n + arg
    return pos


ASAN_EVERY = {"quick": 40, "thorough": 25}
GROUPS = {"quick": [dict(name="asan", flavour="asan", workers=1)], "thorough": [dict(name="asan", flavour="asan", workers=3)]}


def gen_cases(tier, seed):
    return common.with_asan_slice(_gen_cases(tier, seed), ASAN_EVERY[tier])


def _gen_cases(tier, seed):
    n = N_FRAMES
    i = 0
    if tier == "thorough":
        for fmt in OLD_FMTS:
            for L in range(1, 6):
                for seq in itertools.product(range(len(ALPHABET)), repeat=L):
                    pos, ok = 0, True
                    for s in seq:
                        op, arg = ALPHABET[s]
                        if not in_domain(op, arg, pos, n):
                            ok = False
                            break
                        pos = apply_model(op, arg, pos, n)
                    if ok:
                        yield dict(i=i, fmt=fmt, ai=bool((i // 7) % 3 == 0), ops=[[0, ALPHABET[s][0], ALPHABET[s][1]] for s in seq])
                        i += 1
    nrand = 20000 if tier == "quick" else 40000
    for j in range(nrand):
        rng = common.rng_for("C18", seed, j)
        fmt = OLD_FMTS[j % len(OLD_FMTS)]
        n = N_FRAMES
        if j % 20 == 19:
            n = N_LONG  # a long file: reads, seeks and skips over hundreds of frames
        two = bool(rng.random() < 0.4)
        L = int(rng.integers(3, 11 if tier == "quick" else 13))
        pos = [0, 0]
        ops = []
        for _ in range(L):
            h = int(rng.integers(0, 2)) if two else 0
            cand = [(o, a) for o, a in ALPHABET if in_domain(o, a, pos[h], n)]
            # random arguments beyond the fixed alphabet
            o, a = cand[int(rng.integers(len(cand)))]
            if o == "read":
                a = int(rng.integers(1, n - pos[h] + 1))
            elif o == "seek":
                a = int(rng.integers(0, n))
            elif o == "rseek":
                a = int(rng.integers(-pos[h], n - pos[h]))
            ops.append([h, o, a])
            pos[h] = apply_model(o, a, pos[h], n)
        yield dict(i=i, fmt=fmt, ai=bool(rng.random() < 0.35), ops=ops, **({"n": n} if n != N_FRAMES else {}))
        i += 1
    # ---- round-5 streams: the new file / option classes, and whence=2 seeks on every class
    n = N_FRAMES
    if tier == "thorough":
        for fmt in WIDE:
            for L in range(1, 5):
                for seq in itertools.product(range(len(ALPHABET)), repeat=L):
                    pos, ok = 0, True
                    for q in seq:
                        op, arg = ALPHABET[q]
                        if not in_domain(op, arg, pos, n):
                            ok = False
                            break
                        pos = apply_model(op, arg, pos, n)
                    if ok:
                        yield dict(i=i, fmt=fmt, ai=bool((i // 7) % 3 == 0), ops=[[0, ALPHABET[q][0], ALPHABET[q][1]] for q in seq])
                        i += 1
        for fmt in FMTS:
            for L in range(1, 5):
                for seq in itertools.product(range(len(ALPHABET_E)), repeat=L):
                    if not any(ALPHABET_E[q][0] == "eseek" for q in seq):
                        continue
                    pos, ok = 0, True
                    for q in seq:
                        op, arg = ALPHABET_E[q]
                        if not in_domain(op, arg, pos, n):
                            ok = False
                            break
                        pos = apply_model(op, arg, pos, n)
                    if ok:
                        yield dict(i=i, fmt=fmt, ai=bool((i // 5) % 3 == 0), ops=[[0, ALPHABET_E[q][0], ALPHABET_E[q][1]] for q in seq])
                        i += 1
    nwide = 14000 if tier == "quick" else 30000
    for j in range(nwide):
        rng = common.rng_for("C18wide", seed, j)
        # two thirds on the new classes, one third whence=2 histories on all classes
        ends = j % 3 == 2
        fmt = FMTS[(j // 3) % len(FMTS)] if ends else WIDE[(j - j // 3) % len(WIDE)]
        n = N_LONG if j % 20 == 19 else N_FRAMES
        two = bool(rng.random() < 0.4)
        L = int(rng.integers(3, 11 if tier == "quick" else 13))
        pos = [0, 0]
        ops = []
        for _ in range(L):
            h = int(rng.integers(0, 2)) if two else 0
            cand = [(o, a) for o, a in (ALPHABET_E if ends else ALPHABET) if in_domain(o, a, pos[h], n)]
            o, a = cand[int(rng.integers(len(cand)))]
            if o == "read":
                a = int(rng.integers(1, n - pos[h] + 1))
            elif o == "seek":
                a = int(rng.integers(0, n))
            elif o == "rseek":
                a = int(rng.integers(-pos[h], n - pos[h]))
            elif o == "eseek":
                a = -int(rng.integers(1, n + 1))
            ops.append([h, o, a])
            pos[h] = apply_model(o, a, pos[h], n)
        c = dict(i=i, fmt=fmt, ai=bool(rng.random() < 0.35), ops=ops, **({"n": n} if n != N_FRAMES else {}))
        if c["ai"] and rng.random() < 0.6:
            c["aiv"] = int(rng.integers(1, 4))   # which atoms, and in which container (see run_case)
        yield c
        i += 1
    # ---- round-10 stream: a strided read(k, stride=s) as a DISTURBANCE between judged operations.  Its own result is C02's subject
    # and is not judged here; the handle's position is re-based by an absolute seek straight after it, and everything that follows
    # must still behave as a cursor (whatever the reader remembered about frames it skipped must not mislead later seeks).
    for j in range(4000 if tier == "quick" else 16000):
        rng = common.rng_for("C18stride", seed, j)
        fmt = FMTS[j % len(FMTS)]
        n = N_LONG if j % 25 == 24 else N_FRAMES
        two = bool(rng.random() < 0.3)
        L = int(rng.integers(4, 11))
        pos = [0, 0]
        ops = []
        for _ in range(L):
            h = int(rng.integers(0, 2)) if two else 0
            if rng.random() < 0.3:
                k, st = int(rng.integers(1, 4)), int(rng.integers(2, 4))
                if pos[h] + (k - 1) * st + 1 <= n:
                    a = int(rng.integers(0, n))
                    ops.append([h, "sread", [k, st]])
                    ops.append([h, "seek", a])
                    pos[h] = a
                    continue
            cand = [(o, a) for o, a in ALPHABET if in_domain(o, a, pos[h], n)]
            o, a = cand[int(rng.integers(len(cand)))]
            if o == "read":
                a = int(rng.integers(1, n - pos[h] + 1))
            elif o == "seek":
                a = int(rng.integers(0, n))
            elif o == "rseek":
                a = int(rng.integers(-pos[h], n - pos[h]))
            ops.append([h, o, a])
            pos[h] = apply_model(o, a, pos[h], n)
        # TRR: read(stride > 1, atom_indices = subset) overruns a heap block (known finding C02/asan:heap-buffer-overflow:WRITE:do_htrn,
        # trr.pyx): that call would corrupt the worker, and it is C02's subject, so the disturbance is not combined with atom_indices there
        ai = bool(rng.random() < 0.25) and not fmt.startswith("trr")
        yield dict(i=i, fmt=fmt, ai=ai, ops=ops, **({"n": n} if n != N_FRAMES else {}))
        i += 1


def _file_for(fmt, N_FRAMES=N_FRAMES):
    """(path, ext, n_atoms, reference coordinates in native units) for this format (cached per worker)."""
    import mdtraj as md
    if (fmt, N_FRAMES) in _CACHE:
        return _CACHE[fmt, N_FRAMES]
    if fmt in WIDE:
        base = {"xtc-chunk1": "xtc", "trr-chunk1": "trr"}.get(fmt)
        ext = base or files.WIDE_EXT[fmt]
        if base:
            # documented md.open options of the XDR classes: buffer chunks of a single frame when reading to the end
            _OPENKW[fmt] = dict(min_chunk_size=1, chunk_size_multiplier=0.01)
        t = (files.ident_traj_dense(N_FRAMES) if fmt == "xtc-dense" else
             files.ident_traj(N_FRAMES, 12, cell={"arc-nobox": None, "dcd-deg": "tric"}.get(fmt, "ortho")))
        na = t.n_atoms
        path = os.path.join(_TMP, f"f_{fmt}_{N_FRAMES}.{ext}")
        if base:
            t.save(path)
        else:
            path = files.write_wide_class(fmt, path, t, N_FRAMES, na)
    elif fmt == "arc":
        # read-only format: the file is produced by the harness (vlib/gen/files.py arc_write)
        ext, na = "arc", 12
        path = os.path.join(_TMP, f"f_arc_{N_FRAMES}.arc")
        files.arc_write(path, files.ident_xyz(N_FRAMES, na))
    else:
        ext = {"xtc9": "xtc", "dcd0": "dcd", "dcd4": "dcd", "dcdfix": "dcd", "trr-double": "trr", "trr-vf": "trr", "mdcrd-nobox": "mdcrd", "mdcrd-hasbox": "mdcrd",
               "mdcrd-nobox20": "mdcrd", "xyz-foreign": "xyz", "trr-1021": "trr", "xtc-1021": "xtc", "dcd-1021": "dcd"}.get(fmt, fmt)
        # mdcrd lines hold 10 numbers: 10 and 20 atoms end a frame on a full line; those two variants also tell the reader
        # up front whether box lines are present (has_box=) instead of letting it detect them
        na = {"xtc9": 6, "mdcrd-hasbox": 10, "mdcrd-nobox20": 20, "trr-1021": 1021, "xtc-1021": 1021, "dcd-1021": 1021}.get(fmt, 12)
        _OPENKW[fmt] = {"mdcrd-hasbox": dict(has_box=True), "mdcrd-nobox20": dict(has_box=False)}.get(fmt, {})
        t = files.ident_traj(N_FRAMES, na, cell=None if fmt in ("dcd4", "dcdfix", "mdcrd-nobox", "mdcrd-nobox20") else "ortho")
        path = os.path.join(_TMP, f"f_{fmt}_{N_FRAMES}.{ext}")
        t.save(path)
        if fmt == "xyz-foreign":
            files.xyz_make_foreign(path)
        if fmt == "dcd0":
            files.dcd_set_nset(path, 0)
        elif fmt == "dcd4":
            os.rename(path, path + ".3d")
            files.dcd_make_4d(path + ".3d", path, na, N_FRAMES)
        elif fmt == "dcdfix":
            os.rename(path, path + ".all")
            files.dcd_make_fixed(path + ".all", path, na, N_FRAMES)
        elif fmt in ("trr-double", "trr-vf"):
            # GROMACS-written TRR: double precision and/or velocity + force blocks (vlib/gen/files.py)
            files.trr_write_foreign(path, t.xyz, t.unitcell_vectors, t.time, double=(fmt == "trr-double"), velocities=True, forces=True)
    with _open(fmt, path, ext, na) as fh:
        res = fh.read()
        R = np.array(files.coords_of(ext, res))
    _REF[fmt, N_FRAMES] = [(nm, None if v is None else np.array(v)) for nm, v in _fields(res)]
    f, a = files.identify(R / UNIT.get(ext, 10.0))
    good = (R.shape[0] == N_FRAMES and np.array_equal(f[:, 0], np.arange(N_FRAMES) % 40)
            and (np.array_equal(a[0][:12], np.arange(12)) if (fmt == "xtc-dense" or na > 60) else np.array_equal(a[0], np.arange(na))))
    _CACHE[fmt, N_FRAMES] = (path, ext, na, R, good)
    return _CACHE[fmt, N_FRAMES]


_REF = {}


def _open(fmt, path, ext, na):
    import mdtraj as md
    kw = dict(_OPENKW.get(fmt, {}))
    if ext in ("mdcrd", "crd"):
        kw["n_atoms"] = na
    return md.open(path, **kw)


def _fields(res):
    """(name, value) of every member of what read() returned (namedtuple of the HDF5 class, plain tuples elsewhere)"""
    if hasattr(res, "_fields"):
        return [(nm, getattr(res, nm)) for nm in res._fields]
    if isinstance(res, tuple):
        return [(f"#{k}", v) for k, v in enumerate(res)]
    return [("#0", res)]


def run_case(case, ctx):
    import mdtraj as md
    fmt = case["fmt"]
    path, ext, na, R, good = _file_for(fmt, case.get("n", N_FRAMES))
    if case.get("n"):
        ctx.observe("file_length", case["n"])
    if not good:
        ctx.skip("reference", f"{fmt}: a full read through a fresh handle does not identify frames 0..n-1 (see C01/C02)")
        return
    n = R.shape[0]
    if fmt == "arc" and n != N_FRAMES:
        # re-map the op arguments into this file's length
        pass
    idx = np.array([1, 3, 4]) if case["ai"] else None
    if case.get("aiv"):
        # a contiguous leading range (what a reader may turn into a slice), the single last atom, a plain list
        idx = {1: np.arange(6), 2: np.array([na - 1]), 3: [0, na // 2, na - 2, na - 1]}[case["aiv"]]
        ctx.observe("atom_indices_kind", {1: "contiguous range", 2: "last atom only", 3: "python list"}[case["aiv"]])
    ctx.observe("format", fmt)
    ctx.observe("atom_indices", case["ai"])
    nh = 1 + max(h for h, _, _ in case["ops"])
    ctx.observe("handles", nh)
    fresh = None
    if nh > 1 and case["i"] % 2 == 0 and fmt not in ("dtr-clickme", "stk"):  # (those two name files that point at other files)
        # two handles on a file this process has never opened before (a private copy under a new name): nothing a reader may
        # have learnt about the file in an earlier complete read is available yet, both handles discover it while interleaved
        fresh = os.path.join(_TMP, "fresh-%d-%s" % (case["i"], os.path.basename(path)))
        try:
            if os.path.isdir(path):
                shutil.copytree(path, fresh)
            else:
                shutil.copyfile(path, fresh)
            path = fresh
            ctx.observe("two_handles_on", "a file never read before in this process")
        except Exception:
            fresh = None
    handles = [_open(fmt, path, ext, na) for _ in range(nh)]
    ref_fields = _REF[fmt, case.get("n", N_FRAMES)]
    pos = [0] * nh
    last = ["open"] * nh
    off = {}
    # A read() that runs into the end of the file is the one operation after which some formats lose track of the
    # position; every later discrepancy on that handle (until an absolute seek re-bases the position) is the same
    # mechanism, so it gets one key.  Discrepancies on an untainted handle keep their specific keys.
    eof = [False] * nh
    desync = [False] * nh   # after a strided read the model does not follow the position until an absolute seek re-bases it

    def K(h, specific):
        # (same reader for the GROMACS-written TRR classes: one mechanism, one key)
        return f"{TRR_CLASSES.get(fmt, fmt)}:position-overcounted-after-read()-reached-eof" if eof[h] else specific
    try:
        if fmt == "dcd-rec64":
            ln = len(handles[0])
            if ln != n:
                # one mechanism (frame size computed with 4-byte record markers, header count overridden): every later len /
                # read() / tell discrepancy of this class is its consequence, so the history is not followed further
                ctx.violation("len", "dcd:8-byte-record-markers:frame-count-recomputed-from-file-size-assuming-4-byte-markers",
                              f"dcd with 8-byte Fortran record markers (CHARMM -i8), {n} frames: len() == {ln}", ops=case["ops"])
                return
        for h, op, arg in case["ops"]:
            fh = handles[h]
            if desync[h] and op not in ("seek", "eseek"):
                ctx.skip("domain", "position not re-based after a strided read")
                continue
            if op == "sread":
                try:
                    fh.read(arg[0], stride=arg[1], atom_indices=idx) if idx is not None else fh.read(arg[0], stride=arg[1])
                    ctx.observe("op", "read(n, stride) [disturbance, not judged]")
                    ctx.ok("strided-read.disturbances")
                except Exception as e:  # noqa  (strided reads are C02's subject; here: stop following this history)
                    ctx.skip("domain", f"{fmt}: read(n, stride) raised {type(e).__name__}")
                    break
                desync[h] = True
                continue
            if not in_domain(op, arg, pos[h], n):
                ctx.skip("domain", "operation out of range for this file length")
                continue
            name = {"read": "read(n)", "readall": "read()", "seek": "seek(abs)", "rseek": "seek(rel)", "eseek": "seek(end)", "tell": "tell",
                    "len": "len"}[op]
            if off.get(name) is False:
                continue
            try:
                if op == "read":
                    res = fh.read(arg, atom_indices=idx) if idx is not None else fh.read(arg)
                elif op == "readall":
                    res = fh.read(atom_indices=idx) if idx is not None else fh.read()
                elif op == "seek":
                    res = fh.seek(arg)
                elif op == "rseek":
                    res = fh.seek(arg, 1)
                elif op == "eseek":
                    res = fh.seek(arg, 2)
                elif op == "tell":
                    res = fh.tell()
                else:
                    res = len(fh)
            except (NotImplementedError, AttributeError, TypeError) as e:
                if isinstance(e, NotImplementedError) or "has no len" in str(e) or isinstance(e, AttributeError):
                    off[name] = False
                    ctx.observe("not_offered", f"{fmt}:{name}")
                    if op in ("seek", "rseek", "eseek"):
                        break  # the model cannot follow; stop this history
                    continue
                raise
            except Exception as e:
                if op == "readall" and pos[h] == n:
                    ctx.skip("read.at-eof", f"{fmt}: read() at end of file raises {type(e).__name__}")
                    eof[h] = True
                    last[h] = name
                    continue
                if ext == "trr" and isinstance(e, IndexError) and "Out of bounds on buffer access" in str(e):
                    # the table of frame offsets is sized from the FIRST frame and grown by int(len*1.2): no growth while len <= 4
                    ctx.violation("raises", "trr:frames-of-different-sizes:offset-table-of-<=4-entries-never-grows:IndexError",
                                  f"{fmt}: in-domain {name} after {last[h]} at pos {pos[h]} raised IndexError: {e}", ops=case["ops"])
                    break
                ctx.violation("raises", K(h, f"{fmt}:{name}:raises-in-domain:{type(e).__name__}"),
                              f"{fmt}: in-domain {name} after {last[h]} at pos {pos[h]} raised {type(e).__name__}: {e}", ops=case["ops"])
                break
            ctx.observe("op", name)
            if op in ("read", "readall"):
                xyz = np.asarray(files.coords_of(ext, res))
                k = arg if op == "read" else n - pos[h]
                if k == 0:
                    # at the end of the file: "no frames" is all that is required (formats differ in the empty shape)
                    if xyz.shape[0] if xyz.ndim else xyz.size:
                        ctx.violation("read.count", K(h, f"{fmt}:read():returns-frames-at-eof"),
                                      f"{fmt}: read() at the end of the file returned {xyz.shape} after {last[h]}", ops=case["ops"])
                        break
                    ctx.ok("read.frames")
                    eof[h] = True
                    last[h] = name
                    continue
                exp = R[pos[h]:pos[h] + k]
                if idx is not None:
                    exp = exp[:, idx]
                if xyz.shape[0] != k:
                    ctx.violation("read.count", K(h, f"{fmt}:{name}:wrong-frame-count-after-{last[h]}"),
                                  f"{fmt}: {name} at pos {pos[h]} of {n} after {last[h]} returned {xyz.shape[0]} frames, expected {k}", ops=case["ops"])
                    break
                if xyz.shape != exp.shape or not np.array_equal(xyz, exp):
                    where = [j for j in range(n - k + 1) if idx is None and np.array_equal(R[j:j + k], xyz)]
                    ctx.violation("read.frames", K(h, f"{fmt}:{name}:wrong-frames-after-{last[h]}"),
                                  f"{fmt}: {name} at pos {pos[h]} after {last[h]} returned frames starting at {where or '?'}", ops=case["ops"])
                    break
                ctx.ok("read.frames")
                # every other array of the result (times, steps, cells, velocities ...) must be the same slice of the reference
                bad_field = None
                for (nm, ref), (_, val) in zip(ref_fields[1:], _fields(res)[1:]):
                    if ref is None:
                        if val is not None:
                            bad_field = (nm, "present although the full read has none")
                        continue
                    want = ref[pos[h]:pos[h] + k]
                    if idx is not None and want.ndim == 3 and want.shape[1:] == (na, 3) and na != 3:
                        want = want[:, idx]
                    if val is None or np.asarray(val).shape != want.shape or not np.array_equal(np.asarray(val), want):
                        bad_field = (nm, "None" if val is None else f"shape {np.asarray(val).shape}, expected {want.shape}" if np.asarray(val).shape != want.shape else "values differ")
                        break
                if bad_field:
                    ctx.violation("read.fields", K(h, f"{fmt}:{name}:field-{bad_field[0]}-is-not-the-slice-of-the-full-read-after-{last[h]}"),
                                  f"{fmt}: {name} at pos {pos[h]} after {last[h]}: member {bad_field[0]} of the result: {bad_field[1]}", ops=case["ops"])
                    break
                if len(ref_fields) > 1:
                    ctx.ok("read.fields")
                    ctx.observe("fields_compared", f"{ext}:{len(ref_fields) - 1}")
                if op == "readall":
                    eof[h] = True
            elif op == "tell":
                if res != pos[h]:
                    ctx.violation("tell", K(h, f"{fmt}:tell-wrong-after-{last[h]}"),
                                  f"{fmt}: tell() == {res} after {last[h]}, model position {pos[h]} (n={n})", ops=case["ops"])
                    break
                ctx.ok("tell")
            elif op == "len":
                if res != n:
                    ctx.violation("len", K(h, f"{fmt}:len-wrong-after-{last[h]}"), f"{fmt}: len() == {res} after {last[h]}, file has {n}", ops=case["ops"])
                    break
                ctx.ok("len")
            pos[h] = apply_model(op, arg, pos[h], n)
            if op in ("seek", "eseek"):
                eof[h] = False  # an absolute (or end-relative) seek re-bases the position
                desync[h] = False
            if op not in ("tell",):
                last[h] = name
        else:
            # final observers make every history observable: position via tell (if offered) and the remainder
            for h, fh in enumerate(handles):
                if desync[h]:
                    continue
                if off.get("tell") is not False:
                    try:
                        tl = fh.tell()
                        if tl != pos[h]:
                            ctx.violation("tell", K(h, f"{fmt}:tell-wrong-after-{last[h]}"),
                                          f"{fmt}: final tell() == {tl} after {last[h]}, model position {pos[h]} (n={n})", ops=case["ops"])
                            continue
                        ctx.ok("tell")
                    except (NotImplementedError, AttributeError):
                        ctx.observe("not_offered", f"{fmt}:tell")
                if pos[h] < n:
                    try:
                        rest = np.asarray(files.coords_of(ext, fh.read()))
                    except Exception as e:
                        ctx.violation("final.remainder", K(h, f"{fmt}:read():raises-after-{last[h]}:{type(e).__name__}"),
                                      f"{fmt}: read() after {last[h]} at pos {pos[h]} raised {e!r}", ops=case["ops"])
                        continue
                    if rest.shape[0] != n - pos[h] or not np.array_equal(rest, R[pos[h]:]):
                        ctx.violation("final.remainder", K(h, f"{fmt}:remainder-wrong-after-{last[h]}"),
                                      f"{fmt}: after {last[h]} the remainder read returned {rest.shape[0]} frames, model expects frames {pos[h]}..{n - 1}",
                                      ops=case["ops"])
                    else:
                        ctx.ok("final.remainder")
    finally:
        for fh in handles:
            try:
                fh.close()
            except Exception:
                pass
        if fresh is not None:
            shutil.rmtree(fresh, ignore_errors=True) if os.path.isdir(fresh) else (os.path.exists(fresh) and os.remove(fresh))
