"""C04 — topology transformations preserve atoms, residues, chains and bonds.

Monitors (all observe the REAL mdtraj objects; expectations come from vlib/oracle/c04_model.py, which works on plain
tuples and never calls an mdtraj transformation):

* fp.<op>            differential oracle: fingerprint F(result) vs the model of the op applied to F(input), restricted to
                     the carrier profile of the op (fields a carrier cannot hold are not compared):
                       memory ops (copy, copy.copy, deepcopy, pickle, subset, join, traj.slice, traj.atom_slice,
                                   traj.stack)           -> every field
                       dataframe  -> everything except chain_id (the frame stores the chain *index*); domain: adjacent
                                     residues of a chain must differ in (resSeq, name) -- the frame has no residue index
                       hdf5       -> atom name/element, residue name/resSeq/segmentID, residue+chain grouping, bond pairs
                                     (docs/hdf5_format.rst: no serial, no chain id, no bond type/order)
                       pdb        -> name[:4], element, resName[:3], resSeq mod 10000, segment_id[:4], chain_id[:1]
                                     (only where one was given), serial only for single-chain topologies (the writer
                                     renumbers multi-chain files), CONECT bonds (an end in a non-standard residue or a
                                     CYS SG-SG bridge) must survive; bonds the reader adds from its residue templates are
                                     tolerated. Loaded with standard_names=False (the documented renaming is not judged).
* pdb.text           the written PDB text parsed independently (fixed columns): per-atom columns, unique serials, TER
                     after every chain iff ter=True, every CONECT number is an ATOM serial of the file, every CONECT pair
                     is a bond of the topology, every CONECT-documented bond is present.
* source-unchanged   F(input) is the same before and after every op.
* invariant.<name>   M4 structural invariants evaluated on every topology an op returns (plain explicit checks, counted):
                     _numAtoms/_numResidues counters, atom.index == position, chains->residues->atoms partition _atoms /
                     _residues in order, chain/residue indices contiguous, back pointers, both ends of every bond are the
                     very objects of this topology's _atoms.  Judged only when the op's inputs satisfied them.
* edit-model / independence   after the transform sequence one pool member is edited (insert_atom, delete_atom_by_index,
                     add_bond, renames); the edited one must follow the list model, every other one must keep its F.
* eq-hash            over all pairs of a case: a == b  =>  hash(a) == hash(b).
* eq.<op>            t == T(t) for field-preserving T; a == b => T(a) == T(b).

No numeric tolerance is involved anywhere (all comparisons are exact)."""
from __future__ import annotations

import copy as _copy
import os
import pickle
import shutil
import tempfile

import numpy as np

from vlib.gen import common
from vlib.oracle import c04_model as M

PROPERTY = "C04"
LEVEL = "exploration"
NATIVE = []
NEEDS_DEPS = False
RULE = ("cases = (source topology, transform sequence, edit block) drawn from a seeded stream: random multi-chain "
        "topologies (explicit/repeated chain ids, repeated/zero/negative resSeq, non-contiguous serials, segment ids, "
        "virtual sites, typed/ordered bonds across residues and chains) and real ones from tests/data; sequences of "
        "copy/deepcopy/pickle/subset/join/dataframe/hdf5/pdb/Trajectory slice, atom_slice, stack (<=4 quick, <=10 "
        "thorough) followed by edits on one side; 'subsets' cases enumerate ALL atom subsets of a small topology; a "
        "case is non-trivial when at least one monitor decided; distinct = distinct case descriptors")
WORKERS = {"quick": 8, "thorough": 16}
BUDGET = {"quick": 150, "thorough": 900}
NCASES = {"quick": 8000, "thorough": 60000}
MAXLEN = {"quick": 4, "thorough": 10}
FLOORS = {"quick": {"fp.copy": 130, "fp.copy.copy": 130, "fp.deepcopy": 130, "fp.pickle": 130, "fp.subset": 700, "fp.join": 200,
                    "fp.dataframe": 130, "fp.hdf5": 130, "fp.pdb": 120, "pdb.text": 140, "fp.traj.slice": 120,
                    "fp.traj.atom_slice": 140, "fp.traj.stack": 120, "source-unchanged": 2000,
                    "invariant.bond-ends-are-own-atoms": 3500, "invariant.partition-in-order": 4500,
                    "invariant.atom-index-is-position": 4500, "independence": 3500, "edit-model": 1300, "eq-hash": 2500,
                    "eq.preserved-by-transform": 1200}}
FLOORS["thorough"] = {k: v * 10 for k, v in FLOORS["quick"].items()}
ASSUMPTIONS = [
    "PDB files are re-read with standard_names=False; the documented renaming of non-standard names on read is not judged",
    "PDB resSeq is compared modulo 10000 and serial modulo 100000 (the writer's documented field widths)",
    "bonds that the PDB reader adds by itself from its residue templates (residues.xml) or CYS SG proximity are tolerated",
    "delete_atom_by_index leaves the bonds of the deleted atom in _bonds; the statement does not cover that, so bond "
    "comparisons and the bond-identity invariant are skipped on a topology after such a deletion",
    "HDF5 segmentID is compared although docs/hdf5_format.rst does not list it: the writer stores it",
]

REAL = ["native.pdb", "2EQQ.pdb", "4ZUO.pdb", "frame0.h5", "1vii_sustiva_water.pdb", "1bpi.pdb", "bpti.pdb", "issue_1611.pdb",
        "nonconsecutive_resSeq.pdb", "4OH9.pdb", "2koc.pdb", "alanine-dipeptide-explicit.pdb", "imatinib.pdb",
        "GG-tip4pew.pdb", "aaqaa-wat.pdb", "1am7_protein.pdb"]
MEM_OPS = ["copy", "copy.copy", "deepcopy", "pickle", "subset", "subset", "join", "traj.slice", "traj.atom_slice", "traj.stack"]
CARRIER_OPS = ["dataframe", "hdf5", "pdb"]


def _data_dir():
    return os.path.join(os.environ.get("VERIF_REPO", "/repo"), "tests", "data")


def gen_cases(tier, seed):
    n = NCASES[tier]
    for i in range(n):
        rng = common.rng_for("C04", seed, i)
        u = rng.random()
        cs = common.case_seed(seed, "C04", i)
        if u < 0.04:
            yield dict(i=i, seed=cs, kind="real", src=REAL[int(rng.integers(len(REAL)))], length=int(rng.integers(1, 4)))
        elif u < (0.07 if tier == "quick" else 0.10):
            yield dict(i=i, seed=cs, kind="subsets", n_atoms=int(rng.integers(1, 7 if tier == "quick" else 11)))
        else:
            yield dict(i=i, seed=cs, kind="seq", n_atoms=int(rng.choice([1, 2, 3, 5, 8, 13, 21, 34, 55])),
                       rich=bool(rng.random() < 0.85), repair=bool(rng.random() < 0.7),
                       length=int(rng.integers(1, MAXLEN[tier] + 1)))


# ------------------------------------------------------------------------------------------------ helpers

_REAL_CACHE = {}


def _load_real(name):
    import mdtraj as md
    if name not in _REAL_CACHE:
        path = os.path.join(_data_dir(), name)
        if name.endswith(".h5"):
            t = md.load_frame(path, 0)
        else:
            t = md.load_frame(path, 0)
        _REAL_CACHE[name] = t.topology
    return _REAL_CACHE[name]


def _grid_xyz(n, n_frames=1):
    a = np.arange(n)
    x = np.stack([(a % 20) * 0.4, ((a // 20) % 20) * 0.4, (a // 400) * 0.4], axis=-1).astype(np.float32)
    return np.repeat(x[None], n_frames, axis=0)


def _separable_residues(F, mod=None, cut=None):
    """adjacent residues of one chain differ in (resSeq, name): needed by carriers without a residue index"""
    R = F["residues"]
    for k in range(1, len(R)):
        if R[k][3] != R[k - 1][3]:
            continue
        a, b = R[k - 1], R[k]
        ka = (a[1] % mod if mod else a[1], a[0][:cut] if cut else a[0])
        kb = (b[1] % mod if mod else b[1], b[0][:cut] if cut else b[0])
        if ka == kb:
            return False
    return True


def _repair_adjacent(top, rng):
    """input generation: make adjacent residues of a chain distinguishable by (resSeq, name) (public attributes)"""
    for ch in top.chains:
        prev = None
        for r in ch.residues:
            if prev is not None and (r.resSeq % 10000, r.name[:3]) == (prev.resSeq % 10000, prev.name[:3]):
                r.resSeq = prev.resSeq + int(rng.integers(1, 4))
            prev = r


class Entry:
    __slots__ = ("top", "F", "made_by", "parents", "inv_ok", "frozen")

    def __init__(self, top, F, made_by, parents=(), inv_ok=None, frozen=False):
        self.top, self.F, self.made_by, self.parents, self.inv_ok, self.frozen = top, F, made_by, tuple(parents), inv_ok, frozen


class Run:
    def __init__(self, case, ctx):
        self.case, self.ctx = case, ctx
        self.rng = common.rng_for("C04case", case["seed"])
        self.pool = []
        self.history = []
        self._tmp = None

    # -- scratch
    def tmp(self, name):
        if self._tmp is None:
            self._tmp = tempfile.mkdtemp(prefix="c04-", dir="/var/tmp")
        return os.path.join(self._tmp, name)

    def cleanup(self):
        if self._tmp is not None:
            shutil.rmtree(self._tmp, ignore_errors=True)

    # -- recording
    def viol(self, monitor, key, what, **detail):
        self.ctx.violation(monitor, key, what, history=self.history[-12:], **detail)

    def ancestors(self, k):
        out, todo = set(), list(self.pool[k].parents)
        while todo:
            p = todo.pop()
            if p not in out:
                out.add(p)
                todo.extend(self.pool[p].parents)
        return out

    # -- invariants
    def check_invariants(self, op, top, inputs_ok, skip_bonds_reason=None):
        """inputs_ok: {invariant: bool} conjunction over the op's inputs (None = no inputs). Returns {inv: bool}."""
        res = M.invariants(top)
        out = {}
        for name in M.INVARIANTS:
            msg = res[name]
            out[name] = msg is None
            mon = "invariant." + name
            if name == "bond-ends-are-own-atoms" and skip_bonds_reason:
                self.ctx.skip(mon, skip_bonds_reason)
                continue
            if inputs_ok is not None and not inputs_ok.get(name, True):
                self.ctx.skip(mon, "an input of the op already violates it (reported where it first appeared)")
                continue
            if msg is None:
                self.ctx.ok(mon)
            else:
                self.viol(mon, f"invariant:{op}:{name}", f"after {op}: {msg}", op=op)
        return out

    # -- fingerprint judgement
    def judge(self, op, Fe, Fa, fields=None, tx=None, monitor=None, res_old=None, extra_key=""):
        monitor = monitor or ("fp." + op)
        diffs, ncmp = M.compare(Fe, Fa, fields, tx)
        self.ctx.observe("fields_compared", op, ncmp)
        if not diffs:
            self.ctx.ok(monitor)
            return True
        for (f, k, e, a) in diffs:
            key = f"{op}:{f}{extra_key if f == 'residues.resSeq' else ''}"
            if f == "chains.chain_id":
                exp_ids = [c[0] for c in Fe["chains"]]
                act_ids = [c[0] for c in Fa["chains"]]
                if all(x is None for x in act_ids) and any(x is not None for x in exp_ids):
                    key = f"{op}:chain_id-dropped"
            if f == "residues.resSeq" and res_old is not None:
                bad = [(r, Fe["residues"][r][1], Fa["residues"][r][1]) for r in range(len(Fe["residues"]))
                       if Fe["residues"][r][1] != Fa["residues"][r][1]]
                if bad and all(e_ == 0 and a_ == res_old[r] for (r, e_, a_) in bad):
                    key = f"{op}:resSeq-0-replaced-by-residue-index"
            self.viol(monitor, key, f"{op}: {f} differs at position {k}: expected {e!r}, got {a!r}", op=op, field=f)
        return False

    def source_unchanged(self, op, entries):
        for e in entries:
            Fnow = M.fingerprint(e.top)
            d = M.differing_fields(e.F, Fnow)
            if d:
                self.viol("source-unchanged", f"source-changed:{op}:{'+'.join(d)}", f"{op} altered its input topology in {d}", op=op)
                e.F = Fnow
            else:
                self.ctx.ok("source-unchanged")

    def inputs_inv(self, entries):
        out = {}
        for name in M.INVARIANTS:
            out[name] = all((e.inv_ok or {}).get(name, True) for e in entries)
        return out

    def add(self, top, made_by, parents, inv_ok):
        self.pool.append(Entry(top, M.fingerprint(top), made_by, parents, inv_ok))
        return len(self.pool) - 1

    def eq_expect(self, op, a, b):
        """t == T(t) for a field-preserving T"""
        try:
            r = (a == b)
        except Exception as exc:  # noqa
            self.viol("eq." + op, f"eq:{op}:raises-{type(exc).__name__}", f"t == {op}(t) raised {exc!r}")
            return
        if r:
            self.ctx.ok("eq." + op)
        else:
            self.viol("eq." + op, f"eq:{op}:not-equal-to-source", f"t == {op}(t) is False")


# ------------------------------------------------------------------------------------------------ source topologies


def _random_source(run, n_atoms, rich, repair):
    rng = run.rng
    top = common.random_topology(rng, n_atoms, rich=rich)
    # widen the numeric ranges through public attributes: 4-column resSeq / 5-column serial wrap-around of PDB, large values
    u = rng.random()
    if rich and u < 0.25:
        off = int(rng.choice([990, 9990, 10005, 123456]))
        for r in top.residues:
            r.resSeq = r.resSeq + off
        run.ctx.observe("resSeq_offset", off)
    if rich and rng.random() < 0.1:
        off = int(rng.choice([99950, 250000]))
        for a in top.atoms:
            a.serial = a.serial + off
        run.ctx.observe("serial_offset", off)
    if repair:
        _repair_adjacent(top, rng)
    return top


def _random_subset(rng, F):
    n = len(F["atoms"])
    mode = int(rng.integers(0, 7))
    if n == 0:
        return []
    if mode == 0:
        return list(range(n))
    if mode == 1:
        return [int(rng.integers(n))]
    if mode == 2 and len(F["residues"]) > 1:  # drop whole residues
        drop = set(int(x) for x in rng.choice(len(F["residues"]), size=int(rng.integers(1, len(F["residues"]))), replace=False))
        idx = [i for i, a in enumerate(F["atoms"]) if a[3] not in drop]
        return idx or [0]
    if mode == 3 and len(F["chains"]) > 1:  # drop whole chains
        drop = set(int(x) for x in rng.choice(len(F["chains"]), size=int(rng.integers(1, len(F["chains"]))), replace=False))
        idx = [i for i, a in enumerate(F["atoms"]) if F["residues"][a[3]][3] not in drop]
        return idx or [0]
    if mode == 4 and n > 2:  # a contiguous window
        lo = int(rng.integers(0, n - 1))
        hi = int(rng.integers(lo + 1, n + 1))
        return list(range(lo, hi))
    p = float(rng.choice([0.2, 0.5, 0.8]))
    idx = [i for i in range(n) if rng.random() < p]
    return idx or [int(rng.integers(n))]


# ------------------------------------------------------------------------------------------------ ops


def _apply_op(run, op, k):
    """apply op to pool[k]; returns index of the new pool entry, or None when the op was skipped"""
    import mdtraj as md
    ctx, rng = run.ctx, run.rng
    cur = run.pool[k]
    F = cur.F
    n = len(F["atoms"])
    inputs = [cur]
    parents = [k]
    fields, tx, res_old, extra_key = None, None, None, ""
    eq_expected = False
    desc = op
    keyop = op

    if op in ("copy", "copy.copy", "deepcopy"):
        new = cur.top.copy() if op == "copy" else (_copy.copy(cur.top) if op == "copy.copy" else _copy.deepcopy(cur.top))
        Fe = F
        eq_expected = True
    elif op == "pickle":
        proto = int(rng.integers(2, pickle.HIGHEST_PROTOCOL + 1))
        desc = f"pickle(protocol={proto})"
        new = pickle.loads(pickle.dumps(cur.top, protocol=proto))
        Fe = F
        eq_expected = True
    elif op in ("subset", "traj.atom_slice"):
        idx = _random_subset(rng, F)
        as_array = bool(rng.random() < 0.5)
        arg = np.array(idx, dtype=int) if as_array else list(idx)
        Fe, res_old = M.restrict(F, idx)
        if op == "subset":
            desc = f"subset({len(idx)} of {n}, {'ndarray' if as_array else 'list'})"
            new = cur.top.subset(arg)
        else:
            inplace = bool(rng.random() < 0.4)
            desc = f"traj.atom_slice({len(idx)} of {n}, inplace={inplace})"
            t = md.Trajectory(_grid_xyz(n, 2), cur.top)
            t2 = t.atom_slice(arg, inplace=inplace)
            if inplace and t2 is not t:
                run.viol("fp.traj.atom_slice", "traj.atom_slice:inplace-returns-other-object", "atom_slice(inplace=True) did not return self")
            new = t2.topology
            if t2.xyz.shape[1] != len(idx):
                run.viol("fp.traj.atom_slice", "traj.atom_slice:xyz-shape", f"xyz has {t2.xyz.shape[1]} atoms, expected {len(idx)}")
        eq_expected = len(idx) == n
        ctx.observe("subset_shape", "all" if len(idx) == n else ("empties-chain" if len(Fe["chains"]) < len(F["chains"]) else
                                                                 ("empties-residue" if len(Fe["residues"]) < len(F["residues"]) else "partial")))
    elif op in ("join", "traj.stack"):
        if n == 0:
            ctx.skip("fp." + op, "join on an empty topology is outside the domain")
            return None
        which = int(rng.integers(0, 3))
        if which == 0:
            oi = k
        elif which == 1 and len(run.pool) > 1:
            oi = int(rng.integers(len(run.pool)))
        else:
            ot = common.random_topology(rng, int(rng.integers(1, 12)), rich=bool(rng.random() < 0.8))
            oi = run.add(ot, "source", (), run.check_invariants("source", ot, None))
        other = run.pool[oi]
        if len(other.F["atoms"]) > 3000 and n > 3000:
            ctx.skip("fp." + op, "both operands large (cost)")
            return None
        keep = bool(rng.random() < 0.5)
        desc = f"{op}(other=pool[{oi}], keep_resSeq={keep})"
        extra_key = f"(keep_resSeq={keep})"
        Fe = M.concat(F, other.F, keep)
        if other is not cur:
            inputs.append(other)
            parents.append(oi)
        if op == "join":
            new = cur.top.join(other.top, keep_resSeq=keep)
            # the same join with the other keep_resSeq value: a natural pair differing only in resSeq (for eq/hash)
            if rng.random() < 0.5 and n + len(other.F["atoms"]) < 200:
                alt = cur.top.join(other.top, keep_resSeq=not keep)
                run.judge("join", M.concat(F, other.F, not keep), M.fingerprint(alt), extra_key=f"(keep_resSeq={not keep})")
                run.add(alt, "join", parents, run.check_invariants("join", alt, run.inputs_inv(inputs)))
        else:
            t1 = md.Trajectory(_grid_xyz(n, 2), cur.top)
            t2 = md.Trajectory(_grid_xyz(len(other.F["atoms"]), 2), other.top)
            new = t1.stack(t2, keep_resSeq=keep).topology
    elif op == "traj.slice":
        t = md.Trajectory(_grid_xyz(n, 3), cur.top)
        key = [1, slice(0, 2), [0, 2]][int(rng.integers(3))]
        desc = f"traj[{key!r}]"
        new = t[key].topology
        Fe = F
        eq_expected = True
    elif op == "dataframe":
        if not _separable_residues(F):
            ctx.skip("fp.dataframe", "adjacent residues with identical (resSeq, name): a data frame cannot separate them")
            return None
        if n == 0:
            ctx.skip("fp.dataframe", "empty topology")
            return None
        atoms, bonds = cur.top.to_dataframe()
        variant = int(rng.integers(0, 3))
        if variant == 1:
            bonds2 = bonds[:, :2].copy()  # documented (n_bonds, 2) form: type/order not carried
            desc = "dataframe(bonds n x 2)"
            new = md.Topology.from_dataframe(atoms, bonds2)
            fields = [f for f in M.ALL_FIELDS if f not in ("chains.chain_id", "bonds.type", "bonds.order")]
        else:
            new = md.Topology.from_dataframe(atoms, bonds)
            fields = [f for f in M.ALL_FIELDS if f != "chains.chain_id"]
            eq_expected = True
        Fe = F
        # the fingerprint treats NaN as "no serial"; a None that comes back as float NaN is reported on its own
        if any(a[2] is None for a in F["atoms"]):
            if any(isinstance(a.serial, float) and a.serial != a.serial for a in new.atoms):
                run.viol("fp.dataframe", "dataframe:serial-None-becomes-NaN",
                         "an atom without serial (None) comes back from to_dataframe/from_dataframe with serial = float NaN")
            else:
                ctx.ok("fp.dataframe.missing-serial")
    elif op == "hdf5":
        if n == 0:
            ctx.skip("fp.hdf5", "empty topology")
            return None
        path = run.tmp(f"t{len(run.history)}.h5")
        variant = int(rng.integers(0, 3))
        fields = ["atoms.name", "atoms.element", "atoms.residue", "residues.name", "residues.resSeq", "residues.segment_id",
                  "residues.chain", "bonds.pairs"]
        Fe = F
        if variant == 0:
            desc = "hdf5(save_hdf5/load)"
            md.Trajectory(_grid_xyz(n, 2), cur.top).save_hdf5(path)
            new = md.load(path).topology
            eq_expected = all(t_ is None and o_ is None for (_, _, t_, o_) in F["bonds"])
        elif variant == 1:
            idx = _random_subset(rng, F)
            keyop = "hdf5.atom_indices"
            desc = f"hdf5(load atom_indices {len(idx)} of {n})"
            md.Trajectory(_grid_xyz(n, 2), cur.top).save_hdf5(path)
            new = md.load(path, atom_indices=np.array(idx, dtype=int)).topology
            Fe, res_old = M.restrict(F, idx)
        else:
            desc = "hdf5(HDF5TrajectoryFile.topology setter/getter)"
            from mdtraj.formats import HDF5TrajectoryFile
            with HDF5TrajectoryFile(path, "w") as f:
                f.topology = cur.top
                f.write(_grid_xyz(n, 1))
            with HDF5TrajectoryFile(path, "r") as f:
                new = f.topology
        os.remove(path)
    elif op == "pdb":
        return _op_pdb(run, k)
    else:
        raise AssertionError(op)

    run.history.append(desc)
    ctx.observe("op", op)
    if new is cur.top or any(new is e.top for e in run.pool):
        run.viol("fp." + op, f"{op}:returns-an-existing-object", f"{op} returned one of its inputs instead of a new topology")
        return None
    Fa = M.fingerprint(new)
    run.judge(keyop, Fe, Fa, fields, tx, monitor="fp." + op, res_old=res_old, extra_key=extra_key)
    run.source_unchanged(op, inputs)
    inv = run.check_invariants(keyop, new, run.inputs_inv(inputs))
    if eq_expected:
        run.eq_expect(op, cur.top, new)
    return run.add(new, op, parents, inv)


def _op_pdb(run, k):
    import mdtraj as md
    ctx, rng = run.ctx, run.rng
    cur = run.pool[k]
    F = cur.F
    n = len(F["atoms"])
    if n == 0:
        ctx.skip("fp.pdb", "empty topology")
        return None
    if any((not a[0]) or len(a[0]) > 4 or (a[0] != a[0].strip()) or a[1] is None for a in F["atoms"]) or \
            any(not r[0] for r in F["residues"]):
        ctx.skip("fp.pdb", "names outside what PDB columns can hold")
        return None
    if any(isinstance(a.serial, float) and a.serial != a.serial for a in cur.top.atoms):
        ctx.skip("fp.pdb", "an atom serial is NaN (reported under dataframe:serial-None-becomes-NaN)")
        return None
    ter = bool(rng.random() < 0.7)
    single = len(F["chains"]) == 1
    serial_kept = single and all(a[2] is not None for a in F["atoms"])
    cond = f"ter={ter}:serials={'kept' if serial_kept else 'renumbered'}"
    desc = f"pdb(save_pdb ter={ter}, {len(F['chains'])} chains)"
    run.history.append(desc)
    ctx.observe("op", "pdb")
    ctx.observe("pdb_condition", cond)
    path = run.tmp(f"t{len(run.history)}.pdb")
    md.Trajectory(_grid_xyz(n, 1), cur.top).save_pdb(path, ter=ter)
    with open(path) as fh:
        text = fh.read()
    P = M.parse_pdb_text(text)

    # ---------------- text level
    mon = "pdb.text"
    atoms = [r for r in P["records"] if r[0] == "ATOM"]
    bad = False
    if len(atoms) != n:
        run.viol(mon, "pdb.text:atom-count", f"{len(atoms)} ATOM records for {n} atoms")
        run.source_unchanged("pdb", [cur])
        return None
    chain_of_atom = [F["residues"][a[3]][3] for a in F["atoms"]]
    for i, (rec, a) in enumerate(zip(atoms, F["atoms"])):
        res = F["residues"][a[3]]
        cid = F["chains"][res[3]][0]
        exp = dict(name=a[0][:4], resName=res[0][:3], resSeq=res[1] % 10000, segment_id=(res[2] or "")[:4].strip(),
                   element=(a[1] or "").upper())
        got = dict(name=rec[2], resName=rec[3], resSeq=rec[5], segment_id=rec[6], element=rec[7].upper())
        if cid:
            exp["chain_id"], got["chain_id"] = cid[:1], rec[4]
        if serial_kept:
            exp["serial"], got["serial"] = a[2] % 100000, rec[1]
        for col in exp:
            if exp[col] != got[col]:
                run.viol(mon, f"pdb.text:column:{col}", f"ATOM record {i}: {col} is {got[col]!r}, topology has {exp[col]!r}", cond=cond)
                bad = True
        if bad:
            break
    serials = [r[1] for r in atoms]
    ter_serials = [r[1] for r in P["records"] if r[0] == "TER"]
    if max(serials) < 99999:
        if len(set(serials)) != len(serials) or set(serials) & set(s for s in ter_serials if s is not None):
            run.viol(mon, f"pdb.text:serials-not-unique:{cond}", "ATOM/TER serial numbers collide")
            bad = True
    # TER placement
    exp_seq = []
    for i in range(n):
        exp_seq.append("A")
        if ter and (i == n - 1 or chain_of_atom[i + 1] != chain_of_atom[i]):
            exp_seq.append("T")
    got_seq = ["A" if r[0] == "ATOM" else "T" for r in P["records"]]
    if exp_seq != got_seq:
        run.viol(mon, f"pdb.text:ter-placement:ter={ter}", "TER records are not exactly after the last atom of every chain")
        bad = True
    # CONECT
    pos = {}
    for i, s in enumerate(serials):
        pos.setdefault(s, i)
    bondset = {(i, j) for (i, j, _, _) in F["bonds"]}
    seen = set()
    conect_bad = None
    for rec in P["conect"]:
        if not rec:
            continue
        for s in rec:
            if s not in pos:
                conect_bad = conect_bad or (f"conect-inconsistent:{cond}", f"CONECT names serial {s}, which no ATOM record carries")
        if conect_bad:
            continue
        i0 = pos[rec[0]]
        for s in rec[1:]:
            p = (min(i0, pos[s]), max(i0, pos[s]))
            if p not in bondset:
                conect_bad = conect_bad or (f"conect-inconsistent:{cond}", f"CONECT {rec[0]} {s} joins atoms {p} which are not bonded")
            seen.add(p)
    if conect_bad is None:
        documented = M.conect_documented(F)
        missing = [p for p in documented if p not in seen]
        if missing:
            deg = {}
            for (i, j) in documented:
                deg[i] = deg.get(i, 0) + 1
                deg[j] = deg.get(j, 0) + 1
            if all(deg[i] > 4 and deg[j] > 4 for (i, j) in missing):
                conect_bad = ("conect-missing-bond:both-ends-have-more-than-4-partners",
                              f"{len(missing)} CONECT-documented bonds absent from both of their atoms' records, e.g. atoms {missing[0]} "
                              f"with {deg[missing[0][0]]} and {deg[missing[0][1]]} partners")
            else:
                conect_bad = (f"conect-inconsistent:{cond}", f"{len(missing)} CONECT-documented bonds absent, e.g. atoms {missing[0]}")
    if conect_bad:
        run.viol(mon, f"pdb.text:{conect_bad[0]}", conect_bad[1], cond=cond)
        bad = True
    ctx.observe("pdb_conect_records", "some" if P["conect"] else "none")
    if not bad:
        ctx.ok(mon)

    # ---------------- load level
    run.source_unchanged("pdb", [cur])
    if not _separable_residues(F, mod=10000, cut=3):
        ctx.skip("fp.pdb", "adjacent residues with identical (resSeq mod 10000, name[:3]): PDB cannot separate them")
        return None
    letters = [r[4] for r in atoms]
    for i in range(1, n):
        if chain_of_atom[i] != chain_of_atom[i - 1] and not ter and letters[i] == letters[i - 1]:
            ctx.skip("fp.pdb", "adjacent chains share the chain letter and no TER was requested: PDB cannot separate them")
            return None
    new = md.load(path, standard_names=False).topology
    os.remove(path)
    Fa = M.fingerprint(new)
    fields = ["atoms.name", "atoms.element", "atoms.residue", "residues.name", "residues.resSeq", "residues.segment_id",
              "residues.chain", "chains.chain_id"]
    tx = {"atoms.name": lambda v: v[:4], "residues.name": lambda v: v[:3],
          "residues.resSeq": lambda v: v % 10000, "residues.segment_id": lambda v: (v or "")[:4].strip(),
          "chains.chain_id": (lambda v: v[:1] if v else M.SKIP, lambda v: v)}
    if serial_kept:
        fields.append("atoms.serial")
        tx["atoms.serial"] = lambda v: v % 100000
    okfp = run.judge("pdb", F, Fa, fields, tx)
    if conect_bad:
        ctx.skip("fp.pdb.bonds", "the CONECT records of the file are already reported as inconsistent (pdb.text)")
    elif len(Fa["atoms"]) == n:
        loaded = {(i, j) for (i, j, _, _) in Fa["bonds"]}
        missing = [p for p in M.conect_documented(F) if p not in loaded]
        if missing:
            run.viol("fp.pdb", f"pdb:conect-bond-lost:{cond}", f"{len(missing)} CONECT-documented bonds missing after save/load, e.g. {missing[0]}", cond=cond)
        tmpl = M.template_residue_names(os.path.dirname(md.__file__))
        spurious = []
        for (i, j) in sorted(loaded - bondset):
            ri, rj = F["atoms"][i][3], F["atoms"][j][3]
            ni, nj = F["residues"][ri][0], F["residues"][rj][0]
            same_chain = F["residues"][ri][3] == F["residues"][rj][3]
            by_template = same_chain and abs(ri - rj) <= 1 and (ni in tmpl or nj in tmpl)
            disulfide = ni == "CYS" and nj == "CYS" and F["atoms"][i][0] == "SG" and F["atoms"][j][0] == "SG"
            if not (by_template or disulfide):
                spurious.append((i, j))
        if spurious:
            run.viol("fp.pdb", f"pdb:spurious-bond:{cond}", f"{len(spurious)} bonds after save/load that the topology never had, e.g. {spurious[0]}", cond=cond)
        if not missing and not spurious and okfp:
            ctx.ok("fp.pdb.bonds")
    inv = run.check_invariants("pdb", new, None)
    return run.add(new, "pdb", [k], inv)


# ------------------------------------------------------------------------------------------------ edits


def _edits(run):
    from mdtraj.core import element as elem
    from mdtraj.core import topology as T
    ctx, rng = run.ctx, run.rng
    cands = [i for i, e in enumerate(run.pool) if not e.frozen and len(e.F["atoms"]) <= 400]
    if not cands:
        ctx.skip("independence", "no editable pool member")
        return
    ei = cands[int(rng.integers(len(cands)))]
    E = run.pool[ei]
    G = M.fp_copy(E.F)
    bonds_ok = (E.inv_ok or {}).get("bond-ends-are-own-atoms", True) and (E.inv_ok or {}).get("atom-index-is-position", True)
    bonds_reason = None if bonds_ok else "bonds already hold foreign atoms (reported under invariant:...)"
    bt = {"Single": T.Single, "Double": T.Double, "Triple": T.Triple, "Aromatic": T.Aromatic, "Amide": T.Amide, None: None}
    anc_e = run.ancestors(ei)
    for _ in range(int(rng.integers(1, 4))):
        n = len(G["atoms"])
        kinds = ["insert", "rename", "add_bond", "delete"]
        kind = kinds[int(rng.integers(len(kinds)))]
        top = E.top
        residues = list(top.residues)
        if kind == "insert" and residues:
            ri = int(rng.integers(len(residues)))
            rlen = M.residue_len(G, ri)
            rpos = int(rng.integers(0, rlen + 1))
            index = M.residue_start(G, ri) + rpos
            el = common.ELEMENTS[int(rng.integers(len(common.ELEMENTS)))]
            e = elem.virtual_site if el == "VS" else elem.get_by_symbol(el)
            serial = int(rng.integers(1000, 2000))
            if index == n and rpos == rlen and rng.random() < 0.5:
                desc = f"insert_atom(append to residue {ri})"
                top.insert_atom("ZN1", e, residues[ri], serial=serial)
            else:
                desc = f"insert_atom(index={index}, rindex={rpos}, residue {ri}) of {n}"
                top.insert_atom("ZN1", e, residues[ri], index=index, rindex=rpos, serial=serial)
            G = M.m_insert_atom(G, index, "ZN1", e.symbol, serial, ri)
        elif kind == "delete" and n > 0:
            i = int(rng.integers(n))
            desc = f"delete_atom_by_index({i}) of {n}"
            top.delete_atom_by_index(i)
            G, bonded = M.m_delete_atom(G, i)
            if bonded and bonds_reason is None:
                bonds_reason = "delete_atom_by_index left the deleted atom's bonds behind (outside the statement)"
                ctx.observe("edit_note", "delete of a bonded atom leaves dangling bonds")
        elif kind == "add_bond" and n > 1:
            i, j = [int(x) for x in rng.choice(n, size=2, replace=False)]
            tname = common.BOND_TYPES[int(rng.integers(len(common.BOND_TYPES)))]
            order = [None, 1, 2, 3][int(rng.integers(4))]
            desc = f"add_bond({i},{j},{tname},{order})"
            top.add_bond(top.atom(i), top.atom(j), type=bt[tname], order=order)
            G = M.m_add_bond(G, i, j, tname, order)
        elif kind == "rename" and n > 0:
            what = int(rng.integers(0, 6))
            i = int(rng.integers(n))
            a = top.atom(i)
            ri = G["atoms"][i][3]
            ci = G["residues"][ri][3]
            if what == 0:
                a.name = "QQ"
                G["atoms"][i] = ("QQ",) + G["atoms"][i][1:]
                desc = f"atom[{i}].name="
            elif what == 1:
                a.serial = 7777
                G["atoms"][i] = G["atoms"][i][:2] + (7777,) + G["atoms"][i][3:]
                desc = f"atom[{i}].serial="
            elif what == 2:
                a.residue.name = "ZZZ"
                G["residues"][ri] = ("ZZZ",) + G["residues"][ri][1:]
                desc = f"residue[{ri}].name="
            elif what == 3:
                a.residue.resSeq = 4321
                G["residues"][ri] = G["residues"][ri][:1] + (4321,) + G["residues"][ri][2:]
                desc = f"residue[{ri}].resSeq="
            elif what == 4:
                a.residue.segment_id = "SEGZ"
                G["residues"][ri] = G["residues"][ri][:2] + ("SEGZ",) + G["residues"][ri][3:]
                desc = f"residue[{ri}].segment_id="
            else:
                a.residue.chain.chain_id = "Q"
                G["chains"][ci] = ("Q",)
                desc = f"chain[{ci}].chain_id="
        else:
            continue
        desc = f"edit pool[{ei}]({E.made_by}): {desc}"
        run.history.append(desc)
        ctx.observe("edit", kind)
        # the edited one follows the model
        Fa = M.fingerprint(E.top)
        fields = list(M.ALL_FIELDS)
        if bonds_reason:
            fields = [f for f in fields if not f.startswith("bonds.")]
            ctx.skip("edit-model", "bond fields: " + bonds_reason)
        diffs, _ = M.compare(G, Fa, fields)
        if diffs:
            for (f, k, e_, a_) in diffs:
                run.viol("edit-model", f"edit:{kind}:{f}", f"{desc}: {f} at {k}: expected {e_!r}, got {a_!r}")
        else:
            ctx.ok("edit-model")
        inv_now = run.check_invariants("edit:" + kind, E.top, E.inv_ok, skip_bonds_reason=bonds_reason)
        E.inv_ok = {nm: (E.inv_ok or {}).get(nm, True) and (inv_now[nm] or (nm == "bond-ends-are-own-atoms" and bool(bonds_reason)))
                    for nm in M.INVARIANTS}
        E.F = Fa
        if diffs:
            G = M.fp_copy(Fa)
        # everyone else keeps its fingerprint
        for oi, O in enumerate(run.pool):
            if oi == ei:
                continue
            Fo = M.fingerprint(O.top)
            d = M.differing_fields(O.F, Fo)
            if not d:
                ctx.ok("independence")
                continue
            if ei in run.ancestors(oi):
                rel = f"edit-of-ancestor-changes-{O.made_by}-product"
            elif oi in anc_e:
                rel = f"edit-of-{E.made_by}-product-changes-ancestor"
            else:
                rel = "edit-changes-unrelated-topology"
            run.viol("independence", f"independence:{rel}:{'+'.join(d)}",
                     f"{desc} changed pool[{oi}] ({O.made_by}) in {d}", edited=ei, changed=oi)
            O.F = Fo


# ------------------------------------------------------------------------------------------------ eq / hash


def _hash_cause(a, b, Fa, Fb):
    """which component hashes differ between two topologies that compare equal (observation through hash() only)"""
    causes = []
    ra, rb = list(a.residues), list(b.residues)
    if len(ra) == len(rb) == len(Fa["residues"]) == len(Fb["residues"]):
        f = set()
        for k, (x, y) in enumerate(zip(ra, rb)):
            if hash(x) != hash(y):
                cols = [nm for col, nm in ((0, "name"), (1, "resSeq"), (2, "segment_id")) if Fa["residues"][k][col] != Fb["residues"][k][col]]
                f.update(cols or ["unexplained"])
        causes.extend("residue-hash-uses-" + x for x in sorted(f))
    if [hash(x) for x in a.atoms] != [hash(x) for x in b.atoms]:
        causes.append("atom-hash")
    if [hash(x) for x in a.chains] != [hash(x) for x in b.chains]:
        causes.append("chain-hash")
    ha, hb = [hash(x) for x in a.bonds], [hash(x) for x in b.bonds]
    if ha != hb:
        causes.append("bond-list-order" if sorted(ha) == sorted(hb) else "bond-hash")
    return causes or ["unexplained"]


def _eq_hash(run, stage):
    ctx, rng = run.ctx, run.rng
    P = run.pool
    pairs = [(i, j) for i in range(len(P)) for j in range(i + 1, len(P))]
    if any(len(e.F["atoms"]) > 1000 for e in P) and len(pairs) > 6:
        pairs = pairs[:6]
    equal_pairs = []
    for (i, j) in pairs:
        a, b = P[i], P[j]
        try:
            same = bool(a.top == b.top)
        except Exception as exc:  # noqa
            run.viol("eq-hash", f"eq-hash:eq-raises-{type(exc).__name__}", f"pool[{i}] == pool[{j}] raised {exc!r}")
            continue
        if not same:
            ctx.observe("eq_pairs", "unequal")
            continue
        ctx.observe("eq_pairs", "equal")
        equal_pairs.append((i, j))
        ha, hb = hash(a.top), hash(b.top)
        if ha == hb:
            ctx.ok("eq-hash")
        else:
            Fa_, Fb_ = M.fingerprint(a.top), M.fingerprint(b.top)
            d = M.differing_fields(Fa_, Fb_)
            for cause in _hash_cause(a.top, b.top, Fa_, Fb_):
                run.viol("eq-hash", f"eq-hash:equal-but-hash-differs:{cause}",
                         f"pool[{i}] ({a.made_by}) == pool[{j}] ({b.made_by}) but their hashes differ ({cause}); fingerprints differ in {d}",
                         stage=stage)
    if stage != "pre-edit":
        return
    # a == b  =>  T(a) == T(b)
    for (i, j) in equal_pairs[:3]:
        a, b = P[i], P[j]
        n = len(a.F["atoms"])
        if n == 0 or n > 1000:
            continue
        tname = ["copy", "subset", "pickle", "join"][int(rng.integers(4))]
        if tname == "copy":
            ta, tb = a.top.copy(), b.top.copy()
        elif tname == "subset":
            idx = _random_subset(rng, a.F)
            ta, tb = a.top.subset(idx), b.top.subset(idx)
        elif tname == "pickle":
            ta, tb = pickle.loads(pickle.dumps(a.top)), pickle.loads(pickle.dumps(b.top))
        else:
            ta, tb = a.top.join(b.top), b.top.join(a.top)
        if ta == tb:
            ctx.ok("eq.preserved-by-transform")
        else:
            run.viol("eq.preserved-by-transform", f"eq:equal-inputs-unequal-after-{tname}",
                     f"pool[{i}] == pool[{j}] but {tname}(a) != {tname}(b)")


# ------------------------------------------------------------------------------------------------ cases


def _case_subsets(run):
    """all 2^n atom subsets of one small rich topology"""
    import itertools
    ctx = run.ctx
    n = run.case["n_atoms"]
    top = common.random_topology(run.rng, n, rich=True)
    F = M.fingerprint(top)
    inv0 = run.check_invariants("source", top, None)
    root = Entry(top, F, "source", (), inv0)
    ctx.observe("exhaustive_subsets_n", n)
    for r in range(0, n + 1):
        for idx in itertools.combinations(range(n), r):
            run.history[:] = [f"subset({list(idx)}) of {n}"]
            new = top.subset(list(idx))
            Fe, res_old = M.restrict(F, idx)
            run.judge("subset", Fe, M.fingerprint(new), res_old=res_old)
            run.check_invariants("subset", new, inv0)
    run.source_unchanged("subset", [root])


def run_case(case, ctx):
    run = Run(case, ctx)
    try:
        kind = case["kind"]
        ctx.observe("kind", kind)
        if kind == "subsets":
            _case_subsets(run)
            return
        if kind == "real":
            top = _load_real(case["src"])
            ctx.observe("real", case["src"])
            run.history.append(f"source real:{case['src']}")
            run.pool.append(Entry(top, M.fingerprint(top), "source", (), run.check_invariants("source:load", top, None), frozen=True))
            big = top.n_atoms > 1500
            ops = MEM_OPS + CARRIER_OPS
        else:
            top = _random_source(run, case["n_atoms"], case["rich"], case["repair"])
            run.history.append(f"source random n={case['n_atoms']} rich={case['rich']} repair={case['repair']}")
            run.add(top, "source", (), run.check_invariants("source", top, None))
            big = False
            ops = MEM_OPS + CARRIER_OPS
        k = 0
        for _ in range(case["length"]):
            op = ops[int(run.rng.integers(len(ops)))]
            if big and op in ("traj.stack", "join") and run.rng.random() < 0.5:
                op = "subset"
            r = _apply_op(run, op, k)
            if r is not None:
                k = r
        ctx.observe("pool_size", len(run.pool))
        _eq_hash(run, "pre-edit")
        _edits(run)
        _eq_hash(run, "post-edit")
    finally:
        run.cleanup()
