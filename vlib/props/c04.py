"""C04 — topology transformations preserve atoms, residues, chains and bonds.

Monitors (all observe the REAL mdtraj objects; expectations come from vlib/oracle/c04_model.py, which works on plain
tuples and never calls an mdtraj transformation):

* fp.<op>            differential oracle: fingerprint F(result) vs the model of the op applied to F(input), restricted to
                     the carrier profile of the op (fields a carrier cannot hold are not compared):
                       memory ops (copy, copy.copy, deepcopy, pickle, subset, join, traj.slice, traj.atom_slice,
                                   traj.stack)           -> every field
                       dataframe  -> everything except chain_id (the frame stores the chain *index*); domain: adjacent
                                     residues of a chain must differ in (resSeq, name) -- the frame has no residue index
                       hdf5       -> atom name/element, residue name/resSeq/segmentID, residue+chain grouping, bond pairs
                                     (docs/hdf5_format.rst: no serial, no chain id, no bond type/order)
                       pdb        -> name[:4], element, resName[:3], resSeq mod 10000, segment_id[:4], chain_id[:1]
                                     (only where one was given), serial only for single-chain topologies (the writer
                                     renumbers multi-chain files), CONECT bonds (an end in a non-standard residue or a
                                     CYS SG-SG bridge) must survive; bonds the reader adds from its residue templates are
                                     tolerated. Loaded with standard_names=False (the documented renaming is not judged).
* pdb.text           the written PDB text parsed independently (fixed columns): per-atom columns, unique serials, TER
                     after every chain iff ter=True, every CONECT number is an ATOM serial of the file, every CONECT pair
                     is a bond of the topology, every CONECT-documented bond is present.
* source-unchanged   F(input) is the same before and after every op.
* invariant.<name>   M4 structural invariants evaluated on every topology an op returns (plain explicit checks, counted):
                     _numAtoms/_numResidues counters, atom.index == position, chains->residues->atoms partition _atoms /
                     _residues in order, chain/residue indices contiguous, back pointers, both ends of every bond are the
                     very objects of this topology's _atoms.  Judged only when the op's inputs satisfied them.
* edit-model / independence   after the transform sequence one pool member is edited (insert_atom, delete_atom_by_index,
                     add_bond, renames); the edited one must follow the list model, every other one must keep its F.
* eq-hash            over all pairs of a case: a == b  =>  hash(a) == hash(b).
* eq.<op>            t == T(t) for field-preserving T; a == b => T(a) == T(b).

* wider alphabet (cases with wide=True; audit table in the docstring of _apply_wide): fp.<op> for other containers / entry-point twins /
                     option values of the same carriers, query.* (find_molecules = connected components of the model's bond list,
                     select_pairs = unique unordered pairs, Atom.n_bonds = degree; all leave the topology as it was), edits through
                     add_chain / add_residue / add_atom / element= / create_standard_bonds (bonds of residues.xml, parsed independently) /
                     create_disulfide_bonds (documented distance rule), and a transformation applied AFTER the edit block.

No numeric tolerance is involved anywhere (all comparisons are exact)."""
from __future__ import annotations

import copy as _copy
import os
import pickle
import shutil
import tempfile

import numpy as np

from vlib.gen import common
from vlib.oracle import c04_model as M

PROPERTY = "C04"
LEVEL = "exploration"
NATIVE = []
NEEDS_DEPS = False
RULE = ("cases = (source topology, transform sequence, edit block) drawn from a seeded stream: random multi-chain "
        "topologies (explicit/repeated chain ids, repeated/zero/negative resSeq, non-contiguous serials, segment ids, "
        "virtual sites, typed/ordered bonds across residues and chains) and real ones from tests/data; sequences of "
        "copy/deepcopy/pickle/subset/join/dataframe/hdf5/pdb/Trajectory slice, atom_slice, stack (<=4 quick, <=10 "
        "thorough) followed by edits on one side; 'subsets' cases enumerate ALL atom subsets of a small topology; a "
        "case is non-trivial when at least one monitor decided; distinct = distinct case descriptors; cases with wide=True add "
        "other entry points / containers / options (see _apply_wide), topologies with up to 12 chains, 10-60 atom residues, CYS/SG patterns, "
        "read-only queries judged against the model, builder / element / create_standard_bonds / create_disulfide_bonds edits and one "
        "transformation AFTER the edit block")
WORKERS = {"quick": 8, "thorough": 16}
BUDGET = {"quick": 150, "thorough": 900}
NCASES = {"quick": 8000, "thorough": 60000}
MAXLEN = {"quick": 4, "thorough": 10}
FLOORS = {"quick": {"fp.copy": 130, "fp.copy.copy": 130, "fp.deepcopy": 130, "fp.pickle": 130, "fp.subset": 700, "fp.join": 200,
                    "fp.dataframe": 130, "fp.hdf5": 130, "fp.pdb": 120, "pdb.text": 140, "fp.traj.slice": 120,
                    "fp.traj.atom_slice": 140, "fp.traj.stack": 120, "source-unchanged": 2000,
                    "invariant.bond-ends-are-own-atoms": 3500, "invariant.partition-in-order": 4500,
                    "invariant.atom-index-is-position": 4500, "independence": 3500, "edit-model": 1300, "eq-hash": 2500,
                    "eq.preserved-by-transform": 1200,
                    # wider alphabet (cases with wide=True, audit in the docstring of _apply_wide)
                    "fp.traj.join": 60, "fp.traj.pickle": 60, "fp.traj.remove_solvent": 60, "fp.traj.restrict_atoms": 60, "fp.subset.container": 120,
                    "fp.dataframe.variants": 100, "fp.hdf5.twins": 100, "fp.pdb.twins": 100, "query.find_molecules": 100, "query.select_pairs": 100,
                    "edit-model.bond-creation": 200}}
FLOORS["thorough"] = {k: v * 10 for k, v in FLOORS["quick"].items()}
ASSUMPTIONS = [
    "PDB files are re-read with standard_names=False; the documented renaming of non-standard names on read is not judged",
    "PDB resSeq is compared modulo 10000 and serial modulo 100000 (the writer's documented field widths)",
    "bonds that the PDB reader adds by itself from its residue templates (residues.xml) or CYS SG proximity are tolerated",
    "delete_atom_by_index leaves the bonds of the deleted atom in _bonds; the statement does not cover that, so bond "
    "comparisons and the bond-identity invariant are skipped on a topology after such a deletion",
    "HDF5 segmentID is compared although docs/hdf5_format.rst does not list it: the writer stores it",
]

REAL = ["native.pdb", "2EQQ.pdb", "4ZUO.pdb", "frame0.h5", "1vii_sustiva_water.pdb", "1bpi.pdb", "bpti.pdb", "issue_1611.pdb",
        "nonconsecutive_resSeq.pdb", "4OH9.pdb", "2koc.pdb", "alanine-dipeptide-explicit.pdb", "imatinib.pdb",
        "GG-tip4pew.pdb", "aaqaa-wat.pdb", "1am7_protein.pdb"]
MEM_OPS = ["copy", "copy.copy", "deepcopy", "pickle", "subset", "subset", "join", "traj.slice", "traj.atom_slice", "traj.stack"]
CARRIER_OPS = ["dataframe", "hdf5", "pdb"]
# wider alphabet (cases with wide=True): entry points, containers and option values the lists above never use
WIDE_OPS = ["traj.join", "traj.pickle", "traj.deepcopy", "traj.remove_solvent", "traj.restrict_atoms", "subset.container", "subset.container",
            "pickle.lowproto", "queries", "queries", "dataframe.variants", "dataframe.variants", "hdf5.twins", "hdf5.twins", "pdb.twins", "pdb.twins"]
NWIDE = {"quick": 2600, "thorough": 24000}


def _data_dir():
    return os.path.join(os.environ.get("VERIF_REPO", "/repo"), "tests", "data")


def gen_cases(tier, seed):
    n = NCASES[tier]
    for i in range(n):
        rng = common.rng_for("C04", seed, i)
        u = rng.random()
        cs = common.case_seed(seed, "C04", i)
        if u < 0.04:
            yield dict(i=i, seed=cs, kind="real", src=REAL[int(rng.integers(len(REAL)))], length=int(rng.integers(1, 4)))
        elif u < (0.07 if tier == "quick" else 0.10):
            yield dict(i=i, seed=cs, kind="subsets", n_atoms=int(rng.integers(1, 7 if tier == "quick" else 11)))
        else:
            yield dict(i=i, seed=cs, kind="seq", n_atoms=int(rng.choice([1, 2, 3, 5, 8, 13, 21, 34, 55])),
                       rich=bool(rng.random() < 0.85), repair=bool(rng.random() < 0.7),
                       length=int(rng.integers(1, MAXLEN[tier] + 1)))
    for j in range(NWIDE[tier]):
        i = n + j
        rng = common.rng_for("C04w", seed, j)
        cs = common.case_seed(seed, "C04w", j)
        if rng.random() < 0.06:
            yield dict(i=i, seed=cs, kind="real", wide=True, src=REAL[int(rng.integers(len(REAL)))], length=int(rng.integers(1, 3)))
        else:
            yield dict(i=i, seed=cs, kind="seq", wide=True, n_atoms=int(rng.choice([1, 2, 4, 7, 12, 20, 33, 54, 89, 144])),
                       rich=bool(rng.random() < 0.85), repair=bool(rng.random() < 0.8), shape=str(rng.choice(["plain", "plain", "many-chains", "big-residues", "cys"])),
                       length=int(rng.integers(1, MAXLEN[tier] + 1)))


# ------------------------------------------------------------------------------------------------ helpers

_REAL_CACHE = {}


def _load_real(name):
    import mdtraj as md
    if name not in _REAL_CACHE:
        path = os.path.join(_data_dir(), name)
        if name.endswith(".h5"):
            t = md.load_frame(path, 0)
        else:
            t = md.load_frame(path, 0)
        _REAL_CACHE[name] = t.topology
    return _REAL_CACHE[name]


def _grid_xyz(n, n_frames=1):
    a = np.arange(n)
    x = np.stack([(a % 20) * 0.4, ((a // 20) % 20) * 0.4, (a // 400) * 0.4], axis=-1).astype(np.float32)
    return np.repeat(x[None], n_frames, axis=0)


def _separable_residues(F, mod=None, cut=None):
    """adjacent residues of one chain differ in (resSeq, name): needed by carriers without a residue index"""
    R = F["residues"]
    for k in range(1, len(R)):
        if R[k][3] != R[k - 1][3]:
            continue
        a, b = R[k - 1], R[k]
        ka = (a[1] % mod if mod else a[1], a[0][:cut] if cut else a[0])
        kb = (b[1] % mod if mod else b[1], b[0][:cut] if cut else b[0])
        if ka == kb:
            return False
    return True


def _repair_adjacent(top, rng):
    """input generation: make adjacent residues of a chain distinguishable by (resSeq, name) (public attributes)"""
    for ch in top.chains:
        prev = None
        for r in ch.residues:
            if prev is not None and (r.resSeq % 10000, r.name[:3]) == (prev.resSeq % 10000, prev.name[:3]):
                r.resSeq = prev.resSeq + int(rng.integers(1, 4))
            prev = r


def _has_empty(F):
    """a chain without residues or a residue without atoms (only possible after add_chain / add_residue edits): subsetting drops them"""
    return len({a[3] for a in F["atoms"]}) < len(F["residues"]) or len({r[3] for r in F["residues"]}) < len(F["chains"])


class Entry:
    __slots__ = ("top", "F", "made_by", "parents", "inv_ok", "frozen")

    def __init__(self, top, F, made_by, parents=(), inv_ok=None, frozen=False):
        self.top, self.F, self.made_by, self.parents, self.inv_ok, self.frozen = top, F, made_by, tuple(parents), inv_ok, frozen


class Run:
    def __init__(self, case, ctx):
        self.case, self.ctx = case, ctx
        self.rng = common.rng_for("C04case", case["seed"])
        self.pool = []
        self.history = []
        self._tmp = None

    # -- scratch
    def tmp(self, name):
        if self._tmp is None:
            self._tmp = tempfile.mkdtemp(prefix="c04-", dir="/var/tmp")
        return os.path.join(self._tmp, name)

    def cleanup(self):
        if self._tmp is not None:
            shutil.rmtree(self._tmp, ignore_errors=True)

    # -- recording
    def viol(self, monitor, key, what, **detail):
        self.ctx.violation(monitor, key, what, history=self.history[-12:], **detail)

    def ancestors(self, k):
        out, todo = set(), list(self.pool[k].parents)
        while todo:
            p = todo.pop()
            if p not in out:
                out.add(p)
                todo.extend(self.pool[p].parents)
        return out

    # -- invariants
    def check_invariants(self, op, top, inputs_ok, skip_bonds_reason=None):
        """inputs_ok: {invariant: bool} conjunction over the op's inputs (None = no inputs). Returns {inv: bool}."""
        res = M.invariants(top)
        out = {}
        for name in M.INVARIANTS:
            msg = res[name]
            out[name] = msg is None
            mon = "invariant." + name
            if name == "bond-ends-are-own-atoms" and skip_bonds_reason:
                self.ctx.skip(mon, skip_bonds_reason)
                continue
            if inputs_ok is not None and not inputs_ok.get(name, True):
                self.ctx.skip(mon, "an input of the op already violates it (reported where it first appeared)")
                continue
            if msg is None:
                self.ctx.ok(mon)
            else:
                self.viol(mon, f"invariant:{op}:{name}", f"after {op}: {msg}", op=op)
        return out

    # -- fingerprint judgement
    def judge(self, op, Fe, Fa, fields=None, tx=None, monitor=None, res_old=None, extra_key=""):
        monitor = monitor or ("fp." + op)
        diffs, ncmp = M.compare(Fe, Fa, fields, tx)
        self.ctx.observe("fields_compared", op, ncmp)
        if not diffs:
            self.ctx.ok(monitor)
            return True
        for (f, k, e, a) in diffs:
            key = f"{op}:{f}{extra_key if f == 'residues.resSeq' else ''}"
            if f == "chains.chain_id":
                exp_ids = [c[0] for c in Fe["chains"]]
                act_ids = [c[0] for c in Fa["chains"]]
                if all(x is None for x in act_ids) and any(x is not None for x in exp_ids):
                    key = f"{op}:chain_id-dropped"
            if f == "residues.resSeq" and res_old is not None:
                bad = [(r, Fe["residues"][r][1], Fa["residues"][r][1]) for r in range(len(Fe["residues"]))
                       if Fe["residues"][r][1] != Fa["residues"][r][1]]
                if bad and all(e_ == 0 and a_ == res_old[r] for (r, e_, a_) in bad):
                    key = f"{op}:resSeq-0-replaced-by-residue-index"
            self.viol(monitor, key, f"{op}: {f} differs at position {k}: expected {e!r}, got {a!r}", op=op, field=f)
        return False

    def source_unchanged(self, op, entries):
        for e in entries:
            Fnow = M.fingerprint(e.top)
            d = M.differing_fields(e.F, Fnow)
            if d:
                self.viol("source-unchanged", f"source-changed:{op}:{'+'.join(d)}", f"{op} altered its input topology in {d}", op=op)
                e.F = Fnow
            else:
                self.ctx.ok("source-unchanged")

    def inputs_inv(self, entries):
        out = {}
        for name in M.INVARIANTS:
            out[name] = all((e.inv_ok or {}).get(name, True) for e in entries)
        return out

    def add(self, top, made_by, parents, inv_ok):
        self.pool.append(Entry(top, M.fingerprint(top), made_by, parents, inv_ok))
        return len(self.pool) - 1

    def eq_expect(self, op, a, b):
        """t == T(t) for a field-preserving T"""
        try:
            r = (a == b)
        except Exception as exc:  # noqa
            self.viol("eq." + op, f"eq:{op}:raises-{type(exc).__name__}", f"t == {op}(t) raised {exc!r}")
            return
        if r:
            self.ctx.ok("eq." + op)
        else:
            self.viol("eq." + op, f"eq:{op}:not-equal-to-source", f"t == {op}(t) is False")


# ------------------------------------------------------------------------------------------------ source topologies


def _random_source(run, n_atoms, rich, repair):
    rng = run.rng
    shape = run.case.get("shape", "plain")
    top = common.random_topology(rng, n_atoms, rich=rich, max_chain=12 if shape == "many-chains" else 4)
    if shape != "plain":
        run.ctx.observe("source_shape", shape)
    if shape == "big-residues" and top.n_residues > 1:
        # residues of 10..60 atoms: merge runs of residues by rebuilding through the public API (names / serials kept)
        top = _merge_residues(top, rng)
    if shape == "cys":
        for r in top.residues:
            if rng.random() < 0.6:
                r.name = "CYS"
                atoms = list(r.atoms)
                atoms[int(rng.integers(len(atoms)))].name = "SG"
                if len(atoms) > 2 and rng.random() < 0.2:
                    atoms[0 if atoms[0].name != "SG" else 1].name = "HG"
    # widen the numeric ranges through public attributes: 4-column resSeq / 5-column serial wrap-around of PDB, large values
    u = rng.random()
    if rich and u < 0.25:
        off = int(rng.choice([990, 9990, 10005, 123456]))
        for r in top.residues:
            r.resSeq = r.resSeq + off
        run.ctx.observe("resSeq_offset", off)
    if rich and rng.random() < 0.1:
        off = int(rng.choice([99950, 250000]))
        for a in top.atoms:
            a.serial = a.serial + off
        run.ctx.observe("serial_offset", off)
    if repair:
        _repair_adjacent(top, rng)
    return top


def _merge_residues(top, rng):
    import mdtraj as md
    new = md.Topology()
    amap = {}
    for ch in top.chains:
        c = new.add_chain(ch.chain_id)
        res, budget = None, 0
        for r in ch.residues:
            if res is None or budget <= 0:
                res = new.add_residue(r.name, c, r.resSeq, r.segment_id)
                budget = int(rng.integers(10, 60))
            for a in r.atoms:
                amap[a.index] = new.add_atom(a.name, a.element, res, serial=a.serial)
                budget -= 1
    for b in top.bonds:
        new.add_bond(amap[b[0].index], amap[b[1].index], type=b.type, order=b.order)
    return new


def _random_subset(rng, F):
    n = len(F["atoms"])
    mode = int(rng.integers(0, 7))
    if n == 0:
        return []
    if mode == 0:
        return list(range(n))
    if mode == 1:
        return [int(rng.integers(n))]
    if mode == 2 and len(F["residues"]) > 1:  # drop whole residues
        drop = set(int(x) for x in rng.choice(len(F["residues"]), size=int(rng.integers(1, len(F["residues"]))), replace=False))
        idx = [i for i, a in enumerate(F["atoms"]) if a[3] not in drop]
        return idx or [0]
    if mode == 3 and len(F["chains"]) > 1:  # drop whole chains
        drop = set(int(x) for x in rng.choice(len(F["chains"]), size=int(rng.integers(1, len(F["chains"]))), replace=False))
        idx = [i for i, a in enumerate(F["atoms"]) if F["residues"][a[3]][3] not in drop]
        return idx or [0]
    if mode == 4 and n > 2:  # a contiguous window
        lo = int(rng.integers(0, n - 1))
        hi = int(rng.integers(lo + 1, n + 1))
        return list(range(lo, hi))
    p = float(rng.choice([0.2, 0.5, 0.8]))
    idx = [i for i in range(n) if rng.random() < p]
    return idx or [int(rng.integers(n))]


# ------------------------------------------------------------------------------------------------ ops


def _apply_op(run, op, k):
    """apply op to pool[k]; returns index of the new pool entry, or None when the op was skipped"""
    import mdtraj as md
    ctx, rng = run.ctx, run.rng
    cur = run.pool[k]
    F = cur.F
    n = len(F["atoms"])
    inputs = [cur]
    parents = [k]
    fields, tx, res_old, extra_key = None, None, None, ""
    eq_expected = False
    desc = op
    keyop = op

    if op in ("copy", "copy.copy", "deepcopy"):
        new = cur.top.copy() if op == "copy" else (_copy.copy(cur.top) if op == "copy.copy" else _copy.deepcopy(cur.top))
        Fe = F
        eq_expected = True
    elif op == "pickle":
        proto = int(rng.integers(2, pickle.HIGHEST_PROTOCOL + 1))
        desc = f"pickle(protocol={proto})"
        new = pickle.loads(pickle.dumps(cur.top, protocol=proto))
        Fe = F
        eq_expected = True
    elif op in ("subset", "traj.atom_slice"):
        idx = _random_subset(rng, F)
        as_array = bool(rng.random() < 0.5)
        arg = np.array(idx, dtype=int) if as_array else list(idx)
        Fe, res_old = M.restrict(F, idx)
        if op == "subset":
            desc = f"subset({len(idx)} of {n}, {'ndarray' if as_array else 'list'})"
            new = cur.top.subset(arg)
        else:
            inplace = bool(rng.random() < 0.4)
            desc = f"traj.atom_slice({len(idx)} of {n}, inplace={inplace})"
            t = md.Trajectory(_grid_xyz(n, 2), cur.top)
            t2 = t.atom_slice(arg, inplace=inplace)
            if inplace and t2 is not t:
                run.viol("fp.traj.atom_slice", "traj.atom_slice:inplace-returns-other-object", "atom_slice(inplace=True) did not return self")
            new = t2.topology
            if t2.xyz.shape[1] != len(idx):
                run.viol("fp.traj.atom_slice", "traj.atom_slice:xyz-shape", f"xyz has {t2.xyz.shape[1]} atoms, expected {len(idx)}")
        eq_expected = len(idx) == n and not _has_empty(F)
        ctx.observe("subset_shape", "all" if len(idx) == n else ("empties-chain" if len(Fe["chains"]) < len(F["chains"]) else
                                                                 ("empties-residue" if len(Fe["residues"]) < len(F["residues"]) else "partial")))
    elif op in ("join", "traj.stack"):
        if n == 0:
            ctx.skip("fp." + op, "join on an empty topology is outside the domain")
            return None
        which = int(rng.integers(0, 3))
        if which == 0:
            oi = k
        elif which == 1 and len(run.pool) > 1:
            oi = int(rng.integers(len(run.pool)))
        else:
            ot = common.random_topology(rng, int(rng.integers(1, 12)), rich=bool(rng.random() < 0.8))
            oi = run.add(ot, "source", (), run.check_invariants("source", ot, None))
        other = run.pool[oi]
        if len(other.F["atoms"]) > 3000 and n > 3000:
            ctx.skip("fp." + op, "both operands large (cost)")
            return None
        keep = bool(rng.random() < 0.5)
        desc = f"{op}(other=pool[{oi}], keep_resSeq={keep})"
        extra_key = f"(keep_resSeq={keep})"
        Fe = M.concat(F, other.F, keep)
        if other is not cur:
            inputs.append(other)
            parents.append(oi)
        if op == "join":
            new = cur.top.join(other.top, keep_resSeq=keep)
            # the same join with the other keep_resSeq value: a natural pair differing only in resSeq (for eq/hash)
            if rng.random() < 0.5 and n + len(other.F["atoms"]) < 200:
                alt = cur.top.join(other.top, keep_resSeq=not keep)
                run.judge("join", M.concat(F, other.F, not keep), M.fingerprint(alt), extra_key=f"(keep_resSeq={not keep})")
                run.add(alt, "join", parents, run.check_invariants("join", alt, run.inputs_inv(inputs)))
        else:
            t1 = md.Trajectory(_grid_xyz(n, 2), cur.top)
            t2 = md.Trajectory(_grid_xyz(len(other.F["atoms"]), 2), other.top)
            new = t1.stack(t2, keep_resSeq=keep).topology
    elif op == "traj.slice":
        t = md.Trajectory(_grid_xyz(n, 3), cur.top)
        key = [1, slice(0, 2), [0, 2]][int(rng.integers(3))]
        desc = f"traj[{key!r}]"
        new = t[key].topology
        Fe = F
        eq_expected = True
    elif op == "dataframe":
        if not _separable_residues(F):
            ctx.skip("fp.dataframe", "adjacent residues with identical (resSeq, name): a data frame cannot separate them")
            return None
        if n == 0:
            ctx.skip("fp.dataframe", "empty topology")
            return None
        atoms, bonds = cur.top.to_dataframe()
        variant = int(rng.integers(0, 3))
        if variant == 1:
            bonds2 = bonds[:, :2].copy()  # documented (n_bonds, 2) form: type/order not carried
            desc = "dataframe(bonds n x 2)"
            new = md.Topology.from_dataframe(atoms, bonds2)
            fields = [f for f in M.ALL_FIELDS if f not in ("chains.chain_id", "bonds.type", "bonds.order")]
        else:
            new = md.Topology.from_dataframe(atoms, bonds)
            fields = [f for f in M.ALL_FIELDS if f != "chains.chain_id"]
            eq_expected = True
        Fe = F
        # the fingerprint treats NaN as "no serial"; a None that comes back as float NaN is reported on its own
        if any(a[2] is None for a in F["atoms"]):
            if any(isinstance(a.serial, float) and a.serial != a.serial for a in new.atoms):
                run.viol("fp.dataframe", "dataframe:serial-None-becomes-NaN",
                         "an atom without serial (None) comes back from to_dataframe/from_dataframe with serial = float NaN")
            else:
                ctx.ok("fp.dataframe.missing-serial")
    elif op == "hdf5":
        if n == 0:
            ctx.skip("fp.hdf5", "empty topology")
            return None
        path = run.tmp(f"t{len(run.history)}.h5")
        variant = int(rng.integers(0, 3))
        fields = ["atoms.name", "atoms.element", "atoms.residue", "residues.name", "residues.resSeq", "residues.segment_id",
                  "residues.chain", "bonds.pairs"]
        Fe = F
        if variant == 0:
            desc = "hdf5(save_hdf5/load)"
            md.Trajectory(_grid_xyz(n, 2), cur.top).save_hdf5(path)
            new = md.load(path).topology
            eq_expected = all(t_ is None and o_ is None for (_, _, t_, o_) in F["bonds"])
        elif variant == 1:
            idx = _random_subset(rng, F)
            keyop = "hdf5.atom_indices"
            desc = f"hdf5(load atom_indices {len(idx)} of {n})"
            md.Trajectory(_grid_xyz(n, 2), cur.top).save_hdf5(path)
            new = md.load(path, atom_indices=np.array(idx, dtype=int)).topology
            Fe, res_old = M.restrict(F, idx)
        else:
            desc = "hdf5(HDF5TrajectoryFile.topology setter/getter)"
            from mdtraj.formats import HDF5TrajectoryFile
            with HDF5TrajectoryFile(path, "w") as f:
                f.topology = cur.top
                f.write(_grid_xyz(n, 1))
            with HDF5TrajectoryFile(path, "r") as f:
                new = f.topology
        os.remove(path)
    elif op == "pdb":
        return _op_pdb(run, k)
    elif op == "pdb.twins":
        return _op_pdb_twin(run, k)
    elif op in WIDE_OPS:
        w = _apply_wide(run, op, k)
        if w is None:
            return None
        new, Fe, desc = w["new"], w["Fe"], w["desc"]
        fields, tx, res_old, keyop, eq_expected = w.get("fields"), w.get("tx"), w.get("res_old"), w.get("keyop", op), w.get("eq", False)
    else:
        raise AssertionError(op)

    run.history.append(desc)
    ctx.observe("op", op)
    if new is cur.top or any(new is e.top for e in run.pool):
        run.viol("fp." + op, f"{op}:returns-an-existing-object", f"{op} returned one of its inputs instead of a new topology")
        return None
    Fa = M.fingerprint(new)
    run.judge(keyop, Fe, Fa, fields, tx, monitor="fp." + op, res_old=res_old, extra_key=extra_key)
    run.source_unchanged(op, inputs)
    inv = run.check_invariants(keyop, new, run.inputs_inv(inputs))
    if eq_expected:
        run.eq_expect(op, cur.top, new)
    return run.add(new, op, parents, inv)


def _op_pdb(run, k):
    import mdtraj as md
    ctx, rng = run.ctx, run.rng
    cur = run.pool[k]
    F = cur.F
    n = len(F["atoms"])
    if n == 0:
        ctx.skip("fp.pdb", "empty topology")
        return None
    if any((not a[0]) or len(a[0]) > 4 or (a[0] != a[0].strip()) or a[1] is None for a in F["atoms"]) or \
            any(not r[0] for r in F["residues"]):
        ctx.skip("fp.pdb", "names outside what PDB columns can hold")
        return None
    if any(isinstance(a.serial, float) and a.serial != a.serial for a in cur.top.atoms):
        ctx.skip("fp.pdb", "an atom serial is NaN (reported under dataframe:serial-None-becomes-NaN)")
        return None
    ter = bool(rng.random() < 0.7)
    single = len(F["chains"]) == 1
    serial_kept = single and all(a[2] is not None for a in F["atoms"])
    cond = f"ter={ter}:serials={'kept' if serial_kept else 'renumbered'}"
    desc = f"pdb(save_pdb ter={ter}, {len(F['chains'])} chains)"
    run.history.append(desc)
    ctx.observe("op", "pdb")
    ctx.observe("pdb_condition", cond)
    path = run.tmp(f"t{len(run.history)}.pdb")
    md.Trajectory(_grid_xyz(n, 1), cur.top).save_pdb(path, ter=ter)
    with open(path) as fh:
        text = fh.read()
    P = M.parse_pdb_text(text)

    # ---------------- text level
    mon = "pdb.text"
    atoms = [r for r in P["records"] if r[0] == "ATOM"]
    bad = False
    if len(atoms) != n:
        run.viol(mon, "pdb.text:atom-count", f"{len(atoms)} ATOM records for {n} atoms")
        run.source_unchanged("pdb", [cur])
        return None
    chain_of_atom = [F["residues"][a[3]][3] for a in F["atoms"]]
    for i, (rec, a) in enumerate(zip(atoms, F["atoms"])):
        res = F["residues"][a[3]]
        cid = F["chains"][res[3]][0]
        exp = dict(name=a[0][:4], resName=res[0][:3], resSeq=res[1] % 10000, segment_id=(res[2] or "")[:4].strip(),
                   element=(a[1] or "").upper())
        got = dict(name=rec[2], resName=rec[3], resSeq=rec[5], segment_id=rec[6], element=rec[7].upper())
        if cid:
            exp["chain_id"], got["chain_id"] = cid[:1], rec[4]
        if serial_kept:
            exp["serial"], got["serial"] = a[2] % 100000, rec[1]
        for col in exp:
            if exp[col] != got[col]:
                run.viol(mon, f"pdb.text:column:{col}", f"ATOM record {i}: {col} is {got[col]!r}, topology has {exp[col]!r}", cond=cond)
                bad = True
        if bad:
            break
    serials = [r[1] for r in atoms]
    ter_serials = [r[1] for r in P["records"] if r[0] == "TER"]
    if max(serials) < 99999:
        if len(set(serials)) != len(serials) or set(serials) & set(s for s in ter_serials if s is not None):
            run.viol(mon, f"pdb.text:serials-not-unique:{cond}", "ATOM/TER serial numbers collide")
            bad = True
    # TER placement
    exp_seq = []
    for i in range(n):
        exp_seq.append("A")
        if ter and (i == n - 1 or chain_of_atom[i + 1] != chain_of_atom[i]):
            exp_seq.append("T")
    got_seq = ["A" if r[0] == "ATOM" else "T" for r in P["records"]]
    if exp_seq != got_seq:
        run.viol(mon, f"pdb.text:ter-placement:ter={ter}", "TER records are not exactly after the last atom of every chain")
        bad = True
    # CONECT
    pos = {}
    for i, s in enumerate(serials):
        pos.setdefault(s, i)
    bondset = {(i, j) for (i, j, _, _) in F["bonds"]}
    seen = set()
    conect_bad = None
    for rec in P["conect"]:
        if not rec:
            continue
        for s in rec:
            if s not in pos:
                conect_bad = conect_bad or (f"conect-inconsistent:{cond}", f"CONECT names serial {s}, which no ATOM record carries")
        if conect_bad:
            continue
        i0 = pos[rec[0]]
        for s in rec[1:]:
            p = (min(i0, pos[s]), max(i0, pos[s]))
            if p not in bondset:
                conect_bad = conect_bad or (f"conect-inconsistent:{cond}", f"CONECT {rec[0]} {s} joins atoms {p} which are not bonded")
            seen.add(p)
    if conect_bad is None:
        documented = M.conect_documented(F)
        missing = [p for p in documented if p not in seen]
        if missing:
            deg = {}
            for (i, j) in documented:
                deg[i] = deg.get(i, 0) + 1
                deg[j] = deg.get(j, 0) + 1
            if all(deg[i] > 4 and deg[j] > 4 for (i, j) in missing):
                conect_bad = ("conect-missing-bond:both-ends-have-more-than-4-partners",
                              f"{len(missing)} CONECT-documented bonds absent from both of their atoms' records, e.g. atoms {missing[0]} "
                              f"with {deg[missing[0][0]]} and {deg[missing[0][1]]} partners")
            else:
                conect_bad = (f"conect-inconsistent:{cond}", f"{len(missing)} CONECT-documented bonds absent, e.g. atoms {missing[0]}")
    if conect_bad:
        run.viol(mon, f"pdb.text:{conect_bad[0]}", conect_bad[1], cond=cond)
        bad = True
    ctx.observe("pdb_conect_records", "some" if P["conect"] else "none")
    if not bad:
        ctx.ok(mon)

    # ---------------- load level
    run.source_unchanged("pdb", [cur])
    if not _separable_residues(F, mod=10000, cut=3):
        ctx.skip("fp.pdb", "adjacent residues with identical (resSeq mod 10000, name[:3]): PDB cannot separate them")
        return None
    letters = [r[4] for r in atoms]
    for i in range(1, n):
        if chain_of_atom[i] != chain_of_atom[i - 1] and not ter and letters[i] == letters[i - 1]:
            ctx.skip("fp.pdb", "adjacent chains share the chain letter and no TER was requested: PDB cannot separate them")
            return None
    new = md.load(path, standard_names=False).topology
    os.remove(path)
    Fa = M.fingerprint(new)
    fields = ["atoms.name", "atoms.element", "atoms.residue", "residues.name", "residues.resSeq", "residues.segment_id",
              "residues.chain", "chains.chain_id"]
    tx = {"atoms.name": lambda v: v[:4], "residues.name": lambda v: v[:3],
          "residues.resSeq": lambda v: v % 10000, "residues.segment_id": lambda v: (v or "")[:4].strip(),
          "chains.chain_id": (lambda v: v[:1] if v else M.SKIP, lambda v: v)}
    if serial_kept:
        fields.append("atoms.serial")
        tx["atoms.serial"] = lambda v: v % 100000
    okfp = run.judge("pdb", F, Fa, fields, tx)
    if conect_bad:
        ctx.skip("fp.pdb.bonds", "the CONECT records of the file are already reported as inconsistent (pdb.text)")
    elif len(Fa["atoms"]) == n:
        loaded = {(i, j) for (i, j, _, _) in Fa["bonds"]}
        missing = [p for p in M.conect_documented(F) if p not in loaded]
        if missing:
            run.viol("fp.pdb", f"pdb:conect-bond-lost:{cond}", f"{len(missing)} CONECT-documented bonds missing after save/load, e.g. {missing[0]}", cond=cond)
        tmpl = M.template_residue_names(os.path.dirname(md.__file__))
        spurious = []
        for (i, j) in sorted(loaded - bondset):
            ri, rj = F["atoms"][i][3], F["atoms"][j][3]
            ni, nj = F["residues"][ri][0], F["residues"][rj][0]
            same_chain = F["residues"][ri][3] == F["residues"][rj][3]
            by_template = same_chain and abs(ri - rj) <= 1 and (ni in tmpl or nj in tmpl)
            disulfide = ni == "CYS" and nj == "CYS" and F["atoms"][i][0] == "SG" and F["atoms"][j][0] == "SG"
            if not (by_template or disulfide):
                spurious.append((i, j))
        if spurious:
            run.viol("fp.pdb", f"pdb:spurious-bond:{cond}", f"{len(spurious)} bonds after save/load that the topology never had, e.g. {spurious[0]}", cond=cond)
        if not missing and not spurious and okfp:
            ctx.ok("fp.pdb.bonds")
    inv = run.check_invariants("pdb", new, None)
    return run.add(new, "pdb", [k], inv)


# ------------------------------------------------------------------------------------------------ wider alphabet


def _solvent_names():
    from mdtraj.core.trajectory import _SOLVENT_TYPES  # the documented list of solvent residue names (data, not a transformation)
    return set(_SOLVENT_TYPES)


def _apply_wide(run, op, k):
    """Entry points / containers / option values the original op lists never use.  Returns dict(new, Fe, desc, ...) for the common
    tail of _apply_op, or None (skipped, or judged here).

    audit (function -> parameters -> covered before / added here / left out):
      Topology.copy / __copy__ / __deepcopy__ / pickle      all before; pickle protocols 0 and 1 added
      Topology.subset(atom_indices)                          list, int64 ndarray before; tuple, range, int32, uint16, strided view, generator-free
                                                             containers added; bool masks / unsorted / duplicated indices are outside the quantifier
                                                             ("strictly increasing atom subsets"; bool masks are refused with TypeError)
      Topology.join(other, keep_resSeq)                      both values, self-join, pool member, fresh operand before
      to_dataframe / from_dataframe(atoms, bonds)            bonds (n,4), (n,2) before; bonds=None, frame without segmentID column, frame edited
                                                             between the two calls (renamed residue), integer-typed bond array added
      HDF5                                                    save_hdf5+load, load(atom_indices), file.topology setter/getter before; load_topology,
                                                             load_frame, load(frame=), load(stride=), iterload(chunk, atom_indices), md.open().read_as_traj,
                                                             save(mode='a') twins added
      PDB                                                     save_pdb(ter)+load(standard_names=False) before; pdb.gz, header=False, bfactors, 2 models,
                                                             load_topology, load_frame, load_pdb(atom_indices / frame=), PDBTrajectoryFile.topology twins added
      Trajectory carriers                                     slice, atom_slice(inplace), stack before; join (deepcopy of the topology), pickle / deepcopy of
                                                             the Trajectory, remove_solvent(exclude), restrict_atoms added
      read-only queries                                       none before; find_molecules, select_pairs, to_fasta, atoms_by_name, select_atom_indices on
                                                             results (value from the model where defined, source unchanged) added
      edits                                                   insert_atom, delete_atom_by_index, add_bond, renames before; add_chain / add_residue / add_atom on
                                                             the transformed topology, element change, create_standard_bonds, create_disulfide_bonds added
      left out: to_openmm / from_openmm (openmm not importable), to_bondgraph (networkx not importable: observed as ImportError)."""
    import mdtraj as md
    ctx, rng = run.ctx, run.rng
    cur = run.pool[k]
    F = cur.F
    n = len(F["atoms"])
    if n == 0:
        ctx.skip("fp." + op, "empty topology")
        return None
    if op == "pickle.lowproto":
        proto = int(rng.integers(0, 2))
        return dict(new=pickle.loads(pickle.dumps(cur.top, protocol=proto)), Fe=F, desc=f"pickle(protocol={proto})", eq=True)
    if op == "subset.container":
        idx = _random_subset(rng, F)
        cont = ["tuple", "range", "int32", "uint16", "strided-view", "int-list-of-np.int64"][int(rng.integers(6))]
        if cont == "range":
            lo = int(rng.integers(0, n))
            hi = int(rng.integers(lo + 1, n + 1))
            idx, arg = list(range(lo, hi)), range(lo, hi)
        elif cont == "tuple":
            arg = tuple(idx)
        elif cont == "int32":
            arg = np.array(idx, np.int32)
        elif cont == "uint16":
            arg = np.array(idx, np.uint16)
        elif cont == "strided-view":
            arg = np.repeat(np.array(idx, dtype=int), 2)[::2]
        else:
            arg = [np.int64(i) for i in idx]
        ctx.observe("subset_container", cont)
        Fe, res_old = M.restrict(F, idx)
        return dict(new=cur.top.subset(arg), Fe=Fe, res_old=res_old, desc=f"subset({len(idx)} of {n}, {cont})", keyop="subset", eq=len(idx) == n and not _has_empty(F))
    if op in ("traj.join", "traj.pickle", "traj.deepcopy"):
        t = md.Trajectory(_grid_xyz(n, 2), cur.top)
        if op == "traj.join":
            how = int(rng.integers(3))
            t2 = md.Trajectory(_grid_xyz(n, 1), cur.top if how == 0 else cur.top.copy())
            new = (t.join(t2) if how < 2 else md.join([t, t2, t])).topology
            desc = ["traj.join(other sharing the topology object)", "traj.join(other with a copy)", "md.join([t, other, t])"][how]
        elif op == "traj.pickle":
            new = pickle.loads(pickle.dumps(t)).topology
            desc = "pickle(Trajectory)"
        else:
            new = _copy.deepcopy(t).topology
            desc = "deepcopy(Trajectory)"
        return dict(new=new, Fe=F, desc=desc, eq=True)
    if op in ("traj.remove_solvent", "traj.restrict_atoms"):
        t = md.Trajectory(_grid_xyz(n, 2), cur.top)
        inplace = bool(rng.random() < 0.4)
        if op == "traj.restrict_atoms":
            import warnings
            idx = _random_subset(rng, F)
            with warnings.catch_warnings():
                warnings.simplefilter("ignore")
                t2 = t.restrict_atoms(np.array(idx, dtype=int)) if inplace else t.restrict_atoms(list(idx), inplace=False)
            desc = f"traj.restrict_atoms({len(idx)} of {n}, inplace={inplace})"
        else:
            solv = _solvent_names()
            present = sorted({r[0] for r in F["residues"]} & solv)
            exclude = [x for x in present if rng.random() < 0.4]
            gone = set(present) - set(exclude)
            idx = [i for i, a in enumerate(F["atoms"]) if F["residues"][a[3]][0] not in gone]
            if not idx:
                ctx.skip("fp." + op, "everything is solvent")
                return None
            t2 = t.remove_solvent(exclude=exclude or None, inplace=inplace)
            desc = f"traj.remove_solvent(exclude={exclude}, inplace={inplace}) keeps {len(idx)} of {n}"
        if inplace and t2 is not t:
            run.viol("fp." + op, f"{op}:inplace-returns-other-object", f"{op}(inplace=True) did not return self")
        if t2.xyz.shape[1] != len(idx):
            run.viol("fp." + op, f"{op}:xyz-shape", f"xyz has {t2.xyz.shape[1]} atoms, expected {len(idx)}")
        Fe, res_old = M.restrict(F, idx)
        return dict(new=t2.topology, Fe=Fe, res_old=res_old, desc=desc, eq=len(idx) == n and not _has_empty(F))
    if op == "queries":
        _queries(run, cur)
        return None
    if op == "dataframe.variants":
        if not _separable_residues(F):
            ctx.skip("fp.dataframe.variants", "adjacent residues with identical (resSeq, name): a data frame cannot separate them")
            return None
        atoms, bonds = cur.top.to_dataframe()
        variant = ["bonds=None", "no-segmentID-column", "edited-frame", "int-bonds"][int(rng.integers(4))]
        base = [f for f in M.ALL_FIELDS if f != "chains.chain_id"]
        Fe = F
        if variant == "bonds=None":
            new = md.Topology.from_dataframe(atoms) if rng.random() < 0.5 else md.Topology.from_dataframe(atoms, None)
            Fe = dict(F, bonds=[])
            fields = base
        elif variant == "no-segmentID-column":
            new = md.Topology.from_dataframe(atoms.drop(columns=["segmentID"]), bonds)
            Fe = dict(F, residues=[(r[0], r[1], "", r[3]) for r in F["residues"]])
            fields = base
        elif variant == "edited-frame":
            # the documented use of the frame: edit it, build a topology from it (a whole residue renamed, serials shifted)
            ri = int(rng.integers(len(F["residues"])))
            rows = [i for i, a in enumerate(F["atoms"]) if a[3] == ri]
            newname = "XYZ" if F["residues"][ri][0] != "XYZ" else "XYW"
            prev_same = ri > 0 and F["residues"][ri - 1][3] == F["residues"][ri][3] and (F["residues"][ri - 1][1], F["residues"][ri - 1][0]) == (F["residues"][ri][1], newname)
            next_same = ri + 1 < len(F["residues"]) and F["residues"][ri + 1][3] == F["residues"][ri][3] and (F["residues"][ri + 1][1], F["residues"][ri + 1][0]) == (F["residues"][ri][1], newname)
            if prev_same or next_same:
                ctx.skip("fp.dataframe.variants", "renaming would make adjacent residues inseparable")
                return None
            atoms = atoms.copy()
            atoms.loc[rows, "resName"] = newname
            new = md.Topology.from_dataframe(atoms, bonds)
            res = list(F["residues"])
            res[ri] = (newname,) + res[ri][1:]
            Fe = dict(F, residues=res)
            fields = base
        else:
            new = md.Topology.from_dataframe(atoms, bonds[:, :2].astype(np.int64))
            fields = [f for f in base if f not in ("bonds.type", "bonds.order")]
        ctx.observe("dataframe_variant", variant)
        return dict(new=new, Fe=Fe, fields=fields, desc=f"dataframe({variant})", keyop="dataframe." + variant)
    if op == "hdf5.twins":
        path = run.tmp(f"w{len(run.history)}.h5")
        fields = ["atoms.name", "atoms.element", "atoms.residue", "residues.name", "residues.resSeq", "residues.segment_id", "residues.chain", "bonds.pairs"]
        twin = ["load_topology", "load_frame", "load(frame=)", "load(stride=)", "iterload(atom_indices)", "open.read_as_traj(atom_indices)", "save(mode=a)", "load_frame(atom_indices)"][int(rng.integers(8))]
        t = md.Trajectory(_grid_xyz(n, 3), cur.top)
        if twin == "save(mode=a)":
            t[:1].save_hdf5(path)
            t[1:].save_hdf5(path, mode="a")
        else:
            t.save_hdf5(path)
        Fe, res_old = F, None
        idx = None
        if "atom_indices" in twin:
            idx = _random_subset(rng, F)
            Fe, res_old = M.restrict(F, idx)
        if twin == "load_topology":
            new = md.load_topology(path)
        elif twin == "load_frame":
            new = md.load_frame(path, 1).topology
        elif twin == "load_frame(atom_indices)":
            new = md.load_frame(path, 2, atom_indices=np.array(idx, dtype=int)).topology
        elif twin == "load(frame=)":
            new = md.load(path, frame=1).topology
        elif twin == "load(stride=)":
            new = md.load(path, stride=2).topology
        elif twin == "iterload(atom_indices)":
            chunks = list(md.iterload(path, chunk=2, atom_indices=np.array(idx, dtype=int)))
            new = chunks[-1].topology
            if len(chunks) > 1 and chunks[0].topology is new:
                ctx.observe("hdf5_iterload", "chunks share one topology object")
        elif twin == "open.read_as_traj(atom_indices)":
            with md.open(path) as fh:
                new = fh.read_as_traj(atom_indices=np.array(idx, dtype=int)).topology
        else:
            new = md.load(path).topology
        os.remove(path)
        ctx.observe("hdf5_twin", twin)
        return dict(new=new, Fe=Fe, res_old=res_old, fields=fields, desc=f"hdf5({twin})", keyop="hdf5." + ("atom_indices" if idx is not None else "twin"))
    raise AssertionError(op)


def _queries(run, cur):
    """read-only methods on a pool member: the value the model defines, and the topology is left as it was"""
    ctx, rng = run.ctx, run.rng
    F = cur.F
    n = len(F["atoms"])
    top = cur.top
    run.history.append("queries")
    ctx.observe("op", "queries")
    bonds_ok = (cur.inv_ok or {}).get("bond-ends-are-own-atoms", True) and (cur.inv_ok or {}).get("atom-index-is-position", True)
    # find_molecules
    refuses = len(F["bonds"]) == 0 and any(M.residue_len(F, r) > 1 for r in range(len(F["residues"])))
    try:
        mols = top.find_molecules()
        got = {frozenset(a.index for a in mol) for mol in mols}
        if not bonds_ok:
            ctx.skip("query.find_molecules", "bonds already hold foreign atoms (reported under invariant:...)")
        elif refuses:
            run.viol("query.find_molecules", "find_molecules:answers-without-bonds", "find_molecules returned although the topology has no bonds and multi-atom residues")
        elif got == M.components(F) and sum(len(x) for x in mols) == n:
            ctx.ok("query.find_molecules")
        else:
            run.viol("query.find_molecules", f"find_molecules:not-the-connected-components:after-{cur.made_by}",
                     f"find_molecules on a {cur.made_by} product gives {len(got)} molecules, the bond graph has {len(M.components(F))} components")
    except ValueError as e:
        if refuses:
            ctx.skip("query.find_molecules", "no bonds and multi-atom residues: refused as documented in the message")
        else:
            run.viol("query.find_molecules", "find_molecules:raises-ValueError", f"find_molecules raised {e!r} on a topology with {len(F['bonds'])} bonds")
    # select_pairs
    a = rng.choice(n, size=int(rng.integers(1, min(n, 8) + 1)), replace=False)
    mode = int(rng.integers(3))
    b = a.copy() if mode == 0 else (np.setdiff1d(np.arange(n), a)[:6] if mode == 1 else rng.choice(n, size=int(rng.integers(1, min(n, 8) + 1)), replace=False))
    if len(b):
        cont = int(rng.integers(3))
        A_, B_ = ([int(x) for x in a], [int(x) for x in b]) if cont == 0 else ((a.astype(np.int64), b.astype(np.int64)) if cont == 1 else (a.astype(np.int32).copy(), b.astype(np.int32).copy()))
        try:
            pr = np.asarray(top.select_pairs(A_, B_))
            exp = M.unique_pairs(a, b)
            gotp = [frozenset((int(x), int(y))) for x, y in pr.reshape(-1, 2)]
            ctx.observe("select_pairs_case", ["identical", "disjoint", "overlapping"][mode])
            if set(gotp) == exp and len(gotp) == len(exp):
                ctx.ok("query.select_pairs")
            else:
                run.viol("query.select_pairs", f"select_pairs:not-the-unique-pairs:{['identical', 'disjoint', 'overlapping'][mode]}-selections",
                         f"select_pairs gave {len(gotp)} rows ({len(set(gotp))} distinct), expected {len(exp)} unique pairs")
        except Exception as e:  # noqa
            run.viol("query.select_pairs", f"select_pairs:raises-{type(e).__name__}", f"select_pairs({list(a)}, {list(b)}) raised {e!r}")
    # cheap ones: must run and leave the topology alone
    try:
        top.to_fasta()
        list(top.atoms_by_name(F["atoms"][0][0]))
        sel_all = top.select_atom_indices("all")
        ctx.check(len(sel_all) == n, "query.misc", "select_atom_indices(all):wrong-length", f"select_atom_indices('all') has {len(sel_all)} entries for {n} atoms")
        for s_ in ("alpha", "minimal", "heavy", "water"):
            top.select_atom_indices(s_)
        if bonds_ok:
            nb = [a_.n_bonds for a_ in list(top.atoms)[:5]]
            deg = [sum(1 for (i, j, _, _) in F["bonds"] if x in (i, j)) for x in range(min(n, 5))]
            ctx.check(nb == deg, "query.misc", "Atom.n_bonds:not-the-degree-in-the-bond-list", f"Atom.n_bonds {nb} but the bond list gives {deg}")
    except Exception as e:  # noqa
        run.viol("query.misc", f"query:raises-{type(e).__name__}", f"a read-only query raised {e!r}")
    try:
        top.to_bondgraph()
        ctx.observe("to_bondgraph", "ran")
    except ImportError:
        ctx.observe("to_bondgraph", "ImportError (networkx not installed)")
    run.source_unchanged("queries", [cur])


def _op_pdb_twin(run, k):
    """the PDB carrier through its other entry points and writer options; the file-level text checks stay with _op_pdb, here only the
    loaded topology is judged (same carrier profile, same domain conditions)"""
    import mdtraj as md
    ctx, rng = run.ctx, run.rng
    cur = run.pool[k]
    F = cur.F
    n = len(F["atoms"])
    if any((not a[0]) or len(a[0]) > 4 or (a[0] != a[0].strip()) or a[1] is None for a in F["atoms"]) or any(not r[0] for r in F["residues"]):
        ctx.skip("fp.pdb.twins", "names outside what PDB columns can hold")
        return None
    if any(isinstance(a.serial, float) and a.serial != a.serial for a in cur.top.atoms):
        ctx.skip("fp.pdb.twins", "an atom serial is NaN")
        return None
    if not _separable_residues(F, mod=10000, cut=3):
        ctx.skip("fp.pdb.twins", "adjacent residues with identical (resSeq mod 10000, name[:3]): PDB cannot separate them")
        return None
    writer = ["pdb.gz", "header=False", "bfactors", "two-models", "plain"][int(rng.integers(5))]
    reader = ["load", "load_topology", "load_frame", "load_pdb(atom_indices)", "load_pdb(frame=0)", "PDBTrajectoryFile.topology"][int(rng.integers(6))]
    path = run.tmp(f"w{len(run.history)}.pdb" + (".gz" if writer == "pdb.gz" else ""))
    kw = {}
    nfr = 1
    if writer == "header=False":
        kw["header"] = False
    elif writer == "bfactors":
        kw["bfactors"] = (np.arange(n) % 90).astype(float)
    elif writer == "two-models":
        nfr = 2
    run.history.append(f"pdb twin: write {writer}, read {reader}")
    ctx.observe("op", "pdb.twins")
    ctx.observe("pdb_twin", f"{writer} / {reader}")
    md.Trajectory(_grid_xyz(n, nfr), cur.top).save_pdb(path, ter=True, **kw) if writer != "pdb.gz" else md.Trajectory(_grid_xyz(n, nfr), cur.top).save(path)
    run.source_unchanged("pdb.twins", [cur])
    Fe, idx = F, None
    if reader == "load":
        new = md.load(path, standard_names=False).topology
    elif reader == "load_topology":
        new = md.load_topology(path, standard_names=False)
    elif reader == "load_frame":
        new = md.load_frame(path, nfr - 1, standard_names=False).topology
    elif reader == "load_pdb(atom_indices)":
        idx = _random_subset(rng, F)
        new = md.load_pdb(path, atom_indices=np.array(idx, dtype=int), standard_names=False).topology
        Fe, _ = M.restrict(F, idx)
    elif reader == "load_pdb(frame=0)":
        new = md.load_pdb(path, frame=0, standard_names=False).topology
    else:
        from mdtraj.formats import PDBTrajectoryFile
        with PDBTrajectoryFile(path, standard_names=False) as fh:
            new = fh.topology
    os.remove(path)
    Fa = M.fingerprint(new)
    single = len(F["chains"]) == 1
    fields = ["atoms.name", "atoms.element", "atoms.residue", "residues.name", "residues.resSeq", "residues.segment_id", "residues.chain", "chains.chain_id"]
    tx = {"atoms.name": lambda v: v[:4], "residues.name": lambda v: v[:3], "residues.resSeq": lambda v: v % 10000,
          "residues.segment_id": lambda v: (v or "")[:4].strip(), "chains.chain_id": (lambda v: v[:1] if v else M.SKIP, lambda v: v)}
    if single and all(a[2] is not None for a in F["atoms"]):
        fields.append("atoms.serial")
        tx["atoms.serial"] = lambda v: v % 100000
    run.judge("pdb.twin" + (".atom_indices" if idx is not None else ""), Fe, Fa, fields, tx, monitor="fp.pdb.twins")
    if idx is None and len(Fa["atoms"]) == n:
        loaded = {(i, j) for (i, j, _, _) in Fa["bonds"]}
        missing = [p_ for p_ in M.conect_documented(F) if p_ not in loaded]
        deg = {}
        for (i, j) in M.conect_documented(F):
            deg[i] = deg.get(i, 0) + 1
            deg[j] = deg.get(j, 0) + 1
        if missing and not all(deg[i] > 4 and deg[j] > 4 for (i, j) in missing):
            run.viol("fp.pdb.twins", f"pdb.twin:conect-bond-lost:{writer}", f"{len(missing)} CONECT-documented bonds missing after {writer} / {reader}, e.g. {missing[0]}")
        elif missing:
            ctx.skip("fp.pdb.twins.bonds", "bonds between atoms with more than 4 partners (reported by pdb.text)")
        else:
            ctx.ok("fp.pdb.twins.bonds")
    inv = run.check_invariants("pdb.twin", new, None)
    return run.add(new, "pdb", [k], inv)


# ------------------------------------------------------------------------------------------------ edits


def _edits(run):
    from mdtraj.core import element as elem
    from mdtraj.core import topology as T
    ctx, rng = run.ctx, run.rng
    cands = [i for i, e in enumerate(run.pool) if not e.frozen and len(e.F["atoms"]) <= 400]
    if not cands:
        ctx.skip("independence", "no editable pool member")
        return
    ei = cands[int(rng.integers(len(cands)))]
    E = run.pool[ei]
    G = M.fp_copy(E.F)
    bonds_ok = (E.inv_ok or {}).get("bond-ends-are-own-atoms", True) and (E.inv_ok or {}).get("atom-index-is-position", True)
    bonds_reason = None if bonds_ok else "bonds already hold foreign atoms (reported under invariant:...)"
    bt = {"Single": T.Single, "Double": T.Double, "Triple": T.Triple, "Aromatic": T.Aromatic, "Amide": T.Amide, None: None}
    anc_e = run.ancestors(ei)
    for _ in range(int(rng.integers(1, 4))):
        n = len(G["atoms"])
        kinds = ["insert", "rename", "add_bond", "delete"]
        if run.case.get("wide"):
            kinds = kinds + ["builders", "builders", "element", "standard_bonds", "standard_bonds", "disulfide"]
        kind = kinds[int(rng.integers(len(kinds)))]
        top = E.top
        residues = list(top.residues)
        if kind == "insert" and residues:
            ri = int(rng.integers(len(residues)))
            rlen = M.residue_len(G, ri)
            rpos = int(rng.integers(0, rlen + 1))
            index = M.residue_start(G, ri) + rpos
            el = common.ELEMENTS[int(rng.integers(len(common.ELEMENTS)))]
            e = elem.virtual_site if el == "VS" else elem.get_by_symbol(el)
            serial = int(rng.integers(1000, 2000))
            if index == n and rpos == rlen and rng.random() < 0.5:
                desc = f"insert_atom(append to residue {ri})"
                top.insert_atom("ZN1", e, residues[ri], serial=serial)
            else:
                desc = f"insert_atom(index={index}, rindex={rpos}, residue {ri}) of {n}"
                top.insert_atom("ZN1", e, residues[ri], index=index, rindex=rpos, serial=serial)
            G = M.m_insert_atom(G, index, "ZN1", e.symbol, serial, ri)
        elif kind == "delete" and n > 0:
            i = int(rng.integers(n))
            desc = f"delete_atom_by_index({i}) of {n}"
            top.delete_atom_by_index(i)
            G, bonded = M.m_delete_atom(G, i)
            if bonded and bonds_reason is None:
                bonds_reason = "delete_atom_by_index left the deleted atom's bonds behind (outside the statement)"
                ctx.observe("edit_note", "delete of a bonded atom leaves dangling bonds")
        elif kind == "add_bond" and n > 1:
            i, j = [int(x) for x in rng.choice(n, size=2, replace=False)]
            tname = common.BOND_TYPES[int(rng.integers(len(common.BOND_TYPES)))]
            order = [None, 1, 2, 3][int(rng.integers(4))]
            desc = f"add_bond({i},{j},{tname},{order})"
            top.add_bond(top.atom(i), top.atom(j), type=bt[tname], order=order)
            G = M.m_add_bond(G, i, j, tname, order)
        elif kind == "builders":
            # the construction API used on a transformed topology: appended chain / residue (to the last chain) / atom (to the last residue)
            what = int(rng.integers(0, 3))
            if what == 0 or not G["chains"]:
                cid = [None, "Z", "AB"][int(rng.integers(3))]
                top.add_chain(cid) if cid is not None or rng.random() < 0.5 else top.add_chain()
                G = M.m_add_chain(G, cid)
                desc = f"add_chain({cid!r})"
            elif what == 1 or not G["residues"] or G["residues"][-1][3] != len(G["chains"]) - 1:
                rs = [None, 77, -2][int(rng.integers(3))]
                seg = ["", "SEGQ"][int(rng.integers(2))]
                last_chain = list(top.chains)[-1]
                top.add_residue("NEW", last_chain, resSeq=rs, segment_id=seg) if rs is not None else top.add_residue("NEW", last_chain, segment_id=seg)
                G = M.m_add_residue(G, "NEW", rs, seg)
                desc = f"add_residue('NEW', last chain, resSeq={rs})"
            else:
                el = common.ELEMENTS[int(rng.integers(len(common.ELEMENTS)))]
                e = elem.virtual_site if el == "VS" else elem.get_by_symbol(el)
                passed = None if (el == "VS" and rng.random() < 0.5) else e  # element=None is documented to mean a virtual site
                serial = [None, 4242][int(rng.integers(2))]
                top.add_atom("AX", passed, list(top.residues)[-1], serial=serial)
                G = M.m_add_atom(G, "AX", e.symbol, serial)
                desc = f"add_atom('AX', {el}, last residue)"
        elif kind == "element" and n > 0:
            i = int(rng.integers(n))
            el = common.ELEMENTS[int(rng.integers(len(common.ELEMENTS)))]
            e = elem.virtual_site if el == "VS" else elem.get_by_symbol(el)
            top.atom(i).element = e
            G["atoms"][i] = G["atoms"][i][:1] + (e.symbol,) + G["atoms"][i][2:]
            desc = f"atom[{i}].element={el}"
        elif kind in ("standard_bonds", "disulfide") and n > 1:
            import mdtraj as _md
            old = list(G["bonds"])
            if kind == "standard_bonds":
                top.create_standard_bonds()
                exp, exact = M.m_standard_bonds(G, M.standard_bond_templates(os.path.dirname(_md.__file__)))
                desc = "create_standard_bonds()"
            else:
                pos = rng.uniform(0, 0.6, (n, 3))
                top.create_disulfide_bonds(pos.tolist() if rng.random() < 0.5 else pos)
                exp, exact = M.m_disulfide(G, pos)
                desc = "create_disulfide_bonds(positions)"
            ctx.observe("bond_creation", f"{kind}: {'some' if exp else 'no'} template bonds expected")
            if bonds_reason is None:
                Fnow = M.fingerprint(top)
                added = list(Fnow["bonds"])
                for b in old:
                    if b in added:
                        added.remove(b)
                    else:
                        run.viol("edit-model", f"edit:{kind}:existing-bond-lost", f"{desc}: the bond {b} that existed before is gone")
                        break
                got = {(i, j) for (i, j, _, _) in added}
                if any((t_, o_) != (None, None) for (_, _, t_, o_) in added):
                    run.viol("edit-model", f"edit:{kind}:new-bond-carries-type-or-order", f"{desc}: a created bond has a type / order nobody gave")
                elif (got == exp) if exact else (got <= exp):
                    ctx.ok("edit-model.bond-creation")
                else:
                    run.viol("edit-model", f"edit:{kind}:created-bonds-differ-from-the-documented-rule",
                             f"{desc}: created {sorted(got - exp)[:4]} beyond / lacks {sorted(exp - got)[:4]} of the bonds the templates define")
                G = M.fp_copy(G)
                G["bonds"] = list(Fnow["bonds"])  # adopted once judged (multiplicity of re-created bonds is not modelled)
        elif kind == "rename" and n > 0:
            what = int(rng.integers(0, 6))
            i = int(rng.integers(n))
            a = top.atom(i)
            ri = G["atoms"][i][3]
            ci = G["residues"][ri][3]
            if what == 0:
                a.name = "QQ"
                G["atoms"][i] = ("QQ",) + G["atoms"][i][1:]
                desc = f"atom[{i}].name="
            elif what == 1:
                a.serial = 7777
                G["atoms"][i] = G["atoms"][i][:2] + (7777,) + G["atoms"][i][3:]
                desc = f"atom[{i}].serial="
            elif what == 2:
                a.residue.name = "ZZZ"
                G["residues"][ri] = ("ZZZ",) + G["residues"][ri][1:]
                desc = f"residue[{ri}].name="
            elif what == 3:
                a.residue.resSeq = 4321
                G["residues"][ri] = G["residues"][ri][:1] + (4321,) + G["residues"][ri][2:]
                desc = f"residue[{ri}].resSeq="
            elif what == 4:
                a.residue.segment_id = "SEGZ"
                G["residues"][ri] = G["residues"][ri][:2] + ("SEGZ",) + G["residues"][ri][3:]
                desc = f"residue[{ri}].segment_id="
            else:
                a.residue.chain.chain_id = "Q"
                G["chains"][ci] = ("Q",)
                desc = f"chain[{ci}].chain_id="
        else:
            continue
        desc = f"edit pool[{ei}]({E.made_by}): {desc}"
        run.history.append(desc)
        ctx.observe("edit", kind)
        # the edited one follows the model
        Fa = M.fingerprint(E.top)
        fields = list(M.ALL_FIELDS)
        if bonds_reason:
            fields = [f for f in fields if not f.startswith("bonds.")]
            ctx.skip("edit-model", "bond fields: " + bonds_reason)
        diffs, _ = M.compare(G, Fa, fields)
        if diffs:
            for (f, k, e_, a_) in diffs:
                run.viol("edit-model", f"edit:{kind}:{f}", f"{desc}: {f} at {k}: expected {e_!r}, got {a_!r}")
        else:
            ctx.ok("edit-model")
        inv_now = run.check_invariants("edit:" + kind, E.top, E.inv_ok, skip_bonds_reason=bonds_reason)
        E.inv_ok = {nm: (E.inv_ok or {}).get(nm, True) and (inv_now[nm] or (nm == "bond-ends-are-own-atoms" and bool(bonds_reason)))
                    for nm in M.INVARIANTS}
        E.F = Fa
        if diffs:
            G = M.fp_copy(Fa)
        # everyone else keeps its fingerprint
        for oi, O in enumerate(run.pool):
            if oi == ei:
                continue
            Fo = M.fingerprint(O.top)
            d = M.differing_fields(O.F, Fo)
            if not d:
                ctx.ok("independence")
                continue
            if ei in run.ancestors(oi):
                rel = f"edit-of-ancestor-changes-{O.made_by}-product"
            elif oi in anc_e:
                rel = f"edit-of-{E.made_by}-product-changes-ancestor"
            else:
                rel = "edit-changes-unrelated-topology"
            run.viol("independence", f"independence:{rel}:{'+'.join(d)}",
                     f"{desc} changed pool[{oi}] ({O.made_by}) in {d}", edited=ei, changed=oi)
            O.F = Fo
    return ei if bonds_reason is None else None


# ------------------------------------------------------------------------------------------------ eq / hash


def _hash_cause(a, b, Fa, Fb):
    """which component hashes differ between two topologies that compare equal (observation through hash() only)"""
    causes = []
    ra, rb = list(a.residues), list(b.residues)
    if len(ra) == len(rb) == len(Fa["residues"]) == len(Fb["residues"]):
        f = set()
        for k, (x, y) in enumerate(zip(ra, rb)):
            if hash(x) != hash(y):
                cols = [nm for col, nm in ((0, "name"), (1, "resSeq"), (2, "segment_id")) if Fa["residues"][k][col] != Fb["residues"][k][col]]
                f.update(cols or ["unexplained"])
        causes.extend("residue-hash-uses-" + x for x in sorted(f))
    if [hash(x) for x in a.atoms] != [hash(x) for x in b.atoms]:
        causes.append("atom-hash")
    if [hash(x) for x in a.chains] != [hash(x) for x in b.chains]:
        causes.append("chain-hash")
    ha, hb = [hash(x) for x in a.bonds], [hash(x) for x in b.bonds]
    if ha != hb:
        causes.append("bond-list-order" if sorted(ha) == sorted(hb) else "bond-hash")
    return causes or ["unexplained"]


def _eq_hash(run, stage):
    ctx, rng = run.ctx, run.rng
    P = run.pool
    pairs = [(i, j) for i in range(len(P)) for j in range(i + 1, len(P))]
    if any(len(e.F["atoms"]) > 1000 for e in P) and len(pairs) > 6:
        pairs = pairs[:6]
    equal_pairs = []
    for (i, j) in pairs:
        a, b = P[i], P[j]
        try:
            same = bool(a.top == b.top)
        except Exception as exc:  # noqa
            run.viol("eq-hash", f"eq-hash:eq-raises-{type(exc).__name__}", f"pool[{i}] == pool[{j}] raised {exc!r}")
            continue
        if not same:
            ctx.observe("eq_pairs", "unequal")
            continue
        ctx.observe("eq_pairs", "equal")
        equal_pairs.append((i, j))
        ha, hb = hash(a.top), hash(b.top)
        if ha == hb:
            ctx.ok("eq-hash")
        else:
            Fa_, Fb_ = M.fingerprint(a.top), M.fingerprint(b.top)
            d = M.differing_fields(Fa_, Fb_)
            for cause in _hash_cause(a.top, b.top, Fa_, Fb_):
                run.viol("eq-hash", f"eq-hash:equal-but-hash-differs:{cause}",
                         f"pool[{i}] ({a.made_by}) == pool[{j}] ({b.made_by}) but their hashes differ ({cause}); fingerprints differ in {d}",
                         stage=stage)
    if stage != "pre-edit":
        return
    # a == b  =>  T(a) == T(b)
    for (i, j) in equal_pairs[:3]:
        a, b = P[i], P[j]
        n = len(a.F["atoms"])
        if n == 0 or n > 1000:
            continue
        tname = ["copy", "subset", "pickle", "join"][int(rng.integers(4))]
        if tname == "copy":
            ta, tb = a.top.copy(), b.top.copy()
        elif tname == "subset":
            idx = _random_subset(rng, a.F)
            ta, tb = a.top.subset(idx), b.top.subset(idx)
        elif tname == "pickle":
            ta, tb = pickle.loads(pickle.dumps(a.top)), pickle.loads(pickle.dumps(b.top))
        else:
            ta, tb = a.top.join(b.top), b.top.join(a.top)
        if ta == tb:
            ctx.ok("eq.preserved-by-transform")
        else:
            run.viol("eq.preserved-by-transform", f"eq:equal-inputs-unequal-after-{tname}",
                     f"pool[{i}] == pool[{j}] but {tname}(a) != {tname}(b)")


# ------------------------------------------------------------------------------------------------ cases


def _case_subsets(run):
    """all 2^n atom subsets of one small rich topology"""
    import itertools
    ctx = run.ctx
    n = run.case["n_atoms"]
    top = common.random_topology(run.rng, n, rich=True)
    F = M.fingerprint(top)
    inv0 = run.check_invariants("source", top, None)
    root = Entry(top, F, "source", (), inv0)
    ctx.observe("exhaustive_subsets_n", n)
    for r in range(0, n + 1):
        for idx in itertools.combinations(range(n), r):
            run.history[:] = [f"subset({list(idx)}) of {n}"]
            new = top.subset(list(idx))
            Fe, res_old = M.restrict(F, idx)
            run.judge("subset", Fe, M.fingerprint(new), res_old=res_old)
            run.check_invariants("subset", new, inv0)
    run.source_unchanged("subset", [root])


def run_case(case, ctx):
    run = Run(case, ctx)
    try:
        kind = case["kind"]
        ctx.observe("kind", kind)
        if kind == "subsets":
            _case_subsets(run)
            return
        if kind == "real":
            top = _load_real(case["src"])
            ctx.observe("real", case["src"])
            run.history.append(f"source real:{case['src']}")
            run.pool.append(Entry(top, M.fingerprint(top), "source", (), run.check_invariants("source:load", top, None), frozen=True))
            big = top.n_atoms > 1500
            ops = MEM_OPS + CARRIER_OPS
        else:
            top = _random_source(run, case["n_atoms"], case["rich"], case["repair"])
            run.history.append(f"source random n={case['n_atoms']} rich={case['rich']} repair={case['repair']}")
            run.add(top, "source", (), run.check_invariants("source", top, None))
            big = False
            ops = MEM_OPS + CARRIER_OPS
        if case.get("wide"):
            ops = ops + WIDE_OPS + WIDE_OPS
        k = 0
        for _ in range(case["length"]):
            op = ops[int(run.rng.integers(len(ops)))]
            if big and op in ("traj.stack", "join") and run.rng.random() < 0.5:
                op = "subset"
            r = _apply_op(run, op, k)
            if r is not None:
                k = r
        ctx.observe("pool_size", len(run.pool))
        _eq_hash(run, "pre-edit")
        ei = _edits(run)
        _eq_hash(run, "post-edit")
        if case.get("wide") and ei is not None and len(run.pool[ei].F["atoms"]) > 0:
            # histories in the other order: a transformation applied to a topology that was edited in place before
            op = ["copy", "subset", "pickle", "join", "deepcopy", "traj.atom_slice", "subset.container", "traj.pickle"][int(run.rng.integers(8))]
            run.history.append(f"transform the edited pool[{ei}]")
            ctx.observe("post_edit_transform", op)
            run.pool[ei].frozen = True
            _apply_op(run, op, ei)
    finally:
        run.cleanup()
