"""C13 — solvent-accessible areas are correct, additive and selection-independent.

Runtime monitoring of the real md.shrake_rupley (sasa.py + sasa.cpp through _geometry._sasa) by

oracle.atom-count     every single-frame, atom-mode area must be  c * 4*pi*R_i^2/n  with c an integer (within
                      32*eps32*c: float32 rounding of R, of the constant and of the product) lying in the interval
                      [lo_i, hi_i] of accessible-point counts the float64 reference (vlib/oracle/c13_sasa.py) admits
                      on the documented golden-spiral set; points within the band (1e-5 nm + derived float32
                      position uncertainty of the point, see the oracle docstring) of a neighbour surface are the
                      ambiguous ones that widen the interval (an atom all of whose points are ambiguous is skipped).
                      Radii come from the oracle's frozen copy of the documented table + change_radii + probe.
analytic.isolated     atoms farther than R_i+R_j from everything: 4*pi*(r+probe)^2 within 32*eps32 relative.
analytic.two-sphere   two spheres: analytic cap-removed area within (points within one point spacing of the cut
                      circle + 1) * 4*pi*R^2/n  (+ float32 rounding).
residue.sum-of-atoms  residue mode == sum of the atom-mode values of the residue's (selected) atoms within
                      (k+1)*eps32*sum (k atoms, float32 accumulation in unspecified order); single and multi frame.
subset.kept-bit-identical / subset.unselected-minus-one / subset.residue
                      atom_indices leaves kept atoms bit-identical to the unrestricted call, everything else is
                      exactly -1; residue mode sums the selected atoms only, residues without one are exactly -1.
                      Subsets: single, sorted half, unsorted, with repeats, contiguous, empty, all; given as list,
                      int64/int32 ndarray.
subset.container      the same subsets given as a tuple (the docstring asks for an "iterable"): must equal the list form.
mapping               get_mapping=True returns (areas, mapping): areas bit-identical to the plain call, mapping is
                      arange (atom) / the residue index of every atom (residue) and groups the atom values.
radii.metamorphic     change_radii that restates documented values, and a call after a change_radii call, are
                      bit-identical to the plain call (no leak into the module table).
multiframe.frame-equals-single
                      every frame of a 1..12-frame call equals, bit for bit, the call on that frame alone, for OpenMP
                      team sizes {1,2,3,5,8} set in-process (omp_set_num_threads), in atom and residue mode, with and
                      without atom_indices. A mismatch is classified as
                      `multiframe:per-thread-accumulator-not-reset-between-frames` ONLY when (a) the single-frame values
                      of the case agree with the oracle, (b) all mismatching frames are not the first frame of their
                      thread's static chunk and (c) every mismatching value obeys the carry-over model
                      multi[f,i] = (multi[f-1,i] + count[f,i]) * 4*pi*R_i^2/n (rel 1e-5); anything else gets
                      another key.

Widening round (cases with id >= 10**6, `_wide_cases`; the stream above is unchanged).  Input classes added:
n_sphere_points odd / prime / not divisible by 4 / 961 in the quick tier, given as numpy int32/int64 or as float;
probe_radius 0.5 and 1.0 nm, given as numpy float32 / float64 or as the int 0; all arguments passed positionally;
change_radii empty, complete (all 118 symbols), one huge (0.4-0.7 nm) or tiny (0.005-0.03 nm) radius, numpy scalars
as values, a radius for the virtual-site element VS; atoms down to 0.021 nm apart ("tight": spheres inside spheres in
a many-atom context); 1 200-2 500 (thorough: 6 000) atom systems; 30-257 frame trajectories whose atoms overlap only
in the last 1-3 frames; OpenMP teams of 4, 7 and 16; topologies with everything in one residue, one atom per residue,
one chain per residue, 7-40 atom residues; a (small) unit cell on the trajectory -- the documented areas take no
periodic images, the oracle stays non-periodic; structures with ions / ligands / RNA / water only / virtual sites
(1vii_sustiva_water, 4ZUO, 2koc, tip3p, imatinib, GG-tip4pew, 1am7); atom_indices as range, generator, set,
frozenset, dict keys, int16 / uint32 arrays and a non-contiguous view; get_mapping together with atom_indices on the
multi-frame call; monitors history.atom-count / history.residue: after all those calls the SAME Topology object is
edited in place (element of an atom changed, insert_atom, delete_atom_by_index) and the next call is judged by the
oracle; probe-type: numpy.float64 probe == python float probe.  Not added: residues whose atoms are not contiguous
in index (Topology.atoms walks chains -> residues -> atoms and sasa.py, like the whole library, identifies that
order with the index order), coincident atoms (outside the quantifier), invalid mode strings, negative indices."""
from __future__ import annotations

import ctypes
import math
import os

import numpy as np

from vlib.gen import common
from vlib.oracle import c13_sasa as O

PROPERTY = "C13"
LEVEL = "exploration"
NATIVE = ["mdtraj.geometry._geometry"]
RULE = ("cases = (kind in cluster/protein/isolated/two-sphere, n_sphere_points, probe, change_radii, n_frames 1..12, "
        "OpenMP team size, atom_indices subsets) from a seeded stream; clusters are random element mixes with minimum "
        "separation 0.05 nm at varied density and offset, proteins are windows of the test-data structures; every case "
        "runs the real shrake_rupley frame by frame, as one multi-frame call, in both modes and with subsets; a case is "
        "non-trivial when a monitor decided; distinct = distinct descriptors")
WORKERS = {"quick": 8, "thorough": 16}
BUDGET = {"quick": 60, "thorough": 600}
# passive waiting: the team size changes from call to call and the workers oversubscribe the cores; spinning
# libgomp threads would cost 10-50 ms per call
ENV = {"OMP_NUM_THREADS": "4", "OMP_DYNAMIC": "false", "OMP_WAIT_POLICY": "passive", "GOMP_SPINCOUNT": "0"}
ASSUMPTIONS = [
    "the documented point set is the golden-section spiral y_k=(2k+1)/n-1, phi_k=k*pi*(3-sqrt5) (docstring + sasa.cpp "
    "comment); its float32 evaluation may move a point by up to R*(2*eps32*phi_k + ...) which is added to the stated "
    "1e-5 nm ambiguity band (6e-5 nm at most for n=960)",
    "the documented radii are the table of sasa.py at the pinned commit (frozen copy in the oracle); elements without "
    "an entry (D, VS, Uub, Uuq, Uuh) are refused with KeyError and count as outside the domain unless change_radii "
    "supplies them",
    "OpenMP loops use the default static schedule of libgomp (thread t gets a contiguous block); team size is what "
    "omp_set_num_threads set (OMP_DYNAMIC=false)",
]
FLOORS = {"quick": {"history.atom-count": 2000, "history.residue": 500, "oracle.atom-count": 50000, "multiframe.frame-equals-single": 8000, "residue.sum-of-atoms": 25000,
                    "subset.kept-bit-identical": 7000, "subset.residue": 4000, "subset.unselected-minus-one": 500,
                    "mapping": 3500, "analytic.isolated": 1000, "analytic.two-sphere": 800, "radii.metamorphic": 500}}
NCASES = {"quick": 3200, "thorough": 10000}
KINDS = ["cluster", "cluster", "cluster", "cluster", "protein", "isolated", "two", "cluster"]
NPOINTS = [1, 2, 10, 100, 960]
TEAMS = [1, 2, 3, 5, 8]
PROTEINS = ["frame0.h5", "1bpi.pdb", "2EQQ.pdb", "native.pdb"]
COMMON_EL = ["H", "C", "N", "O", "S", "P"]
DATA = "/repo/tests/data"  # read-only test inputs (structures only; the code under test comes from VERIF_REPO)

KNOWN_CARRY = "multiframe:per-thread-accumulator-not-reset-between-frames"
TUPLE_KEY = "atom_indices:tuple-used-as-numpy-multidimensional-index"


# thorough tier: every 30-th case also runs in a worker whose extensions are ASan/UBSan-instrumented (vlib/sanitize.py)
ASAN_EVERY = {"quick": 0, "thorough": 30}
GROUPS = {"thorough": [dict(name="asan", flavour="asan", workers=2)]}


def gen_cases(tier, seed):
    from vlib.gen import common as _common
    return _common.with_asan_slice(_gen_cases(tier, seed), ASAN_EVERY[tier])


def _gen_cases(tier, seed):
    n = NCASES[tier]
    for i in range(n):
        rng = common.rng_for("C13", seed, i)
        kind = KINDS[i % len(KINDS)]
        npts = int(NPOINTS[(i // len(KINDS)) % len(NPOINTS)])
        if tier == "thorough" and rng.random() < 0.12:
            npts = int(rng.integers(3, 2500))
        probe = float(rng.choice([0.0, 0.14, round(float(rng.uniform(0, 0.3)), 4), round(float(rng.uniform(0, 0.3)), 4)]))
        c = dict(i=i, seed=common.case_seed(seed, "C13", i), kind=kind, n_points=npts, probe=probe,
                 n_frames=int(rng.integers(1, 13)), threads=int(TEAMS[int(rng.integers(len(TEAMS)))]),
                 change_radii=bool(rng.random() < 0.4))
        if kind == "protein":
            c["file"] = PROTEINS[int(rng.integers(len(PROTEINS)))]
            c["max_atoms"] = 300 if tier == "quick" else 460
            if npts > 100 and tier == "quick":
                c["n_points"] = 100
            c["n_frames"] = int(rng.integers(1, 5 if tier == "quick" else 9))
        elif kind == "cluster":
            big = 81 if tier == "thorough" else 41
            c["n_atoms"] = int(rng.integers(2, big if npts < 960 else 25))
        elif kind == "isolated":
            c["n_atoms"] = int(rng.integers(1, 6))
        yield c
    yield from _wide_cases(tier, seed)


# ----- widening round: input classes the stream above never produces (ids >= 10**6; the stream above is unchanged) -----
W_NPOINTS = [3, 5, 7, 30, 61, 97, 250, 961, 4, 12]      # odd / prime / not divisible by 4 / just above the default
W_TEAMS = [1, 2, 4, 7, 16]
W_PROTEINS = ["1vii_sustiva_water.pdb", "4ZUO.pdb", "2koc.pdb", "tip3p_300K_1ATM.pdb", "imatinib.pdb", "GG-tip4pew.pdb",
              "1am7_protein.pdb", "2EQQ.pdb"]
W_KINDS = ["cluster", "tight", "protein", "cluster", "isolated", "two", "late", "cluster", "protein", "tight", "lattice", "cluster"]


def _wide_cases(tier, seed):
    quick = tier == "quick"
    n = 360 if quick else 3000
    for j in range(n):
        rng = common.rng_for("C13wide", seed, j)
        kind = W_KINDS[j % len(W_KINDS)]
        if kind == "lattice" and j % (48 if quick else 24) != 10:
            kind = "cluster"  # the big systems are thinned: 10 per quick run, 125 per thorough run
        npts = int(W_NPOINTS[(j // len(W_KINDS) + int(rng.integers(3))) % len(W_NPOINTS)])
        probe = float(rng.choice([0.0, 0.14, 0.5, 1.0, round(float(rng.uniform(0, 0.3)), 4)]))
        c = dict(i=10 ** 6 + j, seed=common.case_seed(seed, "C13w", j), kind=kind, n_points=npts, probe=probe,
                 n_frames=int(rng.integers(1, 9)), threads=int(W_TEAMS[int(rng.integers(len(W_TEAMS)))]),
                 change_radii=bool(rng.random() < 0.3),
                 w=dict(cell=str(rng.choice(["none", "none", "cubic", "triclinic", "ortho"])),
                        shaped=bool(rng.random() < 0.4),
                        np_type=str(rng.choice(["int", "int", "np.int64", "np.int32", "float"])),
                        probe_type=str(rng.choice(["float", "float", "np.float32", "np.float64", "int"])),
                        cr_mode=str(rng.choice(["none", "none", "none", "empty", "complete", "big", "tiny", "zero", "np32"])),
                        positional=bool(rng.random() < 0.3),
                        derived=str(rng.choice(["none", "none", "slice", "slice-nocopy", "stride", "stride-nocopy", "fancy", "join", "xyz64", "vectors"]))))
        if kind == "protein":
            c["file"] = W_PROTEINS[int(rng.integers(len(W_PROTEINS)))]
            c["max_atoms"] = 300 if quick else 460
            c["n_points"] = min(npts, 61) if quick else npts
            c["n_frames"] = int(rng.integers(1, 4))
        elif kind in ("cluster", "tight"):
            c["n_atoms"] = int(rng.integers(2, 41 if npts < 250 else 16))
        elif kind == "isolated":
            c["n_atoms"] = int(rng.integers(1, 6))
        elif kind == "late":  # long trajectories: isolated atoms until the last 1-3 frames, where the atoms overlap
            c["n_atoms"] = int(rng.integers(3, 10))
            c["n_frames"] = int(rng.choice([30, 64, 101, 257, 1030] if quick else [30, 64, 101, 257, 1030, 2100, 4097]))
            c["n_points"] = int(rng.choice([7, 30, 61])) if c["n_frames"] < 1000 else 7
        elif kind == "lattice":  # thousands of atoms
            c["n_atoms"] = int(rng.integers(1200, 2501 if quick else 6001))
            c["n_points"] = int(rng.choice([5, 10, 24]))
            c["n_frames"] = int(rng.integers(1, 3))
            c["probe"] = float(rng.choice([0.0, 0.14]))
        yield c


# ----------------------------------------------------------------------------------------------- builders
_gomp = None


def set_team(n):
    global _gomp
    if _gomp is None:
        _gomp = ctypes.CDLL("libgomp.so.1")
    _gomp.omp_set_num_threads(int(n))


def _min_sep(x):
    d = x[:, None, :].astype(np.float64) - x[None, :, :].astype(np.float64)
    d = np.sqrt((d * d).sum(-1))
    d[np.diag_indices(len(x))] = np.inf
    return float(d.min()) if len(x) > 1 else np.inf


def _cluster_frame(rng, na, scale, offset, min_sep=0.05):
    rho = scale * max(na, 2) ** (1.0 / 3.0)
    for attempt in range(200):
        pts = []
        tries = 0
        while len(pts) < na and tries < 200 * na:
            tries += 1
            v = rng.normal(size=3)
            v *= rho * rng.random() ** (1 / 3) / np.linalg.norm(v)
            p = (v + offset).astype(np.float32)
            if all(np.linalg.norm(p.astype(np.float64) - q.astype(np.float64)) > min_sep for q in pts):
                pts.append(p)
        if len(pts) == na:
            return np.array(pts, dtype=np.float32)
        rho *= 1.3
    raise RuntimeError("could not place cluster")


def _topology(rng, symbols):
    import mdtraj as md
    from mdtraj.core import element as elem
    top = md.Topology()
    na = len(symbols)
    i = 0
    chain = top.add_chain()
    while i < na:
        if rng.random() < 0.15:
            chain = top.add_chain()
        k = min(na - i, int(rng.integers(1, 7)))
        res = top.add_residue(["ALA", "LIG", "HOH", "GLY"][int(rng.integers(4))], chain)
        for _ in range(k):
            top.add_atom("X%d" % i, elem.get_by_symbol(symbols[i]), res)
            i += 1
    return top


def _topology_shaped(rng, symbols):
    """widened classes of residue/chain layout (atoms of a residue stay contiguous in index: Topology.atoms walks
    chains -> residues -> atoms and the whole library identifies that order with the index order): everything in ONE
    residue, one atom per residue, every residue in a chain of its own, or long residues of 7-40 atoms"""
    import mdtraj as md
    from mdtraj.core import element as elem
    top = md.Topology()
    na = len(symbols)
    shape = ["one-residue", "atom-per-residue", "chain-per-residue", "long-residues"][int(rng.integers(4))]
    chain = top.add_chain()
    i = 0
    while i < na:
        k = {"one-residue": na, "atom-per-residue": 1, "chain-per-residue": int(rng.integers(1, 5)),
             "long-residues": int(rng.integers(7, 41))}[shape]
        if shape == "chain-per-residue" and i:
            chain = top.add_chain()
        res = top.add_residue(["ALA", "LIG", "HOH", "GLY"][int(rng.integers(4))], chain)
        for _ in range(min(k, na - i)):
            top.add_atom("X%d" % i, elem.get_by_symbol(symbols[i]), res)
            i += 1
    return top


def _lattice_frame(rng, na, offset):
    """jittered cubic lattice, spacing 0.13-0.3 nm, minimum separation >= 0.06 nm by construction"""
    sp = float(rng.uniform(0.13, 0.3))
    j = (sp - 0.06) / (2.0 * math.sqrt(3.0))
    m = int(math.ceil(na ** (1.0 / 3.0)))
    g = np.array([[a, b, c] for a in range(m) for b in range(m) for c in range(m)], dtype=np.float64)
    g = g[rng.permutation(len(g))[:na]] * sp
    return (g + rng.uniform(-j, j, g.shape) + offset).astype(np.float32)


def _min_sep_chunked(x, chunk=256):
    x = x.astype(np.float64)
    best = np.inf
    for a in range(0, len(x), chunk):
        d = np.sqrt(((x[a:a + chunk, None, :] - x[None, :, :]) ** 2).sum(-1))
        d[np.arange(len(d)), np.arange(a, a + len(d))] = np.inf
        best = min(best, float(d.min()))
    return best


_ALL_EL = []


def _all_elements():
    """symbols of the documented table that mdtraj's element registry knows under the same spelling"""
    if not _ALL_EL:
        from mdtraj.core import element as elem
        for s in sorted(O.RADII):
            try:
                if elem.get_by_symbol(s).symbol == s:
                    _ALL_EL.append(s)
            except KeyError:
                pass
    return _ALL_EL


def _symbols(rng, na):
    all_el = _all_elements()
    return [COMMON_EL[int(rng.integers(len(COMMON_EL)))] if rng.random() < 0.7 else all_el[int(rng.integers(len(all_el)))]
            for _ in range(na)]


_cache = {}


def _load(fn):
    import mdtraj as md
    if fn not in _cache:
        _cache[fn] = md.load(os.path.join(DATA, fn))
    return _cache[fn]


def _build(case):
    """-> (traj, symbols, change_radii dict or None, rng, extra)"""
    import mdtraj as md
    rng = common.rng_for("C13case", case["seed"])
    kind = case["kind"]
    nf = case["n_frames"]
    extra = {}
    w = case.get("w") or {}
    mktop = _topology_shaped if w.get("shaped") else _topology
    if kind in ("tight", "late", "lattice"):
        na = case["n_atoms"]
        sym = _symbols(rng, na)
        offset = rng.uniform(-20, 20, 3) if rng.random() < 0.3 else np.zeros(3)
        if kind == "tight":  # neighbours down to 0.021 nm apart: spheres inside spheres in a many-atom context
            xyz = np.array([_cluster_frame(rng, na, float(rng.uniform(0.03, 0.09)), offset, min_sep=0.021) for _ in range(nf)], dtype=np.float32)
        elif kind == "late":
            n_late = int(rng.integers(1, 4))
            xyz = np.array([_cluster_frame(rng, na, 0.12 if f >= nf - n_late else 1.5, offset, min_sep=0.05 if f >= nf - n_late else 1.1)
                            for f in range(nf)], dtype=np.float32)
            extra["n_late"] = n_late
        else:
            xyz = np.array([_lattice_frame(rng, na, offset) for _ in range(nf)], dtype=np.float32)
        t = md.Trajectory(xyz, mktop(rng, sym))
    elif kind == "cluster" and w:
        na = case["n_atoms"]
        sym = _symbols(rng, na)
        scale = float(rng.uniform(0.07, 0.3))
        offset = rng.uniform(-20, 20, 3) if rng.random() < 0.3 else np.zeros(3)
        xyz = np.array([_cluster_frame(rng, na, scale, offset) for _ in range(nf)], dtype=np.float32)
        if rng.random() < 0.06:
            sym[int(rng.integers(na))] = "VS"  # virtual site: mdtraj knows the element, the radii table does not
        t = md.Trajectory(xyz, mktop(rng, sym))
    elif kind == "cluster":
        na = case["n_atoms"]
        sym = _symbols(rng, na)
        scale = float(rng.uniform(0.07, 0.3))
        offset = rng.uniform(-20, 20, 3) if rng.random() < 0.3 else np.zeros(3)
        xyz = np.array([_cluster_frame(rng, na, scale, offset) for _ in range(nf)], dtype=np.float32)
        if rng.random() < 0.04:
            sym[int(rng.integers(na))] = "D"  # an element mdtraj knows but the radii table does not
        t = md.Trajectory(xyz, _topology(rng, sym))
    elif kind == "isolated":
        na = case["n_atoms"]
        sym = _symbols(rng, na)
        grid = rng.permutation(27)[:na]
        base = np.array([[g // 9, (g // 3) % 3, g % 3] for g in grid], dtype=np.float64) * 2.0  # 2 nm lattice
        if w:
            base = base * (1.2 + 1.3 * case["probe"])  # probes up to 1 nm: keep the atoms farther apart than R_i + R_j
        xyz = np.array([(base + rng.uniform(-0.3, 0.3, (na, 3)) + rng.uniform(-10, 10, 3)) for _ in range(nf)], dtype=np.float32)
        t = md.Trajectory(xyz, mktop(rng, sym))
    elif kind == "two":
        sym = _symbols(rng, 2)
        t = None  # built in run_two
        return None, sym, _change_radii(rng, sym, case), rng, extra
    else:
        src = _load(case["file"])
        if src.n_frames > 1:
            frames = rng.integers(0, src.n_frames, nf)
            t = src[frames]
        else:
            t = src[np.zeros(nf, dtype=int)]
        # contiguous residue window of at most max_atoms atoms
        if t.n_atoms > case["max_atoms"] or rng.random() < 0.3:
            nres = t.n_residues
            r0 = int(rng.integers(0, nres))
            idx = []
            for r in list(t.topology.residues)[r0:]:
                ra = [a.index for a in r.atoms]
                if len(idx) + len(ra) > case["max_atoms"]:
                    break
                idx.extend(ra)
            if len(idx) < 2:
                idx = list(range(min(t.n_atoms, case["max_atoms"])))
            t = t.atom_slice(idx)
        Rm = common.random_rotation(rng)
        xyz = t.xyz.astype(np.float64) @ Rm.T + (rng.uniform(-10, 10, 3) if rng.random() < 0.3 else 0.0)
        if src.n_frames == 1:
            xyz = xyz + rng.normal(scale=0.01, size=xyz.shape) * (np.arange(nf) > 0)[:, None, None]
        t = md.Trajectory(xyz.astype(np.float32), t.topology)
        sym = [a.element.symbol for a in t.topology.atoms]
        extra["file"] = case["file"]
    cr = _change_radii(rng, sym, case)
    if "D" in sym and rng.random() < 0.5:
        cr = dict(cr or {}, D=0.12)
    if "VS" in sym and rng.random() < 0.6:
        cr = dict(cr or {}, VS=round(float(rng.uniform(0.02, 0.1)), 4))
    if w.get("cell", "none") != "none":
        # widened class: the trajectory carries a (small) unit cell; the documented areas take no periodic images
        L, A = common.random_cell(rng, w["cell"], lo=0.4, hi=3.0)
        t.unitcell_lengths = np.tile(L, (t.n_frames, 1)).astype(np.float32)
        t.unitcell_angles = np.tile(A, (t.n_frames, 1)).astype(np.float32)
    if w.get("derived", "none") != "none":
        # widened class: the trajectory is obtained the way users obtain one (cut out of / strided from a longer one,
        # with or without copying, joined from pieces, float64 coordinates assigned, cell assigned as box vectors);
        # the oracle reads the coordinates of the object that is handed to mdtraj
        t = common.derive_traj(t, w["derived"], common.rng_for("C13derive", case["seed"]))
    return t, sym, cr, rng, extra


def _change_radii(rng, sym, case):
    mode = (case.get("w") or {}).get("cr_mode", "none")
    if mode != "none":
        present = sorted(set(sym))
        if mode == "empty":  # an empty dict: "partial" in the extreme
            return {}
        if mode == "complete":  # a complete dict: every element of the documented table restated with another value
            return {k: round(v * float(rng.uniform(0.8, 1.25)), 4) for k, v in O.RADII.items()}
        k = present[int(rng.integers(len(present)))]
        if mode == "big":  # coarse-grained site: spheres that swallow whole neighbours
            return {k: round(float(rng.uniform(0.4, 0.7)), 4)}
        if mode == "tiny":
            return {k: round(float(rng.uniform(0.005, 0.03)), 4)}
        if mode == "zero":  # a point site: the probe rolls on the bare centre (int 0 or float 0.0)
            return {k: (0 if rng.random() < 0.5 else 0.0)}
        return {k: np.float32(rng.uniform(0.05, 0.3)), "Xx": np.float64(0.2)}  # numpy scalars as values
    if not case["change_radii"]:
        return None
    present = sorted(set(sym))
    keys = [present[int(rng.integers(len(present)))] for _ in range(int(rng.integers(1, 4)))]
    if rng.random() < 0.3:
        keys.append(["Xx", "D", "Fe", "Zn"][int(rng.integers(4))])  # symbols that need not occur in the structure
    return {k: round(float(rng.uniform(0.05, 0.3)), 4) for k in keys}


# ----------------------------------------------------------------------------------------------- monitors
def _sr(t, case, cr, **kw):
    import mdtraj as md
    w = case.get("w")
    if not w:
        return md.shrake_rupley(t, probe_radius=case["probe"], n_sphere_points=case["n_points"], change_radii=cr, **kw)
    # widened classes: argument types (numpy scalars, a float point count, an int probe of 0) and positional passing
    n = {"int": int, "np.int64": np.int64, "np.int32": np.int32, "float": float}[w["np_type"]](case["n_points"])
    pr = case["probe"]
    pr = {"float": float, "np.float32": lambda v: np.float32(v), "np.float64": np.float64,
          "int": (lambda v: 0 if v == 0 else float(v))}[w["probe_type"]](pr)
    if w["probe_type"] == "np.float32":
        pr = np.float32(np.float64(case["probe"]))  # only probes exactly representable in float32 keep the oracle's value
        if float(pr) != case["probe"]:
            pr = case["probe"]
    if w.get("positional"):
        return md.shrake_rupley(t, pr, n, kw.get("mode", "atom"), cr, kw.get("get_mapping", False), kw.get("atom_indices", None))
    return md.shrake_rupley(t, probe_radius=pr, n_sphere_points=n, change_radii=cr, **kw)


def _judge_counts(ctx, area, R, lo, hi, n, label, sym):
    """area: float32 atom areas of one frame. Returns (all_ok, counts)."""
    a = area.astype(np.float64)
    unit = O.area_per_point(R, n)
    point = np.asarray(unit) <= 0  # radius + probe == 0: a sphere of no extent, its area is 0 whatever the point count
    with np.errstate(divide="ignore", invalid="ignore"):
        c = np.where(point, 0.0, a / np.where(point, 1.0, unit))
    ci = np.round(c)
    tol = 32 * O.EPS32 * np.maximum(ci, 1.0)
    integral = np.abs(c - ci) <= tol
    undecided = (lo == 0) & (hi == n)
    good = True
    nok = 0
    for i in range(len(a)):
        if undecided[i]:
            ctx.skip("oracle.atom-count", "every point of the atom is within the ambiguity band of a neighbour surface")
            continue
        if point[i]:
            if a[i] == 0.0:
                nok += 1
            else:
                good = False
                ctx.violation("oracle.atom-count", f"{label}:zero-radius-sphere-with-non-zero-area", f"{label}: atom {i} ({sym[i]}) has radius + probe = 0 but area {a[i]:.8g}")
            continue
        if not integral[i]:
            good = False
            ctx.violation("oracle.atom-count", f"{label}:area-is-not-an-integer-point-count-times-4piR^2/n",
                          f"{label}: atom {i} ({sym[i]}, R={R[i]:.4f}) area {a[i]:.8g} = {c[i]:.6f} points of 4piR^2/n={unit[i]:.6g}; "
                          f"reference admits {lo[i]}..{hi[i]} of {n}", atom=i, area=a[i], R=R[i], lo=int(lo[i]), hi=int(hi[i]))
        elif ci[i] > hi[i]:
            good = False
            ctx.violation("oracle.atom-count", f"{label}:more-accessible-points-than-reference",
                          f"{label}: atom {i} ({sym[i]}, R={R[i]:.4f}) reports {int(ci[i])} accessible points of {n}, reference admits "
                          f"{lo[i]}..{hi[i]}", atom=i, area=a[i], R=R[i], lo=int(lo[i]), hi=int(hi[i]))
        elif ci[i] < lo[i]:
            good = False
            ctx.violation("oracle.atom-count", f"{label}:fewer-accessible-points-than-reference",
                          f"{label}: atom {i} ({sym[i]}, R={R[i]:.4f}) reports {int(ci[i])} accessible points of {n}, reference admits "
                          f"{lo[i]}..{hi[i]}", atom=i, area=a[i], R=R[i], lo=int(lo[i]), hi=int(hi[i]))
        else:
            nok += 1
    if nok:
        ctx.ok("oracle.atom-count", nok)
    return good, ci


def _bits(a):
    return np.ascontiguousarray(a, dtype=np.float32).view(np.uint32)


def _same_bits(a, b):
    return a.shape == b.shape and bool(np.array_equal(_bits(a), _bits(b)))


def _residue_index(top):
    m = np.zeros(top.n_atoms, dtype=np.int64)
    for r, res in enumerate(top.residues):
        for a in res.atoms:
            m[a.index] = r
    return m


def _check_residue_sum(ctx, monitor, key, res_out, atom_vals, resmap, nres, selected, what):
    """res_out[nres], atom_vals[n_atoms] (float32, unrestricted atom values of the same frame), selected: bool mask"""
    bad = None
    nok = 0
    for g in range(nres):
        members = np.where((resmap == g) & selected)[0]
        if len(members) == 0:
            if selected.all():
                continue
            if _bits(res_out[g:g + 1])[0] == _bits(np.array([-1.0], np.float32))[0]:
                nok += 1
            else:
                bad = (g, float(res_out[g]), -1.0, "residue without a selected atom is not -1")
            continue
        vals = atom_vals[members].astype(np.float64)
        s = float(vals.sum())
        tol = (len(members) + 1) * O.EPS32 * float(np.abs(vals).sum()) + 1e-12
        if abs(float(res_out[g]) - s) <= tol:
            nok += 1
        else:
            bad = (g, float(res_out[g]), s, f"residue value differs from the sum over its {len(members)} selected atoms")
    if bad is not None:
        ctx.violation(monitor, key, f"{what}: residue {bad[0]}: {bad[3]} (got {bad[1]:.8g}, expected {bad[2]:.8g})",
                      residue=bad[0], got=bad[1], expected=bad[2])
    if nok:
        ctx.ok(monitor, nok)
    return bad is None


def _subset(rng, na, wide=False):
    style = int(rng.integers(0, 6))
    if style == 0:
        idx = [int(rng.integers(na))]
    elif style == 1:
        idx = sorted(rng.permutation(na)[: max(1, na // 2)].tolist())
    elif style == 2:
        idx = rng.permutation(na)[: int(rng.integers(1, na + 1))].tolist()  # unsorted
    elif style == 3:
        idx = rng.integers(0, na, int(rng.integers(1, na + 2))).tolist()  # with repeats
    elif style == 4:
        a = int(rng.integers(0, na))
        idx = list(range(a, min(na, a + int(rng.integers(1, 8)))))
    else:
        idx = [] if rng.random() < 0.3 else list(range(na))
    container = ["list", "ndarray", "ndarray32", "list", "ndarray", "list", "ndarray", "ndarray32", "list", "tuple"][int(rng.integers(10))]
    if wide:  # widened classes: every other kind of "iterable" of indices
        container = ["range", "generator", "set", "frozenset", "int16", "uint32", "strided", "list", "tuple", "dict-keys"][int(rng.integers(10))]
    return [int(i) for i in idx], container, ["single", "half-sorted", "unsorted", "repeats", "range", "empty-or-all"][style]


def _as_container(idx, container):
    if container == "ndarray":
        return np.array(idx, dtype=np.int64)
    if container == "ndarray32":
        return np.array(idx, dtype=np.int32)
    if container == "tuple":
        return tuple(idx)
    if container == "range" and (not idx or idx == list(range(idx[0], idx[-1] + 1))):
        return range(idx[0], idx[-1] + 1) if idx else range(0)
    if container == "generator":
        return (i for i in idx)
    if container == "set":
        return set(idx)
    if container == "frozenset":
        return frozenset(idx)
    if container == "dict-keys":
        return dict.fromkeys(idx).keys()
    if container == "int16":
        return np.array(idx, dtype=np.int16)
    if container == "uint32":
        return np.array(idx, dtype=np.uint32)
    if container == "strided":
        return np.array([v for i in idx for v in (i, -1)], dtype=np.int64)[::2]
    return list(idx)


def run_case(case, ctx):
    ctx.observe("kind", case["kind"])
    ctx.observe("n_sphere_points", case["n_points"] if case["n_points"] in NPOINTS + W_NPOINTS else "other")
    ctx.observe("probe", "0" if case["probe"] == 0 else (str(case["probe"]) if case["probe"] in (0.14, 0.5, 1.0) else "random"))
    w = case.get("w") or {}
    if w:
        ctx.observe("n_sphere_points given as", w["np_type"])
        ctx.observe("probe_radius given as", w["probe_type"])
        ctx.observe("arguments passed", "positionally" if w["positional"] else "by keyword")
        ctx.observe("change_radii class", w["cr_mode"])
        ctx.observe("trajectory obtained by", w.get("derived", "none"))
        if w["probe_type"] == "np.float64":
            # a numpy float64 scalar IS a python float (subclass); the documented effect of the probe must not depend on it
            import mdtraj as md
            tiny = md.Trajectory(np.array([[[0, 0, 0], [0.15, 0, 0]]], dtype=np.float32), _topology(common.rng_for("C13tiny"), ["C", "O"]))
            try:
                a64 = md.shrake_rupley(tiny, probe_radius=np.float64(case["probe"]), n_sphere_points=case["n_points"])
                a_py = md.shrake_rupley(tiny, probe_radius=float(case["probe"]), n_sphere_points=case["n_points"])
                ctx.check(_same_bits(a64, a_py), "probe-type", "probe_radius:numpy-float64-scalar:result-differs-from-python-float",
                          "probe_radius given as numpy.float64 gives other areas than the same value given as python float")
            except ValueError as e:
                ctx.violation("probe-type", "probe_radius:numpy-float64-scalar:raises:ValueError:buffer-dtype-mismatch",
                              f"shrake_rupley(traj, probe_radius=numpy.float64({case['probe']})) raises ValueError: {e} "
                              "(float32 radii + numpy float64 scalar promote to float64 under NumPy >= 2; a python float works)")
                case = dict(case, w=dict(w, probe_type="float"))  # the rest of the case runs with the python float
                w = case["w"]
    if case["kind"] == "two":
        return run_two(case, ctx)
    import mdtraj as md
    from mdtraj.geometry import sasa as msasa
    t, sym, cr, rng, extra = _build(case)
    n = case["n_points"]
    nf, na = t.n_frames, t.n_atoms
    top = t.topology
    nres = top.n_residues
    ctx.observe("n_frames", nf)
    ctx.observe("change_radii", "yes" if cr else "no")
    if extra.get("file"):
        ctx.observe("protein", extra["file"])
    sep = min((_min_sep_chunked if na > 600 else _min_sep)(t.xyz[f]) for f in range(nf))
    if w:
        ctx.observe("n_atoms", "<=40" if na <= 40 else ("<=500" if na <= 500 else ">1000"))
        ctx.observe("unit cell on the trajectory", w["cell"])
        ctx.observe("residue layout", "one residue" if top.n_residues == 1 else ("atom per residue" if top.n_residues == na else
                    ("chain per residue" if top.n_chains == top.n_residues else "mixed")))
        ctx.observe("n_chains", min(top.n_chains, 4))
        if case["kind"] == "late":
            ctx.observe("overlaps appear only in the last frames of", nf)
    if sep < 0.02:
        ctx.skip("oracle.atom-count", "structure with (nearly) coincident atoms: outside the domain")
        return
    try:
        R = O.expanded_radii(sym, case["probe"], cr)
    except KeyError as e:
        # no documented radius and none supplied: there is nothing to compare with; record what mdtraj does
        try:
            _sr(t[0], case, cr)
            ctx.observe("undocumented_element", f"{e.args[0]}: computed with an undocumented radius")
        except KeyError:
            ctx.observe("undocumented_element", f"{e.args[0]}: refused with KeyError")
        ctx.skip("oracle.atom-count", "element without a documented radius (outside the domain)")
        return
    table_before = dict(msasa._ATOMIC_RADII)

    # ---- single-frame atom-mode values, judged by the reference ---------------------------------------------
    set_team(case["threads"])
    single = np.zeros((nf, na), dtype=np.float32)
    oracle_ok = True
    counts = np.zeros((nf, na))
    iso_checked = 0
    for f in range(nf):
        out = _sr(t[f], case, cr)
        if out.shape != (1, na) or out.dtype != np.float32:
            ctx.violation("shape", "atom-mode:shape-or-dtype", f"atom mode returned shape {out.shape} dtype {out.dtype} for {na} atoms")
            return
        single[f] = out[0]
        lo, hi = O.reference_counts(t.xyz[f], R, n)
        ctx.observe("ambiguous_points_per_frame", min(int((hi - lo).sum()), 5))
        good, counts[f] = _judge_counts(ctx, out[0], R, lo, hi, n, "atom-mode", sym)
        oracle_ok &= good
        if case["kind"] == "isolated":
            ref = 4 * math.pi * R * R
            bad = np.abs(out[0].astype(np.float64) - ref) > 32 * O.EPS32 * ref
            if bad.any():
                j = int(np.argmax(bad))
                ctx.violation("analytic.isolated", "isolated-atom:area-is-not-4pi(r+probe)^2",
                              f"isolated {sym[j]} atom: area {out[0][j]:.8g}, 4*pi*(r+probe)^2 = {ref[j]:.8g}", R=R[j], n_points=n)
            ctx.ok("analytic.isolated", int((~bad).sum()))

    f0 = int(rng.integers(nf))
    resmap = _residue_index(top)
    all_sel = np.ones(na, dtype=bool)

    # ---- defaults -------------------------------------------------------------------------------------------
    if n == 960 and case["probe"] == 0.14 and cr is None:
        d = md.shrake_rupley(t[f0])
        ctx.check(_same_bits(d[0], single[f0]), "defaults", "defaults:differ-from-probe0.14-n960-atom",
                  "shrake_rupley(traj) differs from the explicit probe_radius=0.14, n_sphere_points=960, mode='atom' call")

    # ---- residue mode, single frame ---------------------------------------------------------------------------
    res1 = _sr(t[f0], case, cr, mode="residue")
    if res1.shape != (1, nres):
        ctx.violation("shape", "residue-mode:shape", f"residue mode returned shape {res1.shape} for {nres} residues")
        return
    _check_residue_sum(ctx, "residue.sum-of-atoms", "residue-mode:not-sum-of-atom-mode", res1[0], single[f0], resmap, nres, all_sel,
                       "single frame")

    # ---- get_mapping ------------------------------------------------------------------------------------------
    for mode in ("atom", "residue"):
        got = _sr(t[f0], case, cr, mode=mode, get_mapping=True)
        if not (isinstance(got, tuple) and len(got) == 2):
            ctx.violation("mapping", f"get_mapping:{mode}:not-a-pair", f"get_mapping=True returned {type(got).__name__}")
            continue
        arr, mp = got
        expect_arr = single[f0][None] if mode == "atom" else res1
        expect_map = np.arange(na) if mode == "atom" else resmap
        ctx.check(_same_bits(arr, expect_arr), "mapping", f"get_mapping:{mode}:areas-differ-from-plain-call",
                  f"areas returned with get_mapping=True differ from the plain {mode}-mode call")
        okm = np.asarray(mp).shape == (na,) and np.array_equal(np.asarray(mp).astype(np.int64), expect_map)
        ctx.check(okm, "mapping", f"get_mapping:{mode}:mapping-wrong",
                  f"mapping returned in {mode} mode is not the {'atom index' if mode == 'atom' else 'residue index of each atom'}",
                  mapping=np.asarray(mp)[:16])
        if okm and mode == "residue":
            _check_residue_sum(ctx, "mapping", "get_mapping:residue:areas-inconsistent-with-mapping", arr[0], single[f0],
                               np.asarray(mp).astype(np.int64), nres, all_sel, "get_mapping")

    # ---- radii metamorphic relations --------------------------------------------------------------------------
    present = sorted(set(sym))
    if all(s in O.RADII for s in present):
        same = {s: O.RADII[s] for s in present[: 1 + int(rng.integers(len(present)))]}
        if cr:
            same = dict(same, **cr)
        m1 = md.shrake_rupley(t[f0], probe_radius=case["probe"], n_sphere_points=n, change_radii=same)
        ctx.check(_same_bits(m1[0], single[f0]), "radii.metamorphic", "change_radii:restating-documented-values-changes-result",
                  "change_radii that restates the documented radii changes the areas", change_radii=same)
    if cr:
        ctx.check(dict(msasa._ATOMIC_RADII) == table_before, "radii.metamorphic", "change_radii:leaks-into-module-table",
                  "a call with change_radii modified the module-level radii table")
        try:
            R0 = O.expanded_radii(sym, case["probe"], None)
        except KeyError:
            R0 = None
        if R0 is not None:
            p0 = md.shrake_rupley(t[f0], probe_radius=case["probe"], n_sphere_points=n)
            lo, hi = O.reference_counts(t.xyz[f0], R0, n)
            _judge_counts(ctx, p0[0], R0, lo, hi, n, "after-change_radii-call:default-radii", sym)

    # ---- atom_indices subsets ---------------------------------------------------------------------------------
    minus1 = _bits(np.array([-1.0], np.float32))[0]
    for _ in range(2):
        idx, container, style = _subset(rng, na, wide=bool(w))
        if container == "range" and not isinstance(_as_container(idx, container), range):
            container = "list"
        ctx.observe("subset", f"{style}/{container}")
        mask = np.zeros(na, dtype=bool)
        mask[idx] = True
        sa = sr_ = None
        failed = False
        for mode_ in ("atom", "residue"):
            try:
                r_ = _sr(t[f0], case, cr, mode=mode_, atom_indices=_as_container(idx, container))
            except Exception as e:  # valid indices of existing atoms: nothing to refuse
                failed = True
                if container == "tuple" and isinstance(e, IndexError):
                    ctx.violation("subset.container", TUPLE_KEY,
                                  f"atom_indices given as a tuple of {len(idx)} valid indices raises IndexError: {e}", n_indices=len(idx))
                    break
                ctx.violation("subset.kept-bit-identical" if mode_ == "atom" else "subset.residue",
                              f"atom_indices:{mode_}-mode:raises:{type(e).__name__}",
                              f"atom_indices ({style}, {container}, {len(idx)} valid indices) in {mode_} mode raises {type(e).__name__}: {e}",
                              subset=idx[:20])
                continue
            if mode_ == "atom":
                sa = r_
            else:
                sr_ = r_
        if failed and (container == "tuple" or sa is None):
            continue
        if container == "tuple":
            # a tuple is an iterable of indices (docstring) but sasa.py uses it as a numpy index: judged on its own
            # monitor so that this mechanism cannot hide in, or be hidden by, the subset monitors
            mask_t = np.zeros(na, dtype=bool)
            mask_t[idx] = True
            exp_t = np.where(mask_t, single[f0], np.float32(-1.0)).astype(np.float32)
            ctx.check(_same_bits(sa[0], exp_t), "subset.container", TUPLE_KEY,
                      f"atom_indices given as a tuple of {len(idx)} indices: result differs from the same indices given as a list "
                      f"(first values {sa[0][:4]}, expected {exp_t[:4]})", n_indices=len(idx))
            continue
        if sa.shape != (1, na):
            ctx.violation("shape", "atom_indices:atom-mode:shape", f"shape {sa.shape}")
            continue
        kept_ok = bool(np.array_equal(_bits(sa[0][mask]), _bits(single[f0][mask])))
        if kept_ok:
            ctx.ok("subset.kept-bit-identical", int(mask.sum()))
        else:
            j = int(np.where(mask)[0][np.argmax(_bits(sa[0][mask]) != _bits(single[f0][mask]))])
            ctx.violation("subset.kept-bit-identical", "atom_indices:atom-mode:kept-atom-value-changed",
                          f"atom {j} kept by atom_indices ({style}) has {sa[0][j]:.9g}, unrestricted call gives {single[f0][j]:.9g}",
                          atom=j, subset=idx[:20])
        un = ~mask
        if un.any():
            okm = bool(np.all(_bits(sa[0][un]) == minus1))
            ctx.check(okm, "subset.unselected-minus-one", "atom_indices:atom-mode:unselected-not-minus-one",
                      f"unselected atoms are not exactly -1: {sa[0][un][:6]}", subset=idx[:20])
        if sr_ is None:
            continue
        if sr_.shape != (1, nres):
            ctx.violation("shape", "atom_indices:residue-mode:shape", f"shape {sr_.shape}")
            continue
        _check_residue_sum(ctx, "subset.residue", "atom_indices:residue-mode:not-sum-over-selected-atoms-or-minus-one", sr_[0], single[f0],
                           resmap, nres, mask, f"atom_indices ({style})")

    # ---- multi-frame call: every frame equals its single-frame value ------------------------------------------
    T = case["threads"]
    ctx.observe("team_size", T)
    starts = set(O.static_chunk_starts(nf, T))
    ctx.observe("frame_position", "first-of-chunk", len(starts))
    if nf - len(starts):
        ctx.observe("frame_position", "later-in-chunk", nf - len(starts))
    sub_idx, sub_cont, sub_style = _subset(rng, na)
    if w:
        # widened: get_mapping together with atom_indices on the whole multi-frame trajectory
        set_team(T)
        msel = np.zeros(na, dtype=bool)
        msel[list(sub_idx)] = True
        for mode in ("atom", "residue"):
            plain = _sr(t, case, cr, mode=mode, atom_indices=list(sub_idx))
            got = _sr(t, case, cr, mode=mode, atom_indices=list(sub_idx), get_mapping=True)
            if not (isinstance(got, tuple) and len(got) == 2):
                ctx.violation("mapping", f"get_mapping:{mode}:with-atom_indices:not-a-pair", f"returned {type(got).__name__}")
                continue
            ctx.check(_same_bits(got[0], plain), "mapping", f"get_mapping:{mode}:with-atom_indices:areas-differ-from-plain-call",
                      f"areas returned with get_mapping=True and atom_indices differ from the same call without get_mapping ({nf} frames)")
            expect_map = np.arange(na) if mode == "atom" else resmap
            ctx.check(np.asarray(got[1]).shape == (na,) and np.array_equal(np.asarray(got[1]).astype(np.int64), expect_map), "mapping",
                      f"get_mapping:{mode}:with-atom_indices:mapping-wrong", "mapping returned together with atom_indices is not the "
                      f"{'atom index' if mode == 'atom' else 'residue index of each atom'}")
    variants = [("atom", None), ("residue", None), ("atom", sub_idx), ("residue", sub_idx)]
    atom_multi = None
    carry_confirmed = False
    for mode, ai in variants:
        set_team(T)
        kw = {} if ai is None else {"atom_indices": list(ai)}
        multi = _sr(t, case, cr, mode=mode, **kw)
        dim = na if mode == "atom" else nres
        if multi.shape != (nf, dim):
            ctx.violation("shape", f"multiframe:{mode}:shape", f"shape {multi.shape}, expected {(nf, dim)}")
            continue
        mask = np.ones(na, dtype=bool)
        if ai is not None:
            mask = np.zeros(na, dtype=bool)
            mask[list(ai)] = True
        # expected single-frame values of this variant
        if mode == "atom":
            exp = np.where(mask[None, :], single, np.float32(-1.0)).astype(np.float32)
        else:
            exp = np.vstack([_sr(t[f], case, cr, mode="residue", **kw) for f in range(nf)])
        mism = [f for f in range(nf) if not _same_bits(multi[f], exp[f])]
        label = f"{mode}{'' if ai is None else '+atom_indices'}"
        if mode == "atom" and ai is None:
            atom_multi = multi
        if mode == "residue" and atom_multi is not None:
            for f in range(nf):
                _check_residue_sum(ctx, "residue.sum-of-atoms", "residue-mode:multi-frame:not-sum-of-atom-mode-of-same-call", multi[f],
                                   atom_multi[f], resmap, nres, mask, f"multi-frame call, frame {f}")
        ctx.ok("multiframe.frame-equals-single", nf - len(mism))
        if not mism:
            continue
        later = [f for f in mism if f not in starts]
        first = [f for f in mism if f in starts]
        f = mism[0]
        j = int(np.argmax(_bits(multi[f]) != _bits(exp[f])))
        detail = dict(mode=label, n_frames=nf, team=T, mismatching_frames=mism, chunk_starts=sorted(starts), frame=f, column=j,
                      multi=float(multi[f, j]), single=float(exp[f, j]))
        what = (f"{label}, {nf} frames, team {T}: frame {f} column {j} is {multi[f, j]:.9g} in the multi-frame call but "
                f"{exp[f, j]:.9g} when computed alone (mismatching frames {mism}, chunk starts {sorted(starts)})")
        if first:
            ctx.violation("multiframe.frame-equals-single", f"multiframe:{mode}:first-frame-of-a-thread-chunk-differs-from-single-frame-value",
                          what, **detail)
            continue
        if not oracle_ok:
            ctx.violation("multiframe.frame-equals-single", f"multiframe:{mode}:differs-from-single-frame-value(single-frame-also-off-oracle)",
                          what, **detail)
            continue
        if mode == "atom":
            unit = O.area_per_point(R, n)
            fits = True
            for f in later:
                pred = (multi[f - 1].astype(np.float64) + counts[f]) * unit
                sel = mask
                err = np.abs(multi[f].astype(np.float64)[sel] - pred[sel])
                if np.any(err > 1e-5 * np.abs(pred[sel]) + 1e-9):
                    fits = False
            if fits:
                carry_confirmed = True
                ctx.violation("multiframe.frame-equals-single", KNOWN_CARRY,
                              what + "; values obey multi[f] = (multi[f-1] + count[f]) * 4piR^2/n: the accessible-point counter of "
                              "the previous frame handled by the same thread was not cleared", **detail)
            else:
                ctx.violation("multiframe.frame-equals-single", "multiframe:atom:later-frame-differs-not-explained-by-carry-over", what, **detail)
        else:
            # residue mode: same mechanism iff the atom-mode call of this case showed the confirmed carry-over and the
            # residue values are the sums of that call's atom values (checked above by residue.sum-of-atoms)
            if carry_confirmed:
                ctx.violation("multiframe.frame-equals-single", KNOWN_CARRY, what + " (residue sums of the carried-over atom values)", **detail)
            else:
                ctx.violation("multiframe.frame-equals-single", "multiframe:residue:later-frame-differs-not-explained-by-carry-over", what, **detail)
    if w and case["kind"] != "lattice":
        _history(ctx, case, t, sym, cr, rng, f0)


def _history(ctx, case, t, sym, cr, rng, f0):
    """widened class: state that may live on the Topology object across calls.  shrake_rupley has been called on `t`
    (same Topology object) many times; the topology is now edited IN PLACE through its public API (an atom's element
    changed, an atom inserted, an atom deleted) and the next call on the same object is judged by the oracle."""
    import mdtraj as md
    from mdtraj.core import element as elem
    top = t.topology
    na = t.n_atoms
    n = case["n_points"]
    edit = ["element", "insert", "delete"][int(rng.integers(3))]
    if top.n_bonds and edit == "delete":
        edit = "element"  # delete_atom_by_index leaves the bonds of the atom behind: not a clean topology
    if na < 2 and edit == "delete":
        edit = "insert"
    j = int(rng.integers(na))
    if edit == "delete" and top.atom(j).residue.n_atoms < 2:
        edit = "element"  # an emptied residue is refused by residue mode ("contiguous integer indices"): documented
    x = t.xyz[f0].astype(np.float64)
    sym2 = list(sym)
    if edit == "element":
        new = [e for e in COMMON_EL + ["Cl", "Na", "Rb"] if e != sym[j]][int(rng.integers(len(COMMON_EL) + 2))]
        top.atom(j).element = elem.get_by_symbol(new)
        sym2[j] = new
    elif edit == "insert":
        new = COMMON_EL[int(rng.integers(len(COMMON_EL)))]
        res = top.atom(j).residue
        rindex = [a.index for a in res.atoms].index(j)
        top.insert_atom("XI", elem.get_by_symbol(new), res, index=j, rindex=rindex)
        v = rng.normal(size=3)
        x = np.insert(x, j, x[j] + 0.11 * v / np.linalg.norm(v), axis=0)
        sym2.insert(j, new)
    else:
        top.delete_atom_by_index(j)
        x = np.delete(x, j, axis=0)
        del sym2[j]
    ctx.observe("in-place topology edit between calls", edit)
    x32 = x.astype(np.float32)[None]
    if _min_sep(x32[0]) < 0.02:
        ctx.skip("history.atom-count", "inserted atom (nearly) coincides with another")
        return
    try:
        R = O.expanded_radii(sym2, case["probe"], cr)
    except KeyError:
        ctx.skip("history.atom-count", "element without a documented radius")
        return
    t2 = md.Trajectory(x32, top)  # the SAME Topology object
    out = _sr(t2, case, cr)
    if out.shape != (1, len(sym2)):
        ctx.violation("history.atom-count", "after-in-place-topology-edit:shape", f"shape {out.shape} for {len(sym2)} atoms after {edit}")
        return
    lo, hi = O.reference_counts(x32[0], R, n)
    a = out[0].astype(np.float64)
    cnt = a / O.area_per_point(R, n)
    ci = np.round(cnt)
    decided = ~((lo == 0) & (hi == n))
    bad = decided & ((np.abs(cnt - ci) > 32 * O.EPS32 * np.maximum(ci, 1.0)) | (ci < lo) | (ci > hi))
    if bad.any():
        k = int(np.argmax(bad))
        ctx.violation("history.atom-count", f"after-in-place-topology-edit:{edit}:areas-do-not-follow-the-edited-topology",
                      f"after {edit} on the Topology object used by earlier calls: atom {k} ({sym2[k]}, R={R[k]:.4f}) has area {a[k]:.8g} = "
                      f"{cnt[k]:.4f} points of 4piR^2/n, the reference for the edited topology admits {lo[k]}..{hi[k]} of {n}",
                      edit=edit, atom=k, edited_atom=j)
    ctx.ok("history.atom-count", int((decided & ~bad).sum()))
    res_out = _sr(t2, case, cr, mode="residue")
    if res_out.shape != (1, top.n_residues):
        ctx.violation("history.residue", "after-in-place-topology-edit:residue-mode:shape", f"shape {res_out.shape} for {top.n_residues} residues")
        return
    _check_residue_sum(ctx, "history.residue", f"after-in-place-topology-edit:{edit}:residue-mode:not-sum-of-atom-mode", res_out[0], out[0],
                       _residue_index(top), top.n_residues, np.ones(len(sym2), dtype=bool), f"after {edit}")


def run_two(case, ctx):
    import mdtraj as md
    _, sym, cr, rng, extra = _build(case)
    n = case["n_points"]
    try:
        R = O.expanded_radii(sym, case["probe"], cr)
    except KeyError:
        ctx.skip("analytic.two-sphere", "element without a documented radius")
        return
    R1, R2 = float(R[0]), float(R[1])
    for _rep in range(8):
        _two_once(case, ctx, rng, sym, cr, R, R1, R2, n)


def _two_once(case, ctx, rng, sym, cr, R, R1, R2, n):
    import mdtraj as md
    cls = ["overlap", "overlap", "overlap", "contained", "apart", "near-tangent"][int(rng.integers(6))]
    if cls == "overlap":
        if R1 + R2 <= max(abs(R1 - R2), 0.05):
            ctx.skip("two-sphere", "two spheres of (almost) no extent: no partial overlap to construct")
            return
        d = float(rng.uniform(max(abs(R1 - R2), 0.05), R1 + R2))
    elif cls == "contained":
        d = float(rng.uniform(0.05, max(abs(R1 - R2), 0.051)))
    elif cls == "apart":
        d = float(rng.uniform(R1 + R2 + 0.001, R1 + R2 + 1.0))
    else:
        d = float(R1 + R2 - rng.uniform(0.0005, 0.02))
    d = max(d, 0.05)
    ax = rng.normal(size=3)
    ax /= np.linalg.norm(ax)
    c1 = rng.uniform(-5, 5, 3) if rng.random() < 0.5 else np.zeros(3)
    xyz = np.array([[c1, c1 + d * ax]], dtype=np.float32)
    x64 = xyz[0].astype(np.float64)
    dv = x64[1] - x64[0]
    d = float(np.linalg.norm(dv))
    ax = dv / d
    ctx.observe("two_sphere_class", cls)
    t = md.Trajectory(xyz, _topology(rng, sym))
    out = _sr(t, case, cr)[0].astype(np.float64)
    lo, hi = O.reference_counts(xyz[0], R, n)
    _judge_counts(ctx, out.astype(np.float32), R, lo, hi, n, "two-sphere", sym)
    for a, (Ra, Rb, axis) in enumerate([(R1, R2, ax), (R2, R1, -ax)]):
        exact = O.two_sphere_area(Ra, Rb, d)
        unit = 4 * math.pi * Ra * Ra / n
        nb = O.cap_boundary_points(n, axis, Ra, Rb, d)
        if nb is None:
            # no cut circle: area is the full sphere or zero, unless the configuration is within the band of tangency
            if min(abs(d - (Ra + Rb)), abs(d - abs(Ra - Rb))) <= 1e-4:
                ctx.skip("analytic.two-sphere", "spheres within 1e-4 nm of tangency")
                continue
            bound = 32 * O.EPS32 * max(exact, unit)
        else:
            bound = (nb + 1) * unit + 32 * O.EPS32 * exact
        ctx.observe("two_sphere_boundary_points", "none" if nb is None else min(nb, 50) // 10 * 10)
        if abs(out[a] - exact) <= bound:
            ctx.ok("analytic.two-sphere")
        else:
            ctx.violation("analytic.two-sphere", "two-sphere:area-outside-quadrature-bound-of-analytic-cap-formula",
                          f"sphere R={Ra:.4f} cut by R={Rb:.4f} at d={d:.5f} ({cls}): area {out[a]:.8g}, analytic {exact:.8g}, "
                          f"bound {bound:.3g} ({nb} boundary points of {n})", R1=Ra, R2=Rb, d=d, n_points=n)
