"""C17 — unit-cell lengths/angles and box vectors describe the same cell.

Part A (cell algebra; differential oracle vlib/oracle/c17_cell.py, float64, never calls mdtraj)
  A trajectory is given float32 lengths/angles (the stored cell).  Judged on what the REAL getters return:
  * vec.lengths      |row_i| == stored length_i                      rel 1e-6 (= 17 eps32; analysed error <= 4 eps32)
  * vec.angles       angle(b,c)=alpha, angle(c,a)=beta, angle(a,b)=gamma
                     tol(theta) = deg(8 eps32) + deg(32 eps32)/sin(theta) + deg(2e-6 * (1/|u| + 1/|v|))
                     (radian conversion in float32; float32 cos/sin/quotient recovered through 1/sin; the last term is
                      the documented "snap |x|<1e-6 nm to 0" quantum of lengths_and_angles_to_box_vectors).
                     deg(32 eps32) = 1.1e-4 degrees, i.e. the design's "1e-4 deg / sin".
  * vec.angle-naming same comparison, only cells whose three angles differ pairwise by > 2 degrees: a reported triple
                     that matches a non-identity permutation of the stored angles gets its own key
  * vec.orientation  a = (a,0,0) exactly, b_z == 0 exactly, a_x > 0, b_y > 0, c_z > 0
  * vol.triple       unitcell_volumes == a.(b x c) of the reported vectors, abs 16 eps32 |a||b||c| (float32 LU), > 0
  * vol.closed       unitcell_volumes == abc sqrt(1-ca^2-cb^2-cg^2+2 ca cb cg) of the stored values,
                     rel (40 sin(gamma) + extra) eps32 / D + 16 eps32  (cancellation in c_z^2, see oracle docstring);
                     cells whose bound exceeds 0.1 (D < ~2e-5) are skipped as ill-conditioned in float32
  * rot64.* / rot32.*  unitcell_vectors := a properly rotated float64 / float32 description B R^T of the cell;
                     lengths/angles/volumes read back must be the cell's values.  float64 path: rel 1e-9, 1e-9 deg/sin,
                     volume rel 1e-9/D + snap 1e-6 (ab+bc+ca); float32 path: 8 eps32, deg(8 eps32)+deg(32 eps32)/sin,
                     volume bound with extra = 200 eps32/D (stored angles carry <= 32 eps32/sin each).
  * util.*           mdtraj.utils.lengths_and_angles_to_box_vectors / box_vectors_to_lengths_and_angles called directly
                     with python scalars, numpy scalars and (n,) arrays in float64: components against the oracle
                     (abs 1e-6 snap + 1e-12 L), output shapes (3,) / (n,3), inverse on rotated vectors (rel 1e-12,
                     1e-9 deg/sin).
Part B (history model; M3)
  A few-line model shadows a pool of trajectories through random op histories (and an exhaustive enumeration of all
  setter sequences up to length 2/3 followed by every op).  Model state per trajectory: lengths array or None, angles
  array or None ("complete" iff both).  Ops: unitcell_lengths / unitcell_angles / unitcell_vectors assignments (arrays,
  None, all-zero vectors, (3,) for one frame), t[key], t.slice(key, copy=), join / + / md.join / join([..]) /
  discard_overlapping_frames, stack, atom_slice(inplace=), save+load through h5 xtc trr dcd nc pdb gro lammpstrj
  mdcrd dtr rst7 ncrst (optionally load(stride=, atom_indices=)).
  * history.presence  result has a complete cell (both arrays, shape (n_frames,3)) iff the model says its input had one
  * history.values    the per-frame values follow numpy indexing / concatenation, within
                      (1+nconv) * [8 eps32 L ; angle_tol32] + the format quantum (pdb 1e-3 A & 0.01 deg, gro 1e-5 nm
                      per component, mdcrd 1e-3 A, lammpstrj float32 bounds next to |xyz| and allclose(90) snap, ...)
  * history.getters   unitcell_vectors / unitcell_volumes are None iff the cell is not complete, else shapes
                      (n,3,3)/(n,) and volume == closed form
  Documented refusals (join mixing cell/no-cell, save of a half-set cell refused by _check_valid_unitcell, mdcrd with a
  skewed cell, lammpstrj/dtr without cell) are skips.  A half-set cell must never come out complete, and an op that a
  no-cell trajectory survives must not die with an internal error on a half-set one.
Widened input classes (same monitors, same oracle, same tolerances; case kinds algebra[var/n/form/vform], util2, history2,
sweep2, io, foreign; merged proportionally into the round-1 stream)
  * algebra: the cell CLASS changes along the trajectory (mixed classes, rectangular first frames then skewed, skew only in
    the last frames, two cells alternating), only ONE of the six fields varies per frame, 1 / 2 / 130 / 260 frames; the cell
    handed over as float64, nested lists / tuples, strided views, Fortran order, angles before lengths, after another cell
    had been set; rotated vectors handed over as strided / Fortran / transposed / read-only arrays
  * util2: float32 arrays and scalars (judged like the getter), strided / reversed / read-only views, 0-d arrays, > 100
    frames, lengths_and_angles_to_tilt_factors (scalars -> 6 values lx ly lz xy xz yz, arrays -> (6, n); against the
    oracle's standard-orientation vectors, abs 1e-9 L / D), the docstring examples, the exact special angles
  * history2 / sweep2 (every new op on every cell state): center_coordinates(mass_weighted), superpose (reference = self /
    another object, frame, atom_indices, parallel), smooth (order, atom_indices, inplace), image_molecules (inplace,
    make_whole, anchor_molecules), make_molecules_whole, remove_solvent (inplace, exclude), restrict_atoms (default inplace
    / copy), xyz / time assignment, deepcopy, an in-place edit of one stored entry (vectors and volumes are derived on
    access), keys np.int64 / int32 arrays / negative step with bounds, join(check_topology=False), md.join of tuple /
    generator / one trajectory / discard_overlapping_frames over three, join([a, b], discard_overlapping_frames=True),
    t.join(t), t + t, t.stack(t), stack(keep_resSeq=False), atom_slice with int32 array / unsorted list / range, setter
    values as tuples / integer arrays / strided / Fortran / read-only arrays
  * io: format (h5 xtc trr dcd nc netcdf ncdf pdb pdb.gz gro lammpstrj mdcrd crd dtr xyz xyz.gz rst7 ncrst; .hdf5 .restrt
    .inpcrd on the loading side; paths with capitals) x writer (Trajectory.save, save_<fmt> with its options: mode='a',
    precision, header/ter/bfactors, force_overwrite over a stale file; the format's file object / md.open(path,'w') with one
    write(), one write() per frame with (3,)-shaped cells, two chunks, h5 reopened in append mode; cell as float64 / float32
    / list / strided array / box) x loader (md.load, load_<fmt>, stride, atom_indices, both, frame=, load_frame, iterload
    with chunk / skip / stride / default chunk, file-object read_as_traj in two calls, raw read(), a list of two files with
    and without discard_overlapping_frames), trajectories of 100 / 101 / 130 / 257 frames, numbered restart files of a
    multi-frame trajectory.  A format that stores no cell (xyz) is a skip for a complete input and must not invent one.
  * foreign: cell-carrying files as other programs write them (vlib/gen/c17_files.py): DCD with the angles in degrees
    (X-PLOR / NAMD 2.5) instead of cosines, .gro with a 3-number and with a 9-number box line, PDB CRYST1 with space group
    and Z preceded by HEADER/REMARK and followed by ORIGX/SCALE, LAMMPS dumps in %.16e with other boundary flags, a box
    origin away from the atoms and negative tilts, TINKER .arc with a box line, AMBER restart with velocities before the
    box line, mdcrd of another writer, double- and single-precision TRR with velocity / force blocks.
  Not drawn because recorded elsewhere or not offered: trr with stride and an atom subset together (C02 heap overflow),
  xtc/trr iterload(skip>0) (C02), dtr partial reads (C02), gro load(frame=) (NotImplementedError), NetCDF append mode (not
  offered), gsd / pdbx (gsd, openmm not installed), lh5 (saver broken by the installed PyTables, stores no cell).
"""
from __future__ import annotations

import itertools
import os
import shutil
import tempfile
import warnings

import numpy as np

from vlib.gen import common
from vlib.oracle import c17_cell as oc

PROPERTY = "C17"
LEVEL = "exploration"
NATIVE = ["mdtraj.formats.xtc", "mdtraj.formats.trr", "mdtraj.formats.dcd", "mdtraj.formats.dtr"]
RULE = ("cases = algebra batches (cell class x per-frame variation x rotation kind, 24 cells each), direct utility calls, "
        "random op histories over a pool of trajectories (setter assignments incl. None / zeros / half-set, slicing, "
        "join, stack, atom_slice, save+load through 12 formats) and an exhaustive enumeration of setter sequences "
        "followed by every op; widened classes: cell class / one field changing along the trajectory, 1..260 frames, "
        "container / dtype / memory-layout forms of every setter and utility argument, the tilt-factor utility, ops that "
        "must carry the cell along (center, superpose, smooth, image, whole, remove_solvent, restrict_atoms), join / stack "
        "options, a format x writer x loader matrix over 18 extensions incl. file objects, iterload, frame=, file lists, "
        "> 100 frames, and cell-carrying files as other programs write them; a case is non-trivial when a monitor "
        "compared the real object's cell with the float64 oracle / the history model; distinct = distinct case descriptors")
WORKERS = {"quick": 8, "thorough": 16}
BUDGET = {"quick": 60, "thorough": 900}
FLOORS = {"quick": {"vec.lengths": 2500, "vec.angles": 2500, "vec.orientation": 2500, "vec.angle-naming": 900,
                    "vol.triple": 2500, "vol.closed": 2500, "rot64.readback": 2500, "rot32.readback": 2500,
                    "util.to-vectors": 350, "util.from-vectors": 350, "util.tilt-factors": 150,
                    "history.presence": 6000, "history.values": 9000, "history.getters": 5500}}
ASSUMPTIONS = [
    "physically valid cell = lengths in [0.3, 300] nm, angles satisfying the positivity condition with D >= ~2e-5 "
    "(below that the float32 storage itself cannot represent the volume to 10%; such cells are skipped)",
    "the 1e-6 nm snap-to-zero of lengths_and_angles_to_box_vectors is part of the documented mechanism; its quantum is "
    "added to the angle tolerance instead of being judged",
    "rotated descriptions are proper rotations (det +1); reflections are outside the statement",
    "PDB holds one CRYST1 record per file: after a pdb round trip only frame 0's cell is compared, the other frames are "
    "skipped when the cell varied per frame (presence and shape are still judged for all frames)",
    "operations mdtraj documents as errors (join of cell with no-cell, save of half-set cell, mdcrd with skewed cell, "
    "lammpstrj/dtr without cell) are skips",
    "the unitcell_vectors setter is given an ndarray of shape (n_frames, 3, 3) (class docstring); the 'tuple of three "
    "arrays' wording of the setter's own docstring contradicts its indexing and is not used",
    "python lists are not handed to the mdtraj.utils.unitcell functions (documented: scalar or np.ndarray)",
    "image_molecules / make_molecules_whole without a complete cell, smooth on fewer than 3 frames and superpose on fewer "
    "than 4 atoms are skips; a format without a cell record (xyz) is a skip for a complete input",
    "with several files of a PDB (one CRYST1 each) only the first frame of each file is compared when the cell varies",
]

EPS32 = oc.EPS32
DEG = oc.DEG
CLASSES = list(common.CELL_KINDS) + ["near90", "neardegenerate", "widelengths", "distinct", "triclinic", "neardegenerate"]
ROTS = ["random", "random", "identity", "axisperm", "random", "halfturn", "axisperm-same"]
NCASES = {"quick": dict(algebra=1200, util=600, history=6000, setters=2), "thorough": dict(algebra=8400, util=3000, history=30000, setters=3)}
NCELL = 24


# ------------------------------------------------------------------------------------------------ generators
def _valid(ang, margin):
    return bool(oc.gram_D(ang) > margin)


def gen_cell(rng, cls):
    """one (lengths, angles) pair, float64"""
    if cls in common.CELL_KINDS:
        return common.random_cell(rng, cls)
    L0 = rng.uniform(1.5, 6.0)
    lens = np.array([L0, L0 * rng.uniform(0.4, 2.5), L0 * rng.uniform(0.4, 2.5)])
    if cls == "near90":
        for _ in range(100):
            base = rng.choice([90.0, 90.0, 90.0, 60.0, 120.0], 3)
            d = rng.choice([0.0, 1e-5, 1e-4, 1e-3, 1e-2, 0.1, 1.0], 3) * rng.choice([-1.0, 1.0], 3)
            ang = base + d
            if _valid(ang, 0.05):
                return lens, ang
        return lens, np.array([90.0, 90.001, 89.99])
    if cls == "neardegenerate":
        for _ in range(1000):
            al, be = rng.uniform(35, 145, 2)
            lo, hi = abs(al - be), min(al + be, 360.0 - al - be)
            delta = 10.0 ** rng.uniform(-2.0, 0.8)
            ga = lo + delta if rng.random() < 0.5 else hi - delta
            if not (8.0 < ga < 172.0) or not (lo < ga < hi):
                continue
            ang = np.array([al, be, ga])[rng.permutation(3)]
            ang32 = ang.astype(np.float32).astype(np.float64)
            D = float(oc.gram_D(ang32))
            if 3e-5 < D < 2e-2:
                return lens, ang
        return lens, np.array([60.0, 50.0, 109.0])
    if cls == "widelengths":
        _, ang = common.random_cell(rng, "triclinic")
        lens = 10.0 ** rng.uniform(np.log10(0.3), np.log10(300.0), 3)
        return lens, ang
    if cls == "distinct":
        for _ in range(1000):
            ang = rng.uniform(50, 130, 3)
            if _valid(ang, 0.08) and min(abs(ang[0] - ang[1]), abs(ang[1] - ang[2]), abs(ang[0] - ang[2])) > 5.0:
                break
        else:
            ang = np.array([70.0, 85.0, 105.0])
        lens = L0 * np.array([1.0, 1.35, 1.9])[rng.permutation(3)]
        return lens, ang
    raise ValueError(cls)


VARIATIONS = ["mixedclass", "firstortho", "lateskew", "onefield", "alternate"]
CELL_FORMS = ["ctor64", "set-lists", "set-angles-first", "noncontig", "fortran", "tuple-rows", "reassign"]
VEC_FORMS = ["noncontig", "fortran", "transposed", "readonly", "plain"]


def vary_cells(rng, cls, n, var):
    """per-frame cells where the cell CLASS, or only ONE of the six fields, changes along the trajectory"""
    if var == "mixedclass":
        return [gen_cell(rng, CLASSES[int(rng.integers(len(CLASSES)))]) for _ in range(n)]
    skew = cls if cls not in ("cubic", "ortho") else "triclinic"
    if var == "firstortho":  # the first frames rectangular, the rest skewed: anything decided on frame 0 is wrong later
        k = min(n, int(rng.integers(1, max(2, n // 2))))
        return [gen_cell(rng, ["ortho", "cubic"][int(rng.integers(2))]) for _ in range(k)] + [gen_cell(rng, skew) for _ in range(n - k)]
    if var == "lateskew":  # the feature appears only in the last frames
        k = int(rng.integers(1, min(4, n + 1)))
        return [gen_cell(rng, "ortho") for _ in range(n - k)] + [gen_cell(rng, skew) for _ in range(k)]
    if var == "alternate":
        two = [gen_cell(rng, cls), gen_cell(rng, skew)]
        return [two[f % 2] for f in range(n)]
    if var == "onefield":
        L0, A0 = gen_cell(rng, cls)
        D0 = float(oc.gram_D(A0))
        out = []
        for _ in range(n):
            L, A = np.array(L0, np.float64), np.array(A0, np.float64)
            j = int(rng.integers(6))
            if j >= 3:
                A[j - 3] += rng.uniform(0.5, 4.0) * (1 if rng.random() < 0.5 else -1)
                D = float(oc.gram_D(A.astype(np.float32).astype(np.float64)))
                if not (D > max(3e-5, 0.5 * min(D0, 0.05)) and 8.0 < A[j - 3] < 172.0):
                    A = np.array(A0, np.float64)
                    j = int(rng.integers(3))
            if j < 3:
                L[j] *= rng.uniform(0.8, 1.25)
            out.append((L, A))
        return out
    raise ValueError(var)


def _array_form(W, form):
    """the same values handed over as a different kind of ndarray"""
    if form == "plain":
        return W
    if form == "noncontig":
        big = np.zeros(W.shape[:-1] + (2 * W.shape[-1],), W.dtype)
        big[..., ::2] = W
        return big[..., ::2]
    if form == "fortran":
        return np.asfortranarray(W)
    if form == "transposed":
        ax = list(range(W.ndim))
        ax[-1], ax[-2] = ax[-2], ax[-1]
        return np.ascontiguousarray(W.transpose(ax)).transpose(ax)
    if form == "readonly":
        W = W.copy()
        W.flags.writeable = False
        return W
    raise ValueError(form)


def _build_with_cell(md, n, L, A, form):
    xyz, top = np.zeros((n, 1, 3), np.float32), common.simple_topology(1)
    L32, A32 = L.astype(np.float32), A.astype(np.float32)
    if form == "ctor32":
        return md.Trajectory(xyz, top, unitcell_lengths=L32, unitcell_angles=A32)
    if form == "ctor64":
        return md.Trajectory(xyz, top, unitcell_lengths=L, unitcell_angles=A)
    t = md.Trajectory(xyz, top)
    if form == "set-lists":
        t.unitcell_lengths, t.unitcell_angles = L.tolist(), A.tolist()
    elif form == "set-angles-first":
        t.unitcell_angles = A32
        t.unitcell_lengths = L32
    elif form == "noncontig":
        t.unitcell_lengths, t.unitcell_angles = _array_form(L, "noncontig"), _array_form(A32, "noncontig")
    elif form == "fortran":
        t.unitcell_lengths, t.unitcell_angles = np.asfortranarray(L32), np.asfortranarray(A)
    elif form == "tuple-rows":
        t.unitcell_lengths, t.unitcell_angles = tuple(map(tuple, L.tolist())), tuple(map(tuple, A.tolist()))
    elif form == "reassign":  # another cell first: nothing of it may survive the second assignment
        t.unitcell_vectors = np.tile(np.eye(3, dtype=np.float32) * 2.0, (n, 1, 1))
        _ = t.unitcell_volumes
        t.unitcell_lengths, t.unitcell_angles = L32, A32
    else:
        raise ValueError(form)
    return t


def gen_cases(tier, seed):
    """round-1 stream and widened stream, merged proportionally (each keeps its own order and numbering) so that a
    budget-truncated run has seen the same fraction of both"""
    a, b = list(_gen_cases_round1(tier, seed)), list(_gen_cases_widened(tier, seed))
    ia = ib = 0
    while ia < len(a) or ib < len(b):
        if ib >= len(b) or (ia < len(a) and ia * len(b) <= ib * len(a)):
            yield a[ia]
            ia += 1
        else:
            yield b[ib]
            ib += 1


def _gen_cases_round1(tier, seed):
    n = NCASES[tier]
    i = 0
    # exhaustive setter sequences first (deterministic, small)
    depth = n["setters"]
    for k in range(1, depth + 1):
        for seq in itertools.product(range(len(SETTERS)), repeat=k):
            yield dict(i=i, kind="setters", seq=list(seq), seed=common.case_seed(seed, "C17s", i))
            i += 1
    total = n["algebra"] + n["util"] + n["history"]
    na = nu = nh = 0
    for j in range(total):
        # interleave proportionally so that a budget-truncated run still saw every kind
        fa, fu, fh = na / n["algebra"], nu / n["util"], nh / n["history"]
        m = min(fa, fu, fh)
        if m == fa and na < n["algebra"]:
            cls = CLASSES[na % len(CLASSES)]
            yield dict(i=i, kind="algebra", cls=cls, perframe=bool((na // len(CLASSES)) % 3 != 2),
                       rot=ROTS[(na // 3) % len(ROTS)], seed=common.case_seed(seed, "C17a", i))
            na += 1
        elif m == fu and nu < n["util"]:
            yield dict(i=i, kind="util", cls=CLASSES[nu % len(CLASSES)], seed=common.case_seed(seed, "C17u", i))
            nu += 1
        else:
            deep = tier == "thorough" and nh % 4 == 0
            yield dict(i=i, kind="history", n_ops=int(30 if deep else 14), seed=common.case_seed(seed, "C17h", i),
                       cells="any" if nh % 3 else "ortho")
            nh += 1
        i += 1


# ------------------------------------------------------------------------------------------------ part A
def _rotations(rng, kind, n):
    R = np.zeros((n, 3, 3))
    if kind in ("halfturn", "axisperm-same"):
        # ONE axis rotation for the whole trajectory (the same re-orientation of every frame): a half turn about x, y or z
        # keeps a rectangular cell's vectors on the coordinate axes, two of them pointing the negative way
        S = np.diag([(1, -1, -1), (-1, 1, -1), (-1, -1, 1)][int(rng.integers(3))]).astype(float)
        P = np.eye(3) if kind == "halfturn" else np.eye(3)[list([(0, 1, 2), (1, 2, 0), (2, 0, 1)][int(rng.integers(3))])]
        R[:] = P @ S
        return R
    for f in range(n):
        if kind == "identity":
            R[f] = np.eye(3)
        elif kind == "axisperm":
            P = np.eye(3)[list([(0, 1, 2), (1, 2, 0), (2, 0, 1)][int(rng.integers(3))])]
            S = np.diag([(1, 1, 1), (1, -1, -1), (-1, 1, -1), (-1, -1, 1)][int(rng.integers(4))]).astype(float)
            R[f] = P @ S  # even permutation times even number of sign flips: det +1
        else:
            R[f] = common.random_rotation(rng)
    return R


def _margin(ctx, name, err, tol, sel=None):
    """record how much of the tolerance the conforming executions used (largest err/tol of the batch)"""
    err, tol = np.broadcast_arrays(np.asarray(err, np.float64), np.asarray(tol, np.float64))
    if sel is not None:
        err, tol = err[sel], tol[sel]
    if err.size == 0:
        return
    r = float(np.nanmax(err / np.clip(tol, 1e-300, None)))
    for lim, lab in ((1 / 64, "<1/64"), (1 / 16, "<1/16"), (1 / 4, "<1/4"), (1 / 2, "<1/2"), (1.0, "<1")):
        if r < lim:
            ctx.observe("tolerance-used." + name, lab)
            return
    ctx.observe("tolerance-used." + name, ">=1")


def _first(mask):
    return int(np.argmax(mask))


def run_algebra(case, ctx):
    import mdtraj as md
    rng = common.rng_for("C17alg", case["seed"])
    cls = case["cls"]
    n = int(case.get("n", NCELL))
    var = case.get("var")
    if var is not None:
        cells = vary_cells(rng, cls, n, var)
        ctx.observe("algebra.variation", var)
        ctx.observe("algebra.frames", n)
    elif case["perframe"]:
        cells = [gen_cell(rng, cls) for _ in range(n)]
    else:
        cells = [gen_cell(rng, cls)] * n
    L = np.array([c[0] for c in cells])
    A = np.array([c[1] for c in cells])
    L32, A32 = L.astype(np.float32), A.astype(np.float32)
    ctx.observe("algebra.class", cls)
    ctx.observe("algebra.perframe", case["perframe"])
    form = case.get("form", "ctor32")
    t = _build_with_cell(md, n, L, A, form)
    if form != "ctor32":
        ctx.observe("algebra.cell-input-form", form)
    Ls = np.asarray(t.unitcell_lengths, np.float64)
    As = np.asarray(t.unitcell_angles, np.float64)
    if Ls.shape != (n, 3) or As.shape != (n, 3) or not (np.array_equal(Ls, L32.astype(np.float64)) and np.array_equal(As, A32.astype(np.float64))):
        ctx.violation("vec.stored", "constructor:stored-cell-differs-from-float32-of-assigned",
                      "unitcell_lengths/angles read back differ from the float32 values assigned")
        return
    ctx.ok("vec.stored", n)
    D = oc.gram_D(As)
    vtol = oc.volume_reltol32(As)
    wellcond = vtol <= 0.1
    ctx.observe("algebra.log10D", int(np.floor(np.log10(D.min()))))
    V = t.unitcell_vectors
    vol = t.unitcell_volumes
    if V is None or vol is None or np.shape(V) != (n, 3, 3) or np.shape(vol) != (n,):
        ctx.violation("vec.lengths", "vectors:missing-or-shape", f"unitcell_vectors shape {np.shape(V)}, volumes shape {np.shape(vol)} for {n} frames with a complete cell")
        return
    V = np.asarray(V, np.float64)
    vol = np.asarray(vol, np.float64)
    fin = np.isfinite(V).all(axis=(1, 2)) & np.isfinite(vol)
    if (~fin & wellcond).any():
        f = _first(~fin & wellcond)
        ctx.violation("vec.lengths", "vectors:non-finite", "non-finite box vectors / volume for a well-conditioned cell", lengths=Ls[f], angles=As[f], D=D[f])
    dom = fin & wellcond
    if (~dom).any():
        ctx.skip("vec", "cell too close to degenerate for float32 storage (volume bound > 10%)", int((~dom).sum()))
    if not dom.any():
        return
    Lr, Ar, triple = oc.describe(np.where(fin[:, None, None], V, 1.0))
    # --- lengths
    bad = dom & (np.abs(Lr - Ls) > 1e-6 * Ls).any(axis=1)
    if bad.any():
        f = _first(bad)
        ctx.violation("vec.lengths", "vectors:length-mismatch", f"reported vectors have lengths {Lr[f]} but stored lengths are {Ls[f]}", angles=As[f], vectors=V[f])
    ctx.ok("vec.lengths", int((dom & ~bad).sum()))
    _margin(ctx, "vec.lengths", np.abs(Lr - Ls), 1e-6 * Ls, dom)
    # --- angles
    inv = 1.0 / np.clip(Lr, 1e-9, None)
    snap = 2e-6 * DEG * np.stack([inv[:, 1] + inv[:, 2], inv[:, 2] + inv[:, 0], inv[:, 0] + inv[:, 1]], axis=1)
    atol = oc.angle_tol32(As) + snap
    err = np.abs(Ar - As)
    badf = dom & (err > atol).any(axis=1)
    spread = np.min(np.abs(As[:, [0, 1, 2]] - As[:, [1, 2, 0]]), axis=1)
    distinct = dom & (spread > 2.0)
    named_bad = np.zeros(n, bool)
    for f in np.where(badf)[0]:
        perm_hit = None
        if distinct[f]:
            for p in itertools.permutations(range(3)):
                if p != (0, 1, 2) and np.all(np.abs(Ar[f][list(p)] - As[f]) <= atol[f] * 4):
                    perm_hit = p
        if perm_hit is not None:
            named_bad[f] = True
            ctx.violation("vec.angle-naming", "vectors:angle-naming",
                          f"angles between reported vectors (bc,ca,ab)={Ar[f]} are a permutation {perm_hit} of stored (alpha,beta,gamma)={As[f]}",
                          lengths=Ls[f], vectors=V[f])
        else:
            k = int(np.argmax(err[f] - atol[f]))
            ctx.violation("vec.angles", "vectors:angle-mismatch",
                          f"angle {'alpha beta gamma'.split()[k]} between reported vectors is {Ar[f, k]:.7f}, stored {As[f, k]:.7f} (tol {atol[f, k]:.2g})",
                          lengths=Ls[f], angles=As[f], vectors=V[f])
    ctx.ok("vec.angles", int((dom & ~badf).sum()))
    _margin(ctx, "vec.angles", err, atol, dom)
    ctx.ok("vec.angle-naming", int((distinct & ~badf).sum()))
    # --- orientation
    bo = dom & ~((V[:, 0, 1] == 0) & (V[:, 0, 2] == 0) & (V[:, 1, 2] == 0) & (V[:, 0, 0] > 0) & (V[:, 1, 1] > 0) & (V[:, 2, 2] > 0))
    if bo.any():
        f = _first(bo)
        ctx.violation("vec.orientation", "vectors:not-standard-orientation", f"reported vectors are not a=(a,0,0), b_z=0, b_y>0, c_z>0: {V[f].tolist()}", lengths=Ls[f], angles=As[f])
    ctx.ok("vec.orientation", int((dom & ~bo).sum()))
    # --- volumes
    scale = Lr.prod(axis=1)
    bt = dom & ((np.abs(vol - triple) > 16 * EPS32 * scale) | ~(vol > 0))
    if bt.any():
        f = _first(bt)
        ctx.violation("vol.triple", "volumes:not-triple-product-of-vectors", f"unitcell_volumes {vol[f]:.9g} but a.(b x c) of the reported vectors is {triple[f]:.9g}", lengths=Ls[f], angles=As[f])
    ctx.ok("vol.triple", int((dom & ~bt).sum()))
    _margin(ctx, "vol.triple", np.abs(vol - triple), 16 * EPS32 * scale, dom)
    closed = oc.closed_volume(Ls, As)
    bc = dom & (np.abs(vol - closed) > vtol * closed)
    if bc.any():
        f = _first(bc)
        ctx.violation("vol.closed", "volumes:not-closed-form", f"unitcell_volumes {vol[f]:.9g} but abc*sqrt(1-ca2-cb2-cg2+2cacbcg) = {closed[f]:.9g} (rel tol {vtol[f]:.2g})", lengths=Ls[f], angles=As[f], D=D[f])
    ctx.ok("vol.closed", int((dom & ~bc).sum()))
    _margin(ctx, "vol.closed", np.abs(vol - closed), vtol * closed, dom)

    # --- rotated descriptions
    R = _rotations(rng, case["rot"], n)
    ctx.observe("algebra.rotation", case["rot"])
    B = oc.vectors64(L, A)  # the generated (float64) cell
    W = np.einsum("nij,nkj->nik", B, R)  # rows rotated: w_i = R b_i
    if case["rot"] != "random":
        # an axis-aligned description as a program would write it down: exact zeros, not the 1e-17 that cos(90 degrees)
        # leaves behind (a change of the cell far below every tolerance used here)
        W[np.abs(W) < 1e-13 * np.abs(W).max(axis=(1, 2), keepdims=True)] = 0.0
    D0 = oc.gram_D(A)
    closed0 = oc.closed_volume(L, A)
    vform = case.get("vform", "plain")
    if vform != "plain":
        ctx.observe("algebra.vectors-input-form", vform)
    for tag, Wd in (("rot64", W), ("rot32", W.astype(np.float32))):
        t2 = md.Trajectory(np.zeros((n, 1, 3), np.float32), t.topology)
        t2.unitcell_vectors = _array_form(Wd, vform)
        gl, ga, gv = t2.unitcell_lengths, t2.unitcell_angles, t2.unitcell_volumes
        if gl is None or ga is None or gv is None or np.shape(gl) != (n, 3) or np.shape(ga) != (n, 3) or np.shape(gv) != (n,):
            ctx.violation(tag + ".readback", f"set-vectors({tag}):cell-missing-or-shape", f"after unitcell_vectors = rotated cell: lengths {np.shape(gl)}, angles {np.shape(ga)}, volumes {np.shape(gv)}")
            continue
        gl, ga, gv = np.asarray(gl, np.float64), np.asarray(ga, np.float64), np.asarray(gv, np.float64)
        sinA = np.clip(oc.sin_deg(A), 1e-6, None)
        if tag == "rot64":
            ltol = 1e-9 * L
            at = 1e-9 / sinA
            vt = (1e-9 / D0) * closed0 + 1e-6 * (L[:, 0] * L[:, 1] + L[:, 1] * L[:, 2] + L[:, 2] * L[:, 0])
            wc = D0 > 1e-7
        else:
            ltol = 8 * EPS32 * L
            at = oc.angle_tol32(A)
            rt = oc.volume_reltol32(A, extra=200.0)
            vt = rt * closed0
            wc = rt <= 0.1
        okf = np.isfinite(gl).all(axis=1) & np.isfinite(ga).all(axis=1)
        b1 = ~okf | (np.abs(gl - L) > ltol).any(axis=1)
        b2 = ~okf | (np.abs(ga - A) > at).any(axis=1)
        b3 = wc & (~np.isfinite(gv) | (np.abs(gv - closed0) > vt))
        if b1.any():
            f = _first(b1)
            ctx.violation(tag + ".readback", f"set-vectors({tag}):lengths", f"lengths read back {gl[f]} after setting rotated vectors of a cell with lengths {L[f]}", angles=A[f], rotation=R[f])
        if (b2 & ~b1).any():
            f = _first(b2 & ~b1)
            perm = [p for p in itertools.permutations(range(3)) if p != (0, 1, 2) and np.all(np.abs(ga[f][list(p)] - A[f]) <= 4 * at[f])]
            key = f"set-vectors({tag}):angle-naming" if (perm and np.min(np.abs(A[f][[0, 1, 2]] - A[f][[1, 2, 0]])) > 2.0) else f"set-vectors({tag}):angles"
            ctx.violation(tag + ".readback", key, f"angles read back {ga[f]} after setting rotated vectors of a cell with angles {A[f]}", lengths=L[f], rotation=R[f])
        if (b3 & ~b1 & ~b2).any():
            f = _first(b3 & ~b1 & ~b2)
            ctx.violation(tag + ".readback", f"set-vectors({tag}):volume", f"volume read back {gv[f]:.9g}, the cell's volume is {closed0[f]:.9g} (tol {vt[f]:.2g})", lengths=L[f], angles=A[f])
        if (~wc).any():
            ctx.skip(tag + ".readback", "volume of a cell too close to degenerate", int((~wc).sum()))
        ctx.ok(tag + ".readback", int((~b1 & ~b2 & ~b3).sum()))
        _margin(ctx, tag + ".lengths", np.abs(gl - L), ltol, okf)
        _margin(ctx, tag + ".angles", np.abs(ga - A), at, okf)
        _margin(ctx, tag + ".volume", np.abs(gv - closed0), vt, wc & okf)


def run_util(case, ctx):
    from mdtraj.utils import box_vectors_to_lengths_and_angles as v2la
    from mdtraj.utils import lengths_and_angles_to_box_vectors as la2v
    rng = common.rng_for("C17util", case["seed"])
    cls = case["cls"]
    n = int(rng.integers(1, 9))
    cells = [gen_cell(rng, cls) for _ in range(n)]
    L = np.array([c[0] for c in cells])
    A = np.array([c[1] for c in cells])
    if rng.random() < 0.3:  # integral lengths, as in the docstring example
        L = np.round(L) + 1.0
    B = oc.vectors64(L, A)
    ctx.observe("util.class", cls)

    def cmp_vectors(got, ref, label, Lrow):
        got = np.asarray(got, np.float64)
        if got.shape != ref.shape:
            ctx.violation("util.to-vectors", f"to_box_vectors:{label}:shape", f"{label}: output shape {got.shape}, expected {ref.shape}")
            return False
        tol = 1e-6 + 1e-12 * np.max(Lrow)
        if not np.all(np.abs(got - ref) <= tol):
            ctx.violation("util.to-vectors", f"to_box_vectors:{label}:components", f"{label}: vectors {got.tolist()} differ from the definition {ref.tolist()}")
            return False
        return True

    # scalars
    mode = ["pyfloat", "npfloat64", "mixed-int"][int(rng.integers(3))]
    ctx.observe("util.scalar-mode", mode)
    for f in range(min(n, 3)):
        if mode == "pyfloat":
            args = [float(x) for x in L[f]] + [float(x) for x in A[f]]
        elif mode == "npfloat64":
            args = [np.float64(x) for x in L[f]] + [np.float64(x) for x in A[f]]
        else:
            args = [int(x) if float(x).is_integer() else float(x) for x in L[f]] + [float(x) for x in A[f]]
        a, b, c = la2v(*args)
        ok = all([cmp_vectors(a, B[f, 0], "scalar:a", L[f]), cmp_vectors(b, B[f, 1], "scalar:b", L[f]), cmp_vectors(c, B[f, 2], "scalar:c", L[f])])
        if ok:
            ctx.ok("util.to-vectors")
    # arrays
    a, b, c = la2v(L[:, 0].copy(), L[:, 1].copy(), L[:, 2].copy(), A[:, 0].copy(), A[:, 1].copy(), A[:, 2].copy())
    ok = all([cmp_vectors(a, B[:, 0], "array:a", L), cmp_vectors(b, B[:, 1], "array:b", L), cmp_vectors(c, B[:, 2], "array:c", L)])
    if ok:
        ctx.ok("util.to-vectors", n)
    # inverse on rotated vectors
    R = _rotations(rng, ["random", "identity", "axisperm"][int(rng.integers(3))], n)
    W = np.einsum("nij,nkj->nik", B, R)
    sinA = np.clip(oc.sin_deg(A), 1e-6, None)

    def cmp_la(out, Lr, Ar, label, shape):
        out = [np.asarray(o, np.float64) for o in out]
        if any(o.shape != shape for o in out):
            ctx.violation("util.from-vectors", f"from_box_vectors:{label}:shape", f"{label}: output shapes {[o.shape for o in out]}, expected {shape}")
            return False
        gl = np.stack(out[:3], axis=-1)
        ga = np.stack(out[3:], axis=-1)
        sA = np.clip(oc.sin_deg(Ar), 1e-6, None)
        if not np.all(np.abs(gl - Lr) <= 1e-12 * Lr):
            ctx.violation("util.from-vectors", f"from_box_vectors:{label}:lengths", f"{label}: lengths {gl.tolist()} for a cell with lengths {Lr.tolist()}")
            return False
        if not np.all(np.abs(ga - Ar) <= 1e-9 / sA):
            spread = np.min(np.abs(np.atleast_2d(Ar)[:, [0, 1, 2]] - np.atleast_2d(Ar)[:, [1, 2, 0]]))
            perm = [p for p in itertools.permutations(range(3)) if p != (0, 1, 2) and np.all(np.abs(np.atleast_2d(ga)[:, list(p)] - np.atleast_2d(Ar)) <= 1e-6)]
            key = "angle-naming" if perm and spread > 2.0 else "angles"
            ctx.violation("util.from-vectors", f"from_box_vectors:{label}:{key}", f"{label}: angles {ga.tolist()} for a cell with angles {Ar.tolist()}")
            return False
        return True

    if cmp_la(v2la(W[:, 0].copy(), W[:, 1].copy(), W[:, 2].copy()), L, A, "array", (n,)):
        ctx.ok("util.from-vectors", n)
    for f in range(min(n, 3)):
        if cmp_la(v2la(W[f, 0].copy(), W[f, 1].copy(), W[f, 2].copy()), L[f], A[f], "1d", ()):
            ctx.ok("util.from-vectors")
    del sinA


UTIL2_MODES = ["float32", "noncontig", "long", "tilt", "tilt-array", "doc", "float32-inverse", "special", "zerodim"]


def run_util2(case, ctx):
    """input classes of the three mdtraj.utils.unitcell functions that run_util never hands over: float32 arrays and
    scalars, strided / reversed / read-only views, more than 100 frames, the tilt-factor function, the docstring examples,
    the exact special angles"""
    from mdtraj.utils import box_vectors_to_lengths_and_angles as v2la
    from mdtraj.utils import lengths_and_angles_to_box_vectors as la2v
    from mdtraj.utils.unitcell import lengths_and_angles_to_tilt_factors as la2t
    rng = common.rng_for("C17util2", case["seed"])
    mode, cls = case["mode"], case["cls"]
    ctx.observe("util2.mode", mode)
    n = int(rng.integers(2, 9)) if mode != "long" else [101, 128, 257, 300][int(rng.integers(4))]
    if mode == "special":
        # the exact special angles as a user types them; every frame another combination
        tri = [(90, 90, 90), (90, 90, 60), (90, 90, 120), (60, 60, 90), (60, 90, 60), (90, 60, 60), (60, 60, 60), (109.4712206, 109.4712206, 109.4712206),
               (90, 120, 90), (120, 90, 90), (90, 60, 90), (60, 90, 90), (109.4712206, 109.4712206, 90), (70.5287794, 109.4712206, 70.5287794)]
        A = np.array([tri[int(rng.integers(len(tri)))] for _ in range(n)], np.float64)
        L = np.array([gen_cell(rng, "ortho")[0] for _ in range(n)])
        if rng.random() < 0.5:
            L[:] = L[:, :1]
    else:
        cells = [gen_cell(rng, cls) for _ in range(n)]
        L = np.array([c[0] for c in cells])
        A = np.array([c[1] for c in cells])
    B = oc.vectors64(L, A)

    def judge32(vecs, Lr, Ar, label):
        """vectors computed in float32: judged as the trajectory getter is (lengths rel 1e-6, angles float32 bound + snap,
        orientation exact)"""
        V = np.stack([np.asarray(v, np.float64) for v in vecs], axis=-2)
        if V.shape != Lr.shape[:-1] + (3, 3):
            ctx.violation("util.to-vectors", f"to_box_vectors:{label}:shape", f"{label}: output shapes {[np.shape(v) for v in vecs]} for inputs of shape {Lr.shape[:-1]}")
            return
        V2, L2, A2 = V.reshape(-1, 3, 3), Lr.reshape(-1, 3), Ar.reshape(-1, 3)
        dom = oc.volume_reltol32(A2) <= 0.1
        if not dom.any():
            ctx.skip("util.to-vectors", "cell too close to degenerate for float32 arithmetic")
            return
        Lg, Ag, _ = oc.describe(np.where(np.isfinite(V2), V2, 1.0))
        inv = 1.0 / np.clip(Lg, 1e-9, None)
        snap = 2e-6 * DEG * np.stack([inv[:, 1] + inv[:, 2], inv[:, 2] + inv[:, 0], inv[:, 0] + inv[:, 1]], axis=1)
        bad_l = dom & ((np.abs(Lg - L2) > 1e-6 * L2).any(axis=1) | ~np.isfinite(V2).all(axis=(1, 2)))
        bad_a = dom & (np.abs(Ag - A2) > oc.angle_tol32(A2) + snap).any(axis=1)
        bad_o = dom & ~((V2[:, 0, 1] == 0) & (V2[:, 0, 2] == 0) & (V2[:, 1, 2] == 0) & (V2[:, 0, 0] > 0) & (V2[:, 1, 1] > 0) & (V2[:, 2, 2] > 0))
        for bad, what in ((bad_l, "lengths"), (bad_a, "angles"), (bad_o, "orientation")):
            if bad.any():
                f = _first(bad)
                ctx.violation("util.to-vectors", f"to_box_vectors:{label}:{what}", f"{label}: vectors {V2[f].tolist()} for lengths {L2[f]} angles {A2[f]}")
        ctx.ok("util.to-vectors", int((dom & ~bad_l & ~bad_a & ~bad_o).sum()))

    def cmp64(got, ref, label, Lmax):
        got = [np.asarray(g, np.float64) for g in got]
        if any(g.shape != r.shape for g, r in zip(got, ref)):
            ctx.violation("util.to-vectors", f"to_box_vectors:{label}:shape", f"{label}: output shapes {[g.shape for g in got]}, expected {[r.shape for r in ref]}")
            return False
        tol = 1e-6 + 1e-12 * Lmax
        if not all(np.all(np.abs(g - r) <= tol) for g, r in zip(got, ref)):
            ctx.violation("util.to-vectors", f"to_box_vectors:{label}:components", f"{label}: vectors {[g.tolist() for g in got]} differ from the definition {[r.tolist() for r in ref]}")
            return False
        return True

    def cmp_inv(out, Lr, Ar, label, shape, ltol, atol):
        out = [np.asarray(o, np.float64) for o in out]
        if len(out) != 6 or any(o.shape != shape for o in out):
            ctx.violation("util.from-vectors", f"from_box_vectors:{label}:shape", f"{label}: output shapes {[o.shape for o in out]}, expected six of {shape}")
            return False
        gl, ga = np.stack(out[:3], axis=-1), np.stack(out[3:], axis=-1)
        if not np.all(np.abs(gl - Lr) <= ltol):
            ctx.violation("util.from-vectors", f"from_box_vectors:{label}:lengths", f"{label}: lengths {gl.tolist()} for a cell with lengths {Lr.tolist()}")
            return False
        if not np.all(np.abs(ga - Ar) <= atol):
            ctx.violation("util.from-vectors", f"from_box_vectors:{label}:angles", f"{label}: angles {ga.tolist()} for a cell with angles {Ar.tolist()}")
            return False
        return True

    sA = np.clip(oc.sin_deg(A), 1e-6, None)
    if mode in ("float32",):
        L32, A32 = L.astype(np.float32), A.astype(np.float32)
        L3, A3 = L32.astype(np.float64), A32.astype(np.float64)
        judge32(la2v(L32[:, 0], L32[:, 1], L32[:, 2], A32[:, 0], A32[:, 1], A32[:, 2]), L3, A3, "float32-array")
        for f in range(min(n, 2)):
            judge32(la2v(*[np.float32(x) for x in L32[f]], *[np.float32(x) for x in A32[f]]), L3[f], A3[f], "float32-scalar")
    elif mode == "zerodim":
        # 0-d arrays are ndarrays AND scalars: documented output for scalar input is three vectors of length 3
        for f in range(min(n, 3)):
            if cmp64(la2v(*[np.array(x) for x in L[f]], *[np.array(x) for x in A[f]]), [B[f, 0], B[f, 1], B[f, 2]], "zero-dim", L[f].max()):
                ctx.ok("util.to-vectors")
    elif mode == "float32-inverse":
        R = _rotations(rng, ["random", "identity", "axisperm"][int(rng.integers(3))], n)
        W = np.einsum("nij,nkj->nik", B, R).astype(np.float32)
        if cmp_inv(v2la(W[:, 0], W[:, 1], W[:, 2]), L, A, "float32-array", (n,), 8 * EPS32 * L, oc.angle_tol32(A)):
            ctx.ok("util.from-vectors", n)
        if cmp_inv(v2la(W[0, 0], W[0, 1], W[0, 2]), L[0], A[0], "float32-1d", (), 8 * EPS32 * L[0], oc.angle_tol32(A[0])):
            ctx.ok("util.from-vectors")
    elif mode in ("noncontig", "long", "special"):
        if mode == "noncontig":
            kind = ["columns", "reversed", "readonly", "strided"][int(rng.integers(4))]
        else:
            kind = "columns"
        ctx.observe("util2.view", kind)
        Lc, Ac, Bc = L, A, B
        if kind == "reversed":
            args = [L[::-1, j] for j in range(3)] + [A[::-1, j] for j in range(3)]
            Bc, Lc, Ac = B[::-1], L[::-1], A[::-1]
        elif kind == "readonly":
            args = [np.array(L[:, j]) for j in range(3)] + [np.array(A[:, j]) for j in range(3)]
            for a_ in args:
                a_.flags.writeable = False
        elif kind == "strided":
            big = np.zeros((2 * n, 6))
            big[::2, :3], big[::2, 3:] = L, A
            args = [big[::2, j] for j in range(6)]
        else:
            args = [L[:, j] for j in range(3)] + [A[:, j] for j in range(3)]  # columns of a C array: stride 24 bytes
        if cmp64(la2v(*args), [Bc[:, 0], Bc[:, 1], Bc[:, 2]], f"view-{kind}" if mode == "noncontig" else mode, L.max()):
            ctx.ok("util.to-vectors", n)
        R = _rotations(rng, "random", n)
        W = np.einsum("nij,nkj->nik", Bc, R)
        sAc = np.clip(oc.sin_deg(Ac), 1e-6, None)
        if kind == "reversed":
            out = v2la(W[::-1, 0][::-1], W[::-1, 1][::-1], W[::-1, 2][::-1])
        elif kind == "strided":
            bigW = np.zeros((n, 3, 6))
            bigW[:, :, ::2] = W
            out = v2la(bigW[:, 0, ::2], bigW[:, 1, ::2], bigW[:, 2, ::2])
        else:
            out = v2la(W[:, 0], W[:, 1], W[:, 2])  # views into the (n,3,3) array, not copies
        if cmp_inv(out, Lc, Ac, f"view-{kind}" if mode == "noncontig" else mode, (n,), 1e-12 * Lc, 1e-9 / sAc):
            ctx.ok("util.from-vectors", n)
    elif mode in ("tilt", "tilt-array"):
        D = np.clip(oc.gram_D(A), 1e-12, None)
        ref = np.stack([B[:, 0, 0], B[:, 1, 1], B[:, 2, 2], B[:, 1, 0], B[:, 2, 0], B[:, 2, 1]])  # lx ly lz xy xz yz
        tol = 1e-9 * L.max(axis=1) / D
        if mode == "tilt":
            for f in range(min(n, 3)):
                as_np = rng.random() < 0.5
                args = [np.float64(x) if as_np else float(x) for x in L[f]] + [np.float64(x) if as_np else float(x) for x in A[f]]
                got = np.asarray(la2t(*args), np.float64)
                if got.shape != (6,):
                    ctx.violation("util.tilt-factors", "tilt_factors:scalar:shape", f"output shape {got.shape} for scalar inputs, documented lx ly lz xy xz yz")
                elif not np.all(np.abs(got - ref[:, f]) <= tol[f]):
                    ctx.violation("util.tilt-factors", "tilt_factors:scalar:values", f"tilt factors {got.tolist()} for lengths {L[f]} angles {A[f]}; definition gives {ref[:, f].tolist()}")
                else:
                    ctx.ok("util.tilt-factors")
        else:
            got = np.asarray(la2t(L[:, 0], L[:, 1], L[:, 2], A[:, 0], A[:, 1], A[:, 2]), np.float64)
            if got.shape != (6, n):
                ctx.violation("util.tilt-factors", "tilt_factors:array:shape", f"output shape {got.shape} for six inputs of shape ({n},)")
            elif not np.all(np.abs(got - ref) <= tol[None, :]):
                f = _first((np.abs(got - ref) > tol[None, :]).any(axis=0))
                ctx.violation("util.tilt-factors", "tilt_factors:array:values", f"tilt factors {got[:, f].tolist()} for lengths {L[f]} angles {A[f]}; definition gives {ref[:, f].tolist()}")
            else:
                ctx.ok("util.tilt-factors", n)
    elif mode == "doc":
        # the examples of the docstrings, literally
        a, b, c = la2v(1, 1, 1, 90.0, 90.0, 90.0)
        if cmp64([a, b, c], [np.array([1.0, 0, 0]), np.array([0, 1.0, 0]), np.array([0, 0, 1.0])], "docstring-example", 1.0):
            ctx.ok("util.to-vectors")
        out = v2la(np.array([2, 0, 0], dtype=float), np.array([0, 1, 0], dtype=float), np.array([0, 1, 1], dtype=float))
        ok = len(out) == 6 and out[0] == 2.0 and out[1] == 1.0 and out[2] == np.sqrt(2) and abs(out[3] - 45) < 1e-6 and abs(out[4] - 90.0) < 1e-6 and abs(out[5] - 90.0) < 1e-6
        ctx.check(bool(ok), "util.from-vectors", "from_box_vectors:docstring-example", f"the docstring example returns {[float(o) for o in out]}")
        # integer-typed vectors (the docstring builds its arrays from integer literals)
        k = int(rng.integers(2, 6))
        out = v2la(np.array([k, 0, 0], dtype=float), np.array([0, k, 0], dtype=float), np.array([0, k, k], dtype=float))
        ctx.check(bool(abs(out[3] - 45) < 1e-9 and out[0] == k and abs(out[2] - k * np.sqrt(2)) < 1e-12), "util.from-vectors", "from_box_vectors:docstring-example-scaled", f"scaled docstring example returns {[float(o) for o in out]}")
    del sA


# ------------------------------------------------------------------------------------------------ part B
FORMATS = ["h5", "xtc", "trr", "dcd", "nc", "pdb", "gro", "lammpstrj", "mdcrd", "dtr"]
SINGLE_FRAME_FORMATS = ["rst7", "ncrst"]
NO_TOP = {"h5", "pdb", "gro"}
SETTERS = ["L=arr", "L=None", "A=arr", "A=None", "V=arr", "V=None", "V=zeros"]
MAX_FRAMES = 24


class Shadow:
    """model of one trajectory's cell: lengths / angles arrays (float64) or None, plus tolerance bookkeeping"""

    def __init__(self, nf, na, L=None, A=None, nconv=0, qL=0.0, qA=0.0, qAc=0.0):
        self.nf, self.na = nf, na
        self.L = None if L is None else np.array(L, np.float64).reshape(nf, 3)
        self.A = None if A is None else np.array(A, np.float64).reshape(nf, 3)
        self.nconv, self.qL, self.qA, self.qAc = nconv, qL, qA, qAc

    @property
    def complete(self):
        return self.L is not None and self.A is not None

    @property
    def state(self):
        if self.complete:
            return "complete"
        if self.L is not None:
            return "lengths-only"
        if self.A is not None:
            return "angles-only"
        return "none"

    def derive(self, L, A, nf=None, na=None):
        return Shadow(self.nf if nf is None else nf, self.na if na is None else na, L, A, self.nconv, self.qL, self.qA, self.qAc)

    def follow(self, L, A):
        """after a judged comparison the model continues from the values the real object holds"""
        self.L = None if L is None else np.array(L, np.float64)
        self.A = None if A is None else np.array(A, np.float64)
        self.nconv, self.qL, self.qA, self.qAc = 0, 0.0, 0.0, 0.0
        return self

    def assign(self, other):
        self.nf, self.na, self.L, self.A = other.nf, other.na, other.L, other.A
        self.nconv, self.qL, self.qA, self.qAc = other.nconv, other.qL, other.qA, other.qAc

    def tolerances(self):
        lt = (1 + self.nconv) * 8 * EPS32 * self.L + self.qL
        s = np.clip(oc.sin_deg(self.A), 1e-6, None)
        at = oc.angle_tol32(self.A, 1 + self.nconv) + self.qA + self.qAc / s
        return lt, at


class Refused(Exception):
    pass


REFUSALS = [
    (ValueError, "Mixing trajectories with and without unitcell", "join refuses to mix trajectories with and without a complete cell"),
    (AttributeError, "unitcell length data exists, but no angles", "save refuses a half-set cell (_check_valid_unitcell)"),
    (AttributeError, "unitcell angles data exists, but no lengths", "save refuses a half-set cell (_check_valid_unitcell)"),
    (ValueError, "were given, but no cell_", "hdf5 writer refuses a half-set cell"),
    (TypeError, "cell_lengths must be numpy array", "lammpstrj writer requires cell lengths"),
    (ValueError, "cell_lengths, cell_angles and times must be given", "dtr writer requires a cell"),
    (ValueError, "Only rectilinear boxes can be saved to mdcrd", "mdcrd stores rectilinear boxes only"),
    (ValueError, "times must be in ascending order", "dtr writer requires ascending times (frames were reordered)"),
]


def _refusal(e):
    for cls, frag, label in REFUSALS:
        if isinstance(e, cls) and frag in str(e):
            return label
    return None


class History:
    def __init__(self, case, ctx, tmp):
        import mdtraj as md
        self.md = md
        self.case, self.ctx, self.tmp = case, ctx, tmp
        self.rng = common.rng_for("C17hist", case["seed"])
        self.trace = []
        self.pool = []
        self.nfile = 0
        self.cellkind = case.get("cells", "any")

    # ---- helpers
    def cells(self, nf, perframe=None):
        rng = self.rng
        perframe = (rng.random() < 0.7) if perframe is None else perframe
        kind = "ortho" if self.cellkind == "ortho" else None
        if kind is None and rng.random() < 0.15:
            kind = "distinct"
        cs = [gen_cell(rng, kind) if kind == "distinct" else common.random_cell(rng, kind) for _ in range(nf if perframe else 1)]
        if not perframe:
            cs = cs * nf
        return np.array([c[0] for c in cs]), np.array([c[1] for c in cs])

    def fresh(self, nf=None, na=None, state=None):
        rng = self.rng
        nf = int(rng.integers(1, 7)) if nf is None else nf
        na = int(rng.integers(2, 7)) if na is None else na
        # |xyz| stays below 10 nm (mdcrd's %8.3f Angstrom fields touch at -100 A); multiples of 1/256 nm, exact in float32
        t = self.md.Trajectory(0.25 * common.self_identifying_xyz(nf, na, f0=int(rng.integers(0, 3))), common.simple_topology(na))
        m = Shadow(nf, na)
        state = state or ["complete", "complete", "none", "lengths-only", "angles-only"][int(rng.integers(5))]
        if state in ("complete", "lengths-only", "angles-only"):
            L, A = self.cells(nf)
            if state != "angles-only":
                t.unitcell_lengths = L
                m.L = L.astype(np.float32).astype(np.float64)
            if state != "lengths-only":
                t.unitcell_angles = A
                m.A = A.astype(np.float32).astype(np.float64)
        self.trace.append(f"fresh(nf={nf},na={na},{state})")
        return t, m

    def add(self, t, m):
        self.pool.append((t, m))
        if len(self.pool) > 5:
            self.pool.pop(int(self.rng.integers(0, len(self.pool) - 1)))

    def pick(self):
        return self.pool[int(self.rng.integers(len(self.pool)))]

    def variant(self, t, m, nf=None):
        """a trajectory with the same topology as t (a slice of it) whose cell state is redrawn"""
        rng = self.rng
        nf = int(rng.integers(1, 5)) if nf is None else nf
        idx = rng.integers(0, t.n_frames, nf)
        o = t.slice(idx.tolist())
        mo = m.derive(None if m.L is None else m.L[idx], None if m.A is None else m.A[idx], nf=nf)
        r = rng.random()
        if r < 0.45:  # same state as t
            pass
        elif r < 0.75:
            L, A = self.cells(nf)
            o.unitcell_lengths, o.unitcell_angles = L, A
            mo = Shadow(nf, m.na, L.astype(np.float32), A.astype(np.float32))
        elif r < 0.9:
            o.unitcell_vectors = None
            mo = Shadow(nf, m.na)
        else:
            L, A = self.cells(nf)
            o.unitcell_vectors = None
            if rng.random() < 0.5:
                o.unitcell_lengths = L
                mo = Shadow(nf, m.na, L.astype(np.float32), None)
            else:
                o.unitcell_angles = A
                mo = Shadow(nf, m.na, None, A.astype(np.float32))
        return o, mo

    # ---- judging
    def judge(self, op, r, exp, in_state, base=None):
        """r: real result, exp: Shadow expected (its L/A None when the input was not complete)"""
        ctx = self.ctx
        hist = self.trace[-12:]
        if r.n_frames != exp.nf or r.n_atoms != exp.na:
            ctx.violation("history.presence", f"{op}:result-dimensions", f"{op}: result has {r.n_frames} frames x {r.n_atoms} atoms, model says {exp.nf} x {exp.na}", history=hist)
            return None
        gl, ga = r.unitcell_lengths, r.unitcell_angles
        has_l, has_a = gl is not None, ga is not None
        shapes_ok = (not has_l or np.shape(gl) == (exp.nf, 3)) and (not has_a or np.shape(ga) == (exp.nf, 3))
        if not shapes_ok:
            ctx.violation("history.presence", f"{op}:cell-shape", f"{op}: cell arrays have shapes {np.shape(gl)}, {np.shape(ga)} for {exp.nf} frames", history=hist)
            return None
        if exp.complete:
            if not (has_l and has_a):
                lost = "angles" if has_l else ("lengths" if has_a else "cell")
                ctx.violation("history.presence", f"{base or op}:complete-input:{lost}-lost", f"{op}: input had a complete cell, result has lengths={has_l} angles={has_a}", history=hist)
                return Shadow(exp.nf, exp.na, None if not has_l else gl, None if not has_a else ga)
            ctx.ok("history.presence")
            gl64, ga64 = np.asarray(gl, np.float64), np.asarray(ga, np.float64)
            lt, at = exp.tolerances()
            rows = getattr(exp, "rows", None)
            sel = np.ones(exp.nf, bool) if rows is None else rows
            bad = sel & ((np.abs(gl64 - exp.L) > lt).any(axis=1) | (np.abs(ga64 - exp.A) > at).any(axis=1) | ~np.isfinite(gl64).all(axis=1) | ~np.isfinite(ga64).all(axis=1))
            if bad.any():
                f = _first(bad)
                ctx.violation("history.values", f"{op}:cell-values", f"{op}: frame {f} has lengths {gl64[f]} angles {ga64[f]}, model says {exp.L[f]} {exp.A[f]}",
                              tol_lengths=lt[f], tol_angles=at[f], history=hist)
            ctx.ok("history.values", int((sel & ~bad).sum()))
            _margin(ctx, "history.lengths:" + op.split("(")[0], np.abs(gl64 - exp.L), lt, sel)
            _margin(ctx, "history.angles:" + op.split("(")[0], np.abs(ga64 - exp.A), at, sel)
            if (~sel).any():
                ctx.skip("history.values", "pdb keeps one CRYST1 record: per-frame variation cannot be stored", int((~sel).sum()))
            out = Shadow(exp.nf, exp.na).follow(gl64, ga64)  # continue from what the object holds
            self.getters(op, r, out)
            return out
        # input was not complete
        if has_l and has_a:
            ctx.violation("history.presence", f"{base or op}:{in_state}-became-complete", f"{op}: input cell state '{in_state}', result has a complete cell {np.asarray(gl)[0]} {np.asarray(ga)[0]}", history=hist)
        else:
            ctx.ok("history.presence")
        out = Shadow(exp.nf, exp.na, None if not has_l else gl, None if not has_a else ga)
        self.getters(op, r, out)
        return out

    def getters(self, op, r, m):
        ctx = self.ctx
        hist = self.trace[-12:]
        try:
            V = r.unitcell_vectors
        except Exception as e:
            ctx.violation("history.getters", f"unitcell_vectors:{m.state}:raises-{type(e).__name__}", f"unitcell_vectors raised {type(e).__name__}: {e} (cell state {m.state})", history=hist)
            return
        try:
            vol = r.unitcell_volumes
        except Exception as e:
            ctx.violation("history.getters", f"unitcell_volumes:{m.state}:raises-{type(e).__name__}", f"unitcell_volumes raised {type(e).__name__}: {e} (cell state {m.state}; a no-cell trajectory returns None)", history=hist)
            return
        if not m.complete:
            if V is not None or vol is not None:
                ctx.violation("history.getters", f"getters:{m.state}:vectors-or-volumes-not-None", f"cell state {m.state} but unitcell_vectors/unitcell_volumes are not None", history=hist)
            else:
                ctx.ok("history.getters")
            return
        if V is None or vol is None or np.shape(V) != (m.nf, 3, 3) or np.shape(vol) != (m.nf,):
            ctx.violation("history.getters", "getters:complete:vectors-or-volumes-missing", f"complete cell but unitcell_vectors shape {np.shape(V)}, volumes {np.shape(vol)}", history=hist)
            return
        gl, ga = np.asarray(r.unitcell_lengths, np.float64), np.asarray(r.unitcell_angles, np.float64)
        if not (np.isfinite(gl).all() and np.isfinite(ga).all()):
            return
        closed = oc.closed_volume(gl, ga)
        rt = oc.volume_reltol32(ga)
        bad = np.abs(np.asarray(vol, np.float64) - closed) > rt * closed + 1e-6 * (gl[:, 0] * gl[:, 1] + gl[:, 1] * gl[:, 2] + gl[:, 2] * gl[:, 0])
        if bad.any():
            f = _first(bad)
            ctx.violation("history.getters", "getters:volume-not-closed-form", f"unitcell_volumes {vol[f]} but lengths {gl[f]} angles {ga[f]} give {closed[f]}", history=hist)
        else:
            ctx.ok("history.getters")

    def attempt(self, op, fn, in_states, must_work):
        """run fn(); classify exceptions. returns result or raises Refused"""
        try:
            return fn()
        except Exception as e:
            st = "+".join(sorted(set(in_states)))
            fam = op.split("[")[0].split("(")[0]
            label = _refusal(e)
            if label is not None:
                self.ctx.skip("history.refused", f"{fam}: {label}")
                raise Refused()
            if must_work:
                self.ctx.violation("history.presence", f"{op}:{st}:raises-{type(e).__name__}", f"{op} on cell state {st} raised {type(e).__name__}: {str(e)[:200]}", history=self.trace[-12:])
            else:
                self.ctx.skip("history.refused", f"{fam}: not required to work for cell state {st} ({type(e).__name__})")
            raise Refused()

    # ---- ops
    def op_setter(self, t, m, which=None):
        rng = self.rng
        which = which or SETTERS[int(rng.integers(len(SETTERS)))]
        nf = m.nf
        L, A = self.cells(nf)
        self.ctx.observe("history.op", "set:" + which)
        if which == "L=arr":
            style = int(rng.integers(4))
            val = [L, L.astype(np.float32), L.tolist(), L[0] if nf == 1 else L][style]
            t.unitcell_lengths = val
            m.L = L.astype(np.float32).astype(np.float64)
        elif which == "L=None":
            t.unitcell_lengths = None
            m.L = None
        elif which == "A=arr":
            style = int(rng.integers(4))
            val = [A, A.astype(np.float32), A.tolist(), A[0] if nf == 1 else A][style]
            t.unitcell_angles = val
            m.A = A.astype(np.float32).astype(np.float64)
        elif which == "A=None":
            t.unitcell_angles = None
            m.A = None
        elif which == "V=arr":
            B = oc.vectors64(L, A)
            kind = ["random", "identity", "axisperm"][int(rng.integers(3))]
            W = np.einsum("nij,nkj->nik", B, _rotations(rng, kind, nf))
            if rng.random() < 0.5:
                W = W.astype(np.float32)
            t.unitcell_vectors = W
            m.L, m.A = L.copy(), A.copy()
        elif which == "V=None":
            t.unitcell_vectors = None
            m.L = m.A = None
        elif which == "V=zeros":
            t.unitcell_vectors = np.zeros((nf, 3, 3), np.float32 if rng.random() < 0.5 else np.float64)
            m.L = m.A = None
        if which == "V=arr":
            m.nconv, m.qL, m.qA, m.qAc = 1, 0.0, 0.0, 0.0
        self.trace.append(which)
        # the object itself after the assignment
        exp = m.derive(m.L, m.A) if m.complete else Shadow(m.nf, m.na)
        want_l, want_a = m.L is not None, m.A is not None
        has_l, has_a = t.unitcell_lengths is not None, t.unitcell_angles is not None
        if (want_l, want_a) != (has_l, has_a):
            self.ctx.violation("history.presence", f"set:{which}:presence", f"after {which}: lengths present={has_l} angles present={has_a}, model says {want_l} {want_a}", history=self.trace[-12:])
            return
        if m.complete:
            out = self.judge("set:" + which, t, exp, m.state)
            if out is not None:
                m.assign(out)
        else:
            self.ctx.ok("history.presence")
            self.getters("set:" + which, t, m)

    def op_slice(self, t, m):
        rng = self.rng
        nf = m.nf
        kind = ["int", "slice", "list", "mask", "array", "negstep"][int(rng.integers(6))]
        if kind == "int":
            key = int(rng.integers(-nf, nf))
        elif kind == "slice":
            a = int(rng.integers(0, nf))
            key = slice(a, int(rng.integers(a + 1, nf + 1)), int(rng.integers(1, 3)))
        elif kind == "negstep":
            key = slice(None, None, -int(rng.integers(1, 3)))
        elif kind == "list":
            key = rng.integers(-nf, nf, int(rng.integers(1, 6))).tolist()
        elif kind == "mask":
            key = rng.random(nf) < 0.6
            key[int(rng.integers(nf))] = True
        else:
            key = rng.integers(0, nf, int(rng.integers(1, 6)))
        idx = np.atleast_1d(np.arange(nf)[key])
        how = ["getitem", "slice", "slice(copy=False)"][int(rng.integers(3))]
        op = how if how != "getitem" else "getitem"
        self.ctx.observe("history.op", f"{op}[{kind}]")
        self.trace.append(f"{op}[{kind}:{key if not isinstance(key, np.ndarray) else key.tolist()}]")
        fn = (lambda: t[key]) if how == "getitem" else ((lambda: t.slice(key)) if how == "slice" else (lambda: t.slice(key, copy=False)))
        r = self.attempt(f"{op}[{kind}]", fn, [m.state], True)
        exp = m.derive(m.L[idx], m.A[idx], nf=len(idx)) if m.complete else Shadow(len(idx), m.na)
        out = self.judge(op, r, exp, m.state)
        if out is not None:
            self.add(r, out)

    def op_join(self, t, m):
        rng = self.rng
        how = ["join", "add", "md.join", "join(list)", "join(discard_overlapping_frames)"][int(rng.integers(5))]
        if how == "join(discard_overlapping_frames)" and m.nf < 2:
            how = "join"
        nother = 2 if how in ("md.join", "join(list)") and rng.random() < 0.7 else 1
        others = [self.variant(t, m) for _ in range(nother)]
        if rng.random() < 0.6:  # make every state agree with t (the common, must-work situation)
            others = [(o, mo) for o, mo in others if mo.complete == m.complete] or [self.variant(t, m)]
        trajs = [t] + [o for o, _ in others]
        models = [m] + [mo for _, mo in others]
        if sum(x.nf for x in models) > MAX_FRAMES:
            return
        states = [x.state for x in models]
        self.ctx.observe("history.op", how)
        self.ctx.observe("history.join-states", "+".join(sorted(set(states))))
        self.trace.append(f"{how}({'+'.join(states)})")
        comp = [x.complete for x in models]
        drop = False
        if how == "join":
            fn = lambda: t.join(trajs[1])
        elif how == "add":
            fn = lambda: t + trajs[1]
        elif how == "md.join":
            fn = lambda: self.md.join(trajs)
        elif how == "join(list)":
            fn = lambda: t.join(trajs[1:])
        else:
            # the second trajectory starts with a copy of t's last frame: that frame of t must be dropped, cells follow
            o, mo = others[0]
            xyz = o.xyz.copy()
            xyz[0] = t.xyz[-1]
            o.xyz = xyz
            drop = m.nf > 0
            fn = lambda: t.join(o, discard_overlapping_frames=True)
        mixed = len(set(comp)) > 1
        r = self.attempt(how, fn, states, must_work=not mixed)
        if mixed:
            # mdtraj documents this as an error ("Mixing trajectories with and without unitcell"); it did not raise: the cell
            # of some inputs was dropped (or invented for the others) without a word, wherever in the list they stand
            self.ctx.violation("history.presence", f"{how}:inputs-with-and-without-cell:accepted-instead-of-refused",
                               f"{how} of trajectories in cell states {states} returned a trajectory "
                               f"{'with' if r.unitcell_lengths is not None else 'without'} cell instead of raising", history=self.trace[-12:])
            return
        parts = models
        if all(comp):
            Ls = [x.L for x in parts]
            As = [x.A for x in parts]
            if drop:
                Ls[0], As[0] = Ls[0][:-1], As[0][:-1]
            exp = Shadow(sum(len(x) for x in Ls), m.na, np.concatenate(Ls), np.concatenate(As), max(x.nconv for x in parts),
                         max(x.qL for x in parts), max(x.qA for x in parts), max(x.qAc for x in parts))
        else:
            exp = Shadow(sum(x.nf for x in parts) - (1 if drop else 0), m.na)
        out = self.judge(how, r, exp, "+".join(sorted(set(states))))
        if out is not None:
            self.add(r, out)

    def op_stack(self, t, m):
        rng = self.rng
        o, mo = self.variant(t, m, nf=m.nf)
        if rng.random() < 0.5:
            keep = sorted(rng.choice(m.na, int(rng.integers(1, m.na + 1)), replace=False).tolist())
            o = o.atom_slice(keep, inplace=True)
            mo.na = len(keep)
        if m.na + mo.na > 16:
            return
        self.ctx.observe("history.op", "stack")
        self.ctx.observe("history.stack-states", f"{m.state}|{mo.state}")
        self.trace.append(f"stack({m.state}|{mo.state})")
        r = self.attempt("stack", lambda: t.stack(o), [m.state, mo.state], True)
        # documented: the result carries the cell of the left operand
        exp = m.derive(m.L, m.A, na=m.na + mo.na) if m.complete else Shadow(m.nf, m.na + mo.na)
        out = self.judge("stack", r, exp, m.state)
        if out is not None:
            self.add(r, out)

    def op_atom_slice(self, t, m):
        rng = self.rng
        keep = sorted(rng.choice(m.na, int(rng.integers(1, m.na + 1)), replace=False).tolist())
        inplace = bool(rng.random() < 0.35)
        op = "atom_slice(inplace)" if inplace else "atom_slice"
        self.ctx.observe("history.op", op)
        self.trace.append(f"{op}({keep})")
        r = self.attempt(op, lambda: t.atom_slice(keep, inplace=inplace), [m.state], True)
        if inplace:
            if r is not t:
                self.ctx.violation("history.presence", "atom_slice(inplace):returns-other-object", "atom_slice(inplace=True) did not return self")
            m.na = len(keep)
            if m.complete:
                out = self.judge(op, t, m, m.state)
                if out is not None:
                    m.assign(out)
            else:
                # in place: the stored arrays are untouched, whatever half-set state there was stays
                got = (t.unitcell_lengths is not None, t.unitcell_angles is not None)
                self.ctx.check(got == (m.L is not None, m.A is not None), "history.presence", f"{op}:{m.state}:presence-changed", f"{op}: cell presence changed to {got}")
            return
        exp = m.derive(m.L, m.A, na=len(keep)) if m.complete else Shadow(m.nf, len(keep))
        out = self.judge(op, r, exp, m.state)
        if out is not None:
            self.add(r, out)

    def quantum(self, fmt, t, m):
        """(abs nm, abs degrees, degrees to be divided by sin) added by one save+load through fmt"""
        if not m.complete:
            return 0.0, 0.0, 0.0
        Lmin, Lmax = float(m.L.min()), float(m.L.max())
        M = float(np.abs(t.xyz).max())
        if fmt == "pdb":  # CRYST1 %9.3f Angstrom, %7.2f degrees
            return 6e-5, 6e-3, 0.0
        if fmt == "gro":  # box components %10.5f nm: |dv| <= 5e-6 sqrt(3) per vector, angle <= |du|/|u| + |dv|/|v|
            h = 5e-6 * np.sqrt(3.0) * 1.5
            return 2 * h, DEG * 2 * h / Lmin, 0.0
        if fmt == "mdcrd":  # %8.3f Angstrom
            return 6e-5, 0.0, 0.0
        if fmt == "lammpstrj":
            # bounds lo = min(xyz), hi = lo + L (+ tilt extents) are formed in float32 next to |xyz| (Angstrom) and
            # subtracted on reading; np.allclose(angles, 90) (rtol 1e-5 -> 9e-4 degrees) selects the orthogonal form
            q = 16 * EPS32 * (M + 3 * Lmax)
            return q, 1e-3, DEG * 2 * q / Lmin
        if fmt == "rst7":  # %12.7f
            return 1e-8 + 4 * EPS32 * Lmax, 1e-6, 0.0
        return 0.0, 0.0, 0.0

    def op_saveload(self, t, m, fmt=None):
        rng = self.rng
        md = self.md
        if fmt is None:
            fmts = FORMATS + (SINGLE_FRAME_FORMATS if m.nf == 1 else [])
            fmt = fmts[int(rng.integers(len(fmts)))]
        if fmt == "mdcrd" and m.na == 1:
            self.ctx.skip("history.refused", "mdcrd with one atom: a coordinate line is byte-identical to a box line (headerless format)")
            return
        self.nfile += 1
        fn = os.path.join(self.tmp, f"f{self.nfile}.{fmt}")
        opt = "plain"
        kw = {}
        r_ = rng.random()
        if r_ < 0.15 and m.nf >= 2:
            opt, kw = "stride", dict(stride=2)
        elif r_ < 0.3 and m.na >= 2:
            keep = sorted(rng.choice(m.na, int(rng.integers(1, m.na)), replace=False).tolist())
            opt, kw = "atom_indices", dict(atom_indices=keep)
        op = f"save-load:{fmt}" + ("" if opt == "plain" else f"({opt})")
        self.ctx.observe("history.op", "save-load")
        self.ctx.observe("history.format", f"{fmt}:{m.state}")
        self.trace.append(f"{op}[{m.state}]")
        skewed = m.complete and not np.all(m.A == 90.0)
        must = not (fmt == "mdcrd" and skewed) and not (fmt in ("lammpstrj", "dtr") and not m.complete)
        self.attempt(op + ":save", lambda: t.save(fn), [m.state], must_work=must)
        if m.state not in ("complete", "none"):
            self.ctx.observe("history.half-set-saved", fmt)
        top = None if fmt in NO_TOP else t.topology

        def load():
            return md.load(fn, **kw) if top is None else md.load(fn, top=top, **kw)
        r = self.attempt(op + ":load", load, [m.state], must_work=True)
        nf = m.nf if opt != "stride" else len(range(0, m.nf, 2))
        na = m.na if opt != "atom_indices" else len(kw["atom_indices"])
        if m.complete:
            sl = slice(None, None, 2) if opt == "stride" else slice(None)
            qL, qA, qAc = self.quantum(fmt, t, m)
            exp = Shadow(nf, na, m.L[sl], m.A[sl], m.nconv + 1, m.qL + qL, m.qA + qA, m.qAc + qAc)
            if fmt == "pdb":
                varies = bool(np.any(exp.L != exp.L[0]) or np.any(exp.A != exp.A[0]))
                if varies:
                    rows = np.zeros(nf, bool)
                    rows[0] = True
                    exp.rows = rows
        else:
            exp = Shadow(nf, na)
        out = self.judge(op, r, exp, m.state, base=f"save-load:{fmt}")
        if out is not None:
            self.add(r, out)

    def step(self):
        rng = self.rng
        t, m = self.pick()
        k = rng.random()
        try:
            if k < 0.22:
                self.op_setter(t, m)
            elif k < 0.40:
                self.op_slice(t, m)
            elif k < 0.56:
                self.op_join(t, m)
            elif k < 0.66:
                self.op_stack(t, m)
            elif k < 0.76:
                self.op_atom_slice(t, m)
            else:
                self.op_saveload(t, m)
        except Refused:
            pass


def run_history(case, ctx):
    tmp = tempfile.mkdtemp(prefix="c17-", dir="/var/tmp")
    try:
        h = History(case, ctx, tmp)
        for _ in range(2):
            h.add(*h.fresh())
        for _ in range(case["n_ops"]):
            h.step()
            if len(h.pool) < 2:
                h.add(*h.fresh())
    finally:
        shutil.rmtree(tmp, ignore_errors=True)


def run_setters(case, ctx):
    """every setter sequence of the given length on a fresh no-cell trajectory, then every op once"""
    tmp = tempfile.mkdtemp(prefix="c17-", dir="/var/tmp")
    try:
        h = History(case, ctx, tmp)
        nf = 1 + (case["i"] % 3)
        ctx.observe("setters.sequence-length", len(case["seq"]))

        def build():
            t, m = h.fresh(nf=nf, na=4, state="none")
            for s in case["seq"]:
                h.op_setter(t, m, SETTERS[s])
            return t, m
        t, m = build()
        ctx.observe("setters.final-state", m.state)
        ops = [lambda t, m: h.op_slice(t, m), lambda t, m: h.op_join(t, m), lambda t, m: h.op_stack(t, m), lambda t, m: h.op_atom_slice(t, m)]
        ops += [(lambda t, m, f=f: h.op_saveload(t, m, f)) for f in FORMATS + (SINGLE_FRAME_FORMATS if nf == 1 else [])]
        for op in ops:
            h.pool = []
            try:
                op(t, m)
            except Refused:
                pass
            if m.na != 4 or t.n_atoms != 4:  # in-place atom_slice changed it
                t, m = build()
    finally:
        shutil.rmtree(tmp, ignore_errors=True)


# ------------------------------------------------------------------------------------------------ widened input classes
# (added after the seeded-change reviews: every class below is drawn only by the case kinds "history2", "sweep2", "io",
#  "foreign", "algebra" with var/n/form/vform fields and "util2"; the round-1 cases above are unchanged)
REFUSALS += [
    (ValueError, "does not define a periodic unit cell", "image_molecules / make_molecules_whole need a complete cell"),
    (NotImplementedError, "", "the loader does not offer this option (gro: frame=)"),
]
EXT_ALIASES = {"netcdf": "nc", "ncdf": "nc", "crd": "mdcrd", "pdb.gz": "pdb", "xyz.gz": "xyz"}
IO_FORMATS = ["h5", "xtc", "trr", "dcd", "nc", "netcdf", "ncdf", "pdb", "pdb.gz", "gro", "lammpstrj", "mdcrd", "crd", "dtr", "xyz", "xyz.gz", "rst7", "ncrst"]
IO_WRITERS = ["save", "save_x", "low", "low-chunks", "low-frames"]
IO_LOADERS = ["load", "load_x", "load(stride)", "load(atom_indices)", "frame", "load_frame", "iterload", "iterload(skip,stride)", "iterload(default)", "read_as_traj", "raw", "list", "list(discard)"]
NO_CELL_FORMATS = {"xyz"}
UNIT = {"h5": 1.0, "xtc": 1.0, "trr": 1.0, "gro": 1.0, "dcd": 10.0, "nc": 10.0, "mdcrd": 10.0, "lammpstrj": 10.0, "dtr": 10.0, "pdb": 10.0, "rst7": 10.0, "ncrst": 10.0, "xyz": 10.0}
CARRY_OPS = ["center", "center(mass)", "superpose(self)", "superpose(frame,atoms)", "smooth", "smooth(inplace)", "smooth(atoms)", "image", "image(inplace)", "image(no-whole)",
             "whole", "whole(inplace)", "remove_solvent", "remove_solvent(inplace)", "remove_solvent(exclude)", "restrict_atoms", "restrict_atoms(copy)", "xyz=", "time=", "deepcopy", "lengths[k,j]*=", "angles[k,j]="]
SLICE2 = ["np.int64", "int32-array", "negstep-bounds", "full", "last"]
JOIN2 = ["join(check_topology=False)", "md.join(tuple)", "md.join(generator)", "md.join(discard_overlapping_frames)", "md.join(check_topology=False)", "join(self)", "add(self)", "md.join(single)",
         "join(list,discard_overlapping_frames)"]
STACK2 = ["stack(keep_resSeq=False)", "stack(self)"]
ATOMS2 = ["atom_slice(int32-array)", "atom_slice(unsorted)", "atom_slice(range)", "atom_slice(inplace,array)"]
SETTER2 = ["L=tuple", "L=noncontig", "L=fortran", "L=int", "A=tuple", "A=noncontig", "A=int", "V=noncontig", "V=fortran", "V=readonly", "V=onezero-frame"]
PATTERNS = ["perframe", "constant", "onefield", "firstortho", "lateskew", "alternate"]


def _solvent_topology(n_atoms, n_prot):
    """n_prot alanine CA atoms in chain 0 followed by water oxygens (one HOH residue each) in chain 1"""
    import mdtraj as md
    from mdtraj.core import element as elem
    top = md.Topology()
    ch = top.add_chain()
    for i in range(n_prot):
        top.add_atom("CA", elem.carbon, top.add_residue("ALA", ch))
    if n_atoms > n_prot:
        ch = top.add_chain()
        for i in range(n_atoms - n_prot):
            top.add_atom("O", elem.oxygen, top.add_residue("HOH", ch))
    return top


def _conv(x, form):
    """one array handed to a low-level writer in the given container / dtype"""
    x = np.asarray(x, np.float64)
    if form == "float64":
        return x.copy()
    if form == "float32":
        return x.astype(np.float32)
    if form == "list":
        return x.tolist()
    if form == "noncontig":
        return _array_form(x, "noncontig")
    raise ValueError(form)


class History2(History):
    """History with the widened op set.  The model is the same few-line Shadow."""

    def __init__(self, case, ctx, tmp):
        super().__init__(case, ctx, tmp)
        self.pattern = case.get("pattern")

    # ---- generators
    def cells(self, nf, perframe=None):
        rng = self.rng
        pat = self.pattern or PATTERNS[int(rng.integers(len(PATTERNS)))]
        if self.cellkind == "ortho":
            cs = [common.random_cell(rng, "ortho") for _ in range(nf)]
            if pat in ("constant",):
                cs = [cs[0]] * nf
            elif pat == "onefield":
                cs = vary_cells(rng, "ortho", nf, "onefield")
                cs = [(L, np.array([90.0, 90.0, 90.0])) for L, _ in cs]
            return np.array([c[0] for c in cs]), np.array([c[1] for c in cs])
        cls = [None, "distinct", "monoclinic", "triclinic", "hex120", "truncoct"][int(rng.integers(6))]
        g = (lambda: gen_cell(rng, cls)) if cls == "distinct" else (lambda: common.random_cell(rng, cls))
        if pat == "perframe":
            cs = [g() for _ in range(nf)]
        elif pat == "constant":
            cs = [g()] * nf
        else:
            cs = vary_cells(rng, cls or "triclinic", nf, pat)
        self.ctx.observe("history2.cell-pattern", pat)
        return np.array([c[0] for c in cs]), np.array([c[1] for c in cs])

    def fresh(self, nf=None, na=None, state=None):
        rng = self.rng
        nf = int(rng.integers(1, 10)) if nf is None else nf
        na = int(rng.integers(3, 8)) if na is None else na
        nprot = int(rng.integers(1, na + 1))
        jit = rng.integers(-4, 5, (nf, na, 3)) / 256.0  # not collinear (superpose), still exact in float32 and |xyz| < 10 nm
        t = self.md.Trajectory(0.25 * common.self_identifying_xyz(nf, na, f0=int(rng.integers(0, 3))) + jit.astype(np.float32), _solvent_topology(na, nprot))
        t.time = (np.arange(nf) * 2.0 + float(rng.integers(0, 5))).astype(np.float32)
        m = Shadow(nf, na)
        state = state or ["complete", "complete", "complete", "none", "lengths-only", "angles-only"][int(rng.integers(6))]
        if state in ("complete", "lengths-only", "angles-only"):
            L, A = self.cells(nf)
            if state != "angles-only":
                t.unitcell_lengths = L
                m.L = L.astype(np.float32).astype(np.float64)
            if state != "lengths-only":
                t.unitcell_angles = A
                m.A = A.astype(np.float32).astype(np.float64)
        self.trace.append(f"fresh2(nf={nf},na={na},{state})")
        return t, m

    # ---- judging helpers
    def judge_inplace(self, op, t, m):
        """t was modified in place by an op that must leave the cell alone"""
        if t.n_frames != m.nf or t.n_atoms != m.na:
            self.ctx.violation("history.presence", f"{op}:result-dimensions", f"{op}: object has {t.n_frames} frames x {t.n_atoms} atoms, model says {m.nf} x {m.na}", history=self.trace[-12:])
            return
        if m.complete:
            out = self.judge(op, t, m, m.state)
            if out is not None:
                m.assign(out)
        else:
            got = (t.unitcell_lengths is not None, t.unitcell_angles is not None)
            if self.ctx.check(got == (m.L is not None, m.A is not None), "history.presence", f"{op}:{m.state}:presence-changed", f"{op}: cell presence changed to lengths={got[0]} angles={got[1]}") is not False:
                self.getters(op, t, m)

    def judge_new(self, op, r, m, nf=None, na=None, add=True, base=None, rows=None):
        nf = m.nf if nf is None else nf
        na = m.na if na is None else na
        if m.complete:
            sl = slice(None) if rows is None else rows
            exp = m.derive(m.L[sl], m.A[sl], nf=nf, na=na)
        else:
            exp = Shadow(nf, na)
        out = self.judge(op, r, exp, m.state, base=base)
        if out is not None and add:
            self.add(r, out)
        return out

    # ---- ops that must carry the cell along unchanged
    def op_carry(self, t, m, which=None):
        import copy
        rng = self.rng
        which = which or CARRY_OPS[int(rng.integers(len(CARRY_OPS)))]
        self.ctx.observe("history.op", which)
        self.trace.append(f"{which}[{m.state}]")
        st = [m.state]
        nprot = sum(1 for a in t.topology.atoms if a.residue.name != "HOH")
        if which in ("center", "center(mass)"):
            r = self.attempt(which, lambda: t.center_coordinates(mass_weighted=(which == "center(mass)")), st, True)
            self.ctx.check(r is t, "history.presence", f"{which}:returns-other-object", "center_coordinates did not return self")
            self.judge_inplace(which, t, m)
        elif which.startswith("superpose"):
            if m.na < 4:
                self.ctx.skip("history.refused", "superpose: fewer than 4 atoms (rotation not determined)")
                return
            s = t.slice(slice(None))  # a copy: the pool keeps its self-identifying coordinates
            if which == "superpose(self)":
                r = self.attempt(which, lambda: s.superpose(s), st, True)  # reference = the object itself
            else:
                idx = sorted(rng.choice(m.na, int(rng.integers(min(3, m.na), m.na + 1)), replace=False).tolist())
                r = self.attempt(which, lambda: s.superpose(t, frame=int(rng.integers(m.nf)), atom_indices=idx, parallel=bool(rng.random() < 0.5)), st, True)
            self.ctx.check(r is s, "history.presence", "superpose:returns-other-object", "superpose did not return self")
            self.judge_new(which, s, m, add=False)
            # the reference must keep its cell as well
            self.judge_inplace(which + ":reference", t, m)
        elif which.startswith("smooth"):
            if m.nf < 3:
                self.ctx.skip("history.refused", "smooth: fewer than 3 frames (filter padding)")
                return
            order = 3 if m.nf >= 9 and rng.random() < 0.5 else 1
            kw = dict(width=3, order=order)
            if which == "smooth(atoms)":
                kw["atom_indices"] = sorted(rng.choice(m.na, int(rng.integers(1, m.na + 1)), replace=False).tolist())
            if which == "smooth(inplace)":
                self.attempt(which, lambda: t.smooth(inplace=True, **kw), st, True)
                self.judge_inplace(which, t, m)
            else:
                r = self.attempt(which, lambda: t.smooth(**kw), st, True)
                self.judge_new(which, r, m)
        elif which.startswith("image") or which.startswith("whole"):
            s = t.slice(slice(None))
            inplace = which.endswith("(inplace)")
            if which.startswith("image"):
                anchors = [{s.topology.atom(0)}]
                fn = lambda: s.image_molecules(inplace=inplace, anchor_molecules=anchors, make_whole=(which != "image(no-whole)"))
            else:
                fn = lambda: s.make_molecules_whole(inplace=inplace)
            r = self.attempt(which, fn, st, must_work=m.complete)
            if not m.complete:
                # it did not refuse: whatever came out must not claim a complete cell
                self.judge(which + "(no-cell)", r, Shadow(m.nf, m.na), m.state)
                return
            if inplace:
                self.ctx.check(r is s, "history.presence", f"{which}:returns-other-object", f"{which} did not return self")
            self.judge_new(which, r, m, add=False)
            if not inplace:
                self.judge_new(which + ":source", s, m, add=False)
        elif which.startswith("remove_solvent"):
            inplace = which == "remove_solvent(inplace)"
            kw = dict(exclude=["HOH"]) if which == "remove_solvent(exclude)" else {}
            na2 = m.na if kw else nprot
            if na2 == 0:
                self.ctx.skip("history.refused", "remove_solvent: every atom is solvent")
                return
            r = self.attempt(which, lambda: t.remove_solvent(inplace=inplace, **kw), st, True)
            if inplace:
                m.na = na2
                self.judge_inplace(which, t, m)
            else:
                self.judge_new(which, r, m, na=na2)
        elif which.startswith("restrict_atoms"):
            keep = sorted(rng.choice(m.na, int(rng.integers(1, m.na + 1)), replace=False).tolist())
            if which == "restrict_atoms":  # documented default: inplace=True
                r = self.attempt(which, lambda: t.restrict_atoms(keep), st, True)
                self.ctx.check(r is t, "history.presence", "restrict_atoms:returns-other-object", "restrict_atoms() (inplace by default) did not return self")
                m.na = len(keep)
                self.judge_inplace(which, t, m)
            else:
                r = self.attempt(which, lambda: t.restrict_atoms(np.array(keep), inplace=False), st, True)
                self.judge_new(which, r, m, na=len(keep))
        elif which == "xyz=":
            t.xyz = t.xyz + np.float32(1.0 / 256.0)
            self.judge_inplace(which, t, m)
        elif which == "time=":
            t.time = t.time + 1.0
            self.judge_inplace(which, t, m)
        elif which == "deepcopy":
            r = self.attempt(which, lambda: copy.deepcopy(t), st, True)
            self.judge_new(which, r, m)
        elif which in ("lengths[k,j]*=", "angles[k,j]="):
            # the getters hand out the stored arrays: an edit of one entry must show in vectors and volumes ("derived on access")
            if not m.complete:
                self.ctx.skip("history.refused", "in-place edit of a stored cell entry: needs a complete cell")
                return
            # on a private copy: other members of the pool may share the stored arrays (slice(copy=False), stack)
            t, m = t.slice(slice(None)), m.derive(m.L.copy(), m.A.copy())
            _ = t.unitcell_vectors, t.unitcell_volumes  # anything remembered from before the edit is stale afterwards
            k, j = int(rng.integers(m.nf)), int(rng.integers(3))
            if which == "lengths[k,j]*=":
                t.unitcell_lengths[k, j] *= np.float32(1.5)
                m.L[k, j] = float(np.float32(m.L[k, j]) * np.float32(1.5))
            else:
                new = np.float32(90.0 if m.A[k, j] != 90.0 else 80.0)
                A2 = m.A[k].copy()
                A2[j] = float(new)
                if not oc.gram_D(A2) > 0.05:
                    self.ctx.skip("history.refused", "in-place edit would leave the domain of valid cells")
                    return
                t.unitcell_angles[k, j] = new
                m.A[k, j] = float(new)
            self.judge_inplace(which, t, m)

    def op_setter2(self, t, m, which=None):
        rng = self.rng
        which = which or SETTER2[int(rng.integers(len(SETTER2)))]
        nf = m.nf
        L, A = self.cells(nf)
        self.ctx.observe("history.op", "set:" + which)
        self.trace.append(which)
        fld, form = which.split("=")
        if fld in ("L", "A"):
            X = L if fld == "L" else A
            if form == "int":
                X = np.round(X) + (1.0 if fld == "L" else 0.0)
                if fld == "A" and not np.all(oc.gram_D(X) > 0.05):
                    X = np.full((nf, 3), 90.0)
                val = X.astype(np.int64)
            elif form == "tuple":
                val = tuple(map(tuple, X.tolist()))
            elif form == "noncontig":
                val = _array_form(X, "noncontig")
            else:
                val = np.asfortranarray(X.astype(np.float32))
            if fld == "L":
                t.unitcell_lengths = val
                m.L = X.astype(np.float32).astype(np.float64)
            else:
                t.unitcell_angles = val
                m.A = X.astype(np.float32).astype(np.float64)
        else:
            B = oc.vectors64(L, A)
            W = np.einsum("nij,nkj->nik", B, _rotations(rng, ["random", "identity", "axisperm", "halfturn"][int(rng.integers(4))], nf))
            if rng.random() < 0.5:
                W = W.astype(np.float32)
            if form == "onezero-frame":
                # one frame without a cell among frames with one is not a physically valid per-frame cell: outside the
                # domain; the all-zero rule of the setter speaks about the whole array only
                self.ctx.skip("history.refused", "unitcell_vectors with some all-zero frames: outside the property's domain")
                return
            t.unitcell_vectors = _array_form(W, form)
            m.L, m.A = L.copy(), A.copy()
            m.nconv, m.qL, m.qA, m.qAc = 1, 0.0, 0.0, 0.0
        want = (m.L is not None, m.A is not None)
        got = (t.unitcell_lengths is not None, t.unitcell_angles is not None)
        if want != got:
            self.ctx.violation("history.presence", f"set:{which}:presence", f"after {which}: lengths present={got[0]} angles present={got[1]}, model says {want}", history=self.trace[-12:])
            return
        if m.complete:
            out = self.judge("set:" + which, t, m.derive(m.L, m.A), m.state)
            if out is not None:
                m.assign(out)
        else:
            self.ctx.ok("history.presence")
            self.getters("set:" + which, t, m)

    def op_slice2(self, t, m, kind=None):
        rng = self.rng
        nf = m.nf
        kind = kind or SLICE2[int(rng.integers(len(SLICE2)))]
        if kind == "np.int64":
            key = np.int64(rng.integers(-nf, nf))
        elif kind == "int32-array":
            key = rng.integers(-nf, nf, int(rng.integers(1, 7))).astype(np.int32)
        elif kind == "negstep-bounds":
            hi = int(rng.integers(0, nf))
            key = slice(hi, None if rng.random() < 0.5 else -nf - 1, -int(rng.integers(1, 4)))
        elif kind == "full":
            key = slice(None)
        else:
            key = -1
        idx = np.atleast_1d(np.arange(nf)[key])
        how = ["getitem", "slice", "slice(copy=False)"][int(rng.integers(3))]
        self.ctx.observe("history.op", f"{how}[{kind}]")
        self.trace.append(f"{how}[{kind}:{key}]")
        fn = (lambda: t[key]) if how == "getitem" else ((lambda: t.slice(key)) if how == "slice" else (lambda: t.slice(key, copy=False)))
        r = self.attempt(f"{how}[{kind}]", fn, [m.state], True)
        self.judge_new(how, r, m, nf=len(idx), rows=idx)

    def op_join2(self, t, m, how=None):
        rng = self.rng
        how = how or JOIN2[int(rng.integers(len(JOIN2)))]
        md = self.md
        self.ctx.observe("history.op", how)
        if how in ("join(self)", "add(self)", "md.join(single)"):
            if how != "md.join(single)" and 2 * m.nf > MAX_FRAMES:
                return
            self.trace.append(f"{how}({m.state})")
            fn = {"join(self)": lambda: t.join(t), "add(self)": lambda: t + t, "md.join(single)": lambda: md.join([t])}[how]
            r = self.attempt(how, fn, [m.state], True)
            rows = np.arange(m.nf) if how == "md.join(single)" else np.concatenate([np.arange(m.nf)] * 2)
            self.judge_new(how, r, m, nf=len(rows), rows=rows, add=(r is not t))
            return
        nother = 2 if how.startswith("md.join") or how.startswith("join(list") else 1
        others = []
        for _ in range(nother):
            for _try in range(6):
                o, mo = self.variant(t, m)
                if mo.complete == m.complete and mo.state == m.state:
                    break
            else:
                return
            others.append((o, mo))
        trajs = [t] + [o for o, _ in others]
        models = [m] + [mo for _, mo in others]
        if sum(x.nf for x in models) > MAX_FRAMES:
            return
        states = [x.state for x in models]
        self.trace.append(f"{how}({'+'.join(states)})")
        drops = [False] * len(models)
        if "check_topology=False" in how:
            for o in trajs[1:]:
                o.topology = common.simple_topology(m.na, element="N")
        if how == "join(check_topology=False)":
            fn = lambda: t.join(trajs[1], check_topology=False)
        elif how == "md.join(check_topology=False)":
            fn = lambda: md.join(trajs, check_topology=False)
        elif how == "md.join(tuple)":
            fn = lambda: md.join(tuple(trajs))
        elif how == "md.join(generator)":
            fn = lambda: md.join(x for x in trajs)
        else:
            # every later trajectory starts with a copy of its predecessor's last frame
            for k in range(1, len(trajs)):
                xyz = trajs[k].xyz.copy()
                xyz[0] = trajs[k - 1].xyz[-1]
                trajs[k].xyz = xyz
                drops[k - 1] = True
            if how.startswith("join(list"):
                fn = lambda: t.join(trajs[1:], discard_overlapping_frames=True)  # one call, a trajectory in the middle loses a frame
            else:
                fn = lambda: md.join(trajs, discard_overlapping_frames=True)  # pairwise
        r = self.attempt(how, fn, states, True)
        if all(x.complete for x in models):
            Ls = [x.L[:-1] if d else x.L for x, d in zip(models, drops)]
            As = [x.A[:-1] if d else x.A for x, d in zip(models, drops)]
            exp = Shadow(sum(len(x) for x in Ls), m.na, np.concatenate(Ls), np.concatenate(As), max(x.nconv for x in models),
                         max(x.qL for x in models), max(x.qA for x in models), max(x.qAc for x in models))
        else:
            exp = Shadow(sum(x.nf for x in models) - sum(drops), m.na)
        out = self.judge(how, r, exp, "+".join(sorted(set(states))))
        if out is not None and "check_topology=False" not in how:
            self.add(r, out)

    def op_stack2(self, t, m, how=None):
        rng = self.rng
        how = how or STACK2[int(rng.integers(len(STACK2)))]
        self.ctx.observe("history.op", how)
        if 2 * m.na > 16:
            return
        if how == "stack(self)":
            self.trace.append(f"stack(self)[{m.state}]")
            r = self.attempt(how, lambda: t.stack(t), [m.state], True)
            self.judge_new(how, r, m, na=2 * m.na, add=False)
            return
        o, mo = self.variant(t, m, nf=m.nf)
        self.ctx.observe("history.stack-states", f"{m.state}|{mo.state}")
        self.trace.append(f"{how}({m.state}|{mo.state})")
        r = self.attempt(how, lambda: t.stack(o, keep_resSeq=False), [m.state, mo.state], True)
        self.judge_new(how, r, m, na=m.na + mo.na, add=False)

    def op_atoms2(self, t, m, how=None):
        rng = self.rng
        how = how or ATOMS2[int(rng.integers(len(ATOMS2)))]
        self.ctx.observe("history.op", how)
        k = int(rng.integers(1, m.na + 1))
        if how == "atom_slice(range)":
            keep = range(0, k)
        elif how == "atom_slice(unsorted)":
            keep = rng.permutation(m.na)[:k].tolist()
        else:
            keep = np.sort(rng.choice(m.na, k, replace=False)).astype(np.int32)
        self.trace.append(f"{how}({list(keep)})")
        if how == "atom_slice(inplace,array)":
            r = self.attempt(how, lambda: t.atom_slice(keep, inplace=True), [m.state], True)
            m.na = k
            self.judge_inplace(how, t, m)
            return
        r = self.attempt(how, lambda: t.atom_slice(keep), [m.state], True)
        self.judge_new(how, r, m, na=k, add=False)

    # ---- save / load matrix
    def low_write(self, fmt, fn, t, m, chunks, form, via_open=False, reopen=False):
        """the format's own file object: write(...) called once per chunk, cell handed over as lengths/angles or box.
        via_open: the handle comes from md.open(path, 'w'); reopen (h5): the handle is closed after the first chunk and
        the file reopened in append mode for the rest"""
        from mdtraj import formats as F
        if via_open:
            class _Open:  # same call shape as the classes below
                def __getattr__(_, name):
                    return lambda path, mode="w": self.md.open(path, mode)
            F = _Open()
            self.ctx.observe("io.low-level-handle", "md.open")
        base = EXT_ALIASES.get(fmt, fmt)
        xyz, time, top = t.xyz, t.time, t.topology
        L = None if m.L is None else m.L
        A = None if m.A is None else m.A
        B = oc.vectors64(L, A) if m.complete else None

        def cell(s, x, scale=1.0):
            if x is None:
                return None
            v = _conv(x[s] * scale, form)
            if len(x[s]) == 1 and form != "noncontig" and self.rng.random() < 0.5:
                v = v[0]  # documented: arrays deficient by one dimension mean a single frame
            return v
        if reopen and base == "h5" and len(chunks) > 1:  # NetCDFTrajectoryFile offers modes 'r' and 'w' only
            self.ctx.observe("io.low-level-handle", f"{base}:reopened-in-append-mode")
            groups = [("w", chunks[:1]), ("a", chunks[1:])]
        else:
            groups = [("w", chunks)]
        if base == "h5":
            for mode, cs in groups:
                with F.HDF5TrajectoryFile(fn, mode=mode) as f:
                    for s in cs:
                        f.write(coordinates=xyz[s], time=time[s], cell_lengths=cell(s, L), cell_angles=cell(s, A))
                    if mode == "w":
                        f.topology = top
        elif base == "nc":
            for mode, cs in groups:
                with F.NetCDFTrajectoryFile(fn, mode=mode) as f:
                    for s in cs:
                        f.write(coordinates=xyz[s] * 10, time=time[s], cell_lengths=cell(s, L, 10.0), cell_angles=cell(s, A))
        elif base == "dcd":
            with F.DCDTrajectoryFile(fn, mode="w") as f:
                for s in chunks:
                    f.write(xyz[s] * 10, cell_lengths=cell(s, L, 10.0), cell_angles=cell(s, A))
        elif base == "dtr":
            with F.DTRTrajectoryFile(fn, mode="w") as f:
                for s in chunks:
                    f.write(xyz[s] * 10, cell_lengths=cell(s, L, 10.0), cell_angles=cell(s, A), times=np.asarray(time[s], np.float64))
        elif base == "lammpstrj":
            with F.LAMMPSTrajectoryFile(fn, mode="w") as f:
                for s in chunks:
                    if m.complete and np.all(A[s] == 90.0) and self.rng.random() < 0.5:
                        f.write(xyz[s] * 10, cell(s, L, 10.0))  # documented default: cell_angles=None means 90 degrees
                    else:
                        f.write(xyz[s] * 10, cell(s, L, 10.0), cell(s, A))
        elif base == "mdcrd":
            with F.MDCRDTrajectoryFile(fn, mode="w") as f:
                for s in chunks:
                    f.write(xyz[s] * 10, cell(s, L, 10.0))
        elif base in ("xtc", "trr"):
            cls = F.XTCTrajectoryFile if base == "xtc" else F.TRRTrajectoryFile
            with cls(fn, mode="w") as f:
                for s in chunks:
                    f.write(xyz[s], time=time[s], box=cell(s, B))
        elif base == "gro":
            with F.GroTrajectoryFile(fn, mode="w") as f:
                for s in chunks:
                    f.write(xyz[s], top, time[s], unitcell_vectors=None if B is None else np.asarray(_conv(B[s], "float64" if form == "list" else form)))
        elif base == "pdb":
            with F.PDBTrajectoryFile(fn, mode="w") as f:
                f._multi_model = t.n_frames > 1
                for i in range(t.n_frames):
                    kw = {} if not m.complete else dict(unitcell_lengths=tuple(float(q) * 10 for q in L[i]), unitcell_angles=tuple(float(q) for q in A[i]))
                    f.write(xyz[i] * 10, top, modelIndex=i, **kw)
        elif base in ("rst7", "ncrst"):
            cls = F.AmberRestartFile if base == "rst7" else F.AmberNetCDFRestartFile
            with cls(fn, mode="w") as f:
                f.write(xyz[0] * 10, time=float(time[0]), cell_lengths=cell(slice(0, 1), L, 10.0), cell_angles=cell(slice(0, 1), A))
        else:
            raise Refused()

    def as_traj(self, base, res, na):
        """what a file object's read() returned -> (lengths nm, angles deg) through a one-atom trajectory; None = no cell"""
        md = self.md
        u = UNIT[base]
        if base == "h5":
            cl, ca, box = res.cell_lengths, res.cell_angles, None
        elif base in ("nc", "dtr", "rst7", "ncrst"):
            cl, ca, box = res[2], res[3], None
        elif base in ("dcd", "lammpstrj"):
            cl, ca, box = res[1], res[2], None
        elif base == "mdcrd":
            cl, box = res[1], None
            ca = None if cl is None else np.full(np.shape(cl), 90.0)
        elif base in ("xtc", "trr"):
            cl = ca = None
            box = res[3]
        elif base == "gro":
            cl = ca = None
            box = res[2]
        else:
            raise Refused()
        nf = len(res[0]) if base != "h5" else len(res.coordinates)
        if base in ("rst7", "ncrst"):
            nf = 1
        r = md.Trajectory(np.zeros((nf, 1, 3), np.float32), common.simple_topology(1))
        if box is not None:
            r.unitcell_vectors = np.asarray(box)  # all-zero box = no cell (documented in the xtc/trr writers)
        elif cl is not None and ca is not None:
            r.unitcell_lengths = np.asarray(cl, np.float64).reshape(nf, 3) / u
            r.unitcell_angles = np.asarray(ca, np.float64).reshape(nf, 3)
        elif (cl is None) != (ca is None):
            self.ctx.violation("history.presence", f"raw-read:{base}:half-set-returned", f"{base} read() returned lengths={cl is not None} angles={ca is not None}")
        return r

    def op_io(self, t, m, fmt=None, writer=None, loader=None):
        rng = self.rng
        md = self.md
        ctx = self.ctx
        if fmt is None:
            fmts = [f for f in IO_FORMATS if m.nf == 1 or f not in SINGLE_FRAME_FORMATS]
            fmt = fmts[int(rng.integers(len(fmts)))]
        writer = writer or IO_WRITERS[int(rng.integers(len(IO_WRITERS)))]
        loader = loader or IO_LOADERS[int(rng.integers(len(IO_LOADERS)))]
        base = EXT_ALIASES.get(fmt, fmt)
        nf, na = m.nf, m.na
        single = base in ("rst7", "ncrst")
        if base == "mdcrd" and na == 1:
            ctx.skip("history.refused", "mdcrd with one atom: a coordinate line is byte-identical to a box line (headerless format)")
            return
        # ---- combinations that do not exist / are known to be broken for reasons outside this property
        if single and (loader not in ("load", "load_x", "load(atom_indices)", "raw", "read_as_traj") or writer in ("low-chunks", "low-frames")):
            loader = "load" if loader not in ("load", "load_x", "load(atom_indices)", "raw", "read_as_traj") else loader
            writer = "save" if writer in ("low-chunks", "low-frames") else writer
        if base == "pdb" and loader in ("read_as_traj", "raw"):
            loader = "load_x"
        if base == "pdb" and writer in ("low-chunks",):
            writer = "low"
        if base == "xyz" and writer.startswith("low"):
            writer = "save_x"
        if base == "dtr" and loader in ("frame", "load_frame", "iterload", "iterload(skip,stride)", "iterload(default)", "read_as_traj", "raw"):
            ctx.skip("history.refused", "dtr: read(n_frames) ignores n_frames (recorded under C02); frame= / iterload / partial reads not drawn")
            loader = "load(stride)"
        if base == "gro" and loader in ("frame", "load_frame"):
            ctx.skip("history.refused", "gro: load(frame=) raises NotImplementedError (not offered)")
            loader = "load"
        if base in ("xtc", "trr") and loader == "iterload(skip,stride)":
            ctx.skip("history.refused", "xtc/trr: iterload(skip>0) is recorded under C02 (seek by frames); skip not drawn")
            loader = "iterload"
        if loader in ("list", "list(discard)") and (nf < 2 or single):
            loader = "load"
        if loader in ("load(stride)",) and nf < 2:
            loader = "load"
        self.nfile += 1
        fn = os.path.join(self.tmp, f"Cell_F{self.nfile}.{fmt}")
        # mechanism key: format x writer family x loader family (the exact combination is in the history / observations)
        wfam = "save" if writer in ("save", "save_x") else "fileobj-write"
        lfam = ("load" if loader in ("load", "load_x", "list", "list(discard)") else "load-partial" if loader in ("load(stride)", "load(atom_indices)", "frame", "load_frame")
                else "iterload" if loader.startswith("iterload") else "fileobj-read")
        op = f"io:{base}:{wfam}:{lfam}"
        ctx.observe("history.op", "io")
        ctx.observe("io.format", f"{fmt}:{m.state}")
        ctx.observe("io.writer", f"{base}:{writer}")
        ctx.observe("io.loader", f"{base}:{loader}")
        ctx.observe("io.frames", ">256" if nf > 256 else (">100" if nf > 100 else ("==100" if nf == 100 else "<100")))
        self.trace.append(f"io:{fmt}:{writer}:{loader}[{m.state}]")
        skewed = m.complete and not np.all(m.A == 90.0)
        must = not (base == "mdcrd" and skewed) and not (base in ("lammpstrj", "dtr") and not m.complete)
        if base == "mdcrd" and skewed and writer.startswith("low"):
            writer = "save"  # the file object takes lengths only; Trajectory.save states the refusal
        top = None if base in NO_TOP else t.topology
        rows = np.arange(nf)
        files = [(fn, t, m, rows)]
        if loader in ("list", "list(discard)"):
            split_k = k = int(rng.integers(1, nf))
            lo = k - 1 if loader == "list(discard)" else k  # the second file starts with the first file's last frame
            r1, r2 = np.arange(0, k), np.arange(lo, nf)
            files = []
            for tag, rr in (("a", r1), ("b", r2)):
                files.append((os.path.join(self.tmp, f"Cell_F{self.nfile}{tag}.{fmt}"), t.slice(rr), m.derive(None if m.L is None else m.L[rr], None if m.A is None else m.A[rr], nf=len(rr)), rr))
            rows = np.concatenate([r1, np.arange(k, nf)]) if loader == "list(discard)" else np.concatenate([r1, r2])
        # ---- write
        form = ["float64", "float32", "list", "noncontig"][int(rng.integers(4))]
        appended = False
        for path, tt, mm, _ in files:
            if writer == "save" or (writer.startswith("low") and mm.state not in ("complete", "none")):
                self.attempt(op + ":save", lambda: tt.save(path), [m.state], must_work=must)
            elif writer == "save_x":
                if rng.random() < 0.5 and base != "dtr":
                    open(path, "w").write("stale content of an earlier run\n")  # force_overwrite=True (the default) must replace it
                if base == "h5":
                    if rng.random() < 0.4 and len(files) == 1 and 2 * nf <= 600:
                        def fnw():
                            tt.save_hdf5(path, mode="w")
                            tt.save_hdf5(path, mode="a")
                        appended = True
                    else:
                        fnw = lambda: tt.save_hdf5(path, mode="w", force_overwrite=True)
                elif base == "gro":
                    fnw = lambda: tt.save_gro(path, precision=int(rng.integers(3, 7)))
                elif base == "pdb":
                    opt = int(rng.integers(3))
                    fnw = lambda: tt.save_pdb(path, header=(opt != 0), ter=(opt != 1), bfactors=(np.linspace(0, 9, tt.n_atoms) if opt == 2 else None))
                else:
                    saver = {"xtc": "save_xtc", "trr": "save_trr", "dcd": "save_dcd", "nc": "save_netcdf", "lammpstrj": "save_lammpstrj", "mdcrd": "save_mdcrd",
                             "dtr": "save_dtr", "xyz": "save_xyz", "rst7": "save_amberrst7", "ncrst": "save_netcdfrst"}[base]
                    fnw = lambda: getattr(tt, saver)(path, force_overwrite=True)
                self.attempt(op + ":save", fnw, [m.state], must_work=must)
            else:
                n_ = tt.n_frames
                if writer == "low":
                    chunks = [slice(0, n_)]
                elif writer == "low-frames":
                    chunks = [slice(i, i + 1) for i in range(n_)] if n_ <= 40 else [slice(0, n_ - 1), slice(n_ - 1, n_)]
                else:
                    k = int(rng.integers(1, max(2, n_)))
                    chunks = [s for s in (slice(0, k), slice(k, n_)) if s.stop > s.start]
                ctx.observe("io.low-level-cell-form", form)
                via_open, reopen = bool(rng.random() < 0.4), bool(rng.random() < 0.5)
                self.attempt(op + ":write", lambda: self.low_write(fmt, path, tt, mm, chunks, form, via_open, reopen), [m.state], must_work=must)
        if appended:
            rows = np.concatenate([rows, rows])
        if m.state not in ("complete", "none"):
            ctx.observe("history.half-set-saved", fmt)
        # ---- extensions only the loaders know (.hdf5, .restrt, .inpcrd): the same bytes under another name
        # (md.load('x.hdf5') itself fails while looking for a topology reader for '.hdf5' - not a cell matter; the alias is
        #  only handed to md.load_hdf5)
        if len(files) == 1 and (base == "rst7" or (base == "h5" and loader == "load_x")) and rng.random() < 0.35 and os.path.exists(fn):
            alias = fn[:-len(fmt)] + ({"h5": ["hdf5"], "rst7": ["restrt", "inpcrd"]}[base][int(rng.integers(1 if base == "h5" else 2))])
            shutil.copy(fn, alias)
            fn = alias
            ctx.observe("io.load-extension-alias", alias.rsplit(".", 1)[1])
        # ---- read
        kwt = {} if top is None else dict(top=top)
        results = []  # (trajectory, rows of the saved trajectory it must hold, n_atoms)

        def sub_atoms():
            return sorted(rng.choice(na, int(rng.integers(1, na)), replace=False).tolist()) if na >= 2 else None
        if loader == "load":
            r = self.attempt(op + ":load", lambda: md.load(fn, **kwt), [m.state], True)
            results.append((r, rows, na))
        elif loader == "load_x":
            lf = {"h5": md.load_hdf5, "xtc": md.load_xtc, "trr": md.load_trr, "dcd": md.load_dcd, "nc": md.load_netcdf, "pdb": md.load_pdb, "lammpstrj": md.load_lammpstrj,
                  "mdcrd": md.load_mdcrd, "dtr": md.load_dtr, "xyz": md.load_xyz, "rst7": md.load_restrt, "ncrst": md.load_ncrestrt, "gro": md.formats.gro.load_gro}[base]
            r = self.attempt(op + ":load", lambda: lf(fn, **kwt), [m.state], True)
            results.append((r, rows, na))
        elif loader == "load(stride)":
            s = int(rng.integers(2, 5))
            keep = sub_atoms() if (base != "trr" and rng.random() < 0.3) else None  # trr: stride + atom subset is a recorded heap overflow (C02)
            akw = {} if keep is None else dict(atom_indices=keep)
            r = self.attempt(op + ":load", lambda: md.load(fn, stride=s, **akw, **kwt), [m.state], True)
            results.append((r, rows[::s], na if keep is None else len(keep)))
        elif loader == "load(atom_indices)":
            keep = sub_atoms()
            kind = int(rng.integers(2))
            r = self.attempt(op + ":load", lambda: md.load(fn, atom_indices=(keep if kind or keep is None else np.array(keep)), **kwt), [m.state], True)
            results.append((r, rows, na if keep is None else len(keep)))
        elif loader in ("frame", "load_frame"):
            k = int(rng.integers(len(rows))) if rng.random() < 0.7 else len(rows) - 1
            keep = sub_atoms() if (loader == "load_frame" and rng.random() < 0.5) else None
            if loader == "frame":
                r = self.attempt(op + ":load", lambda: md.load(fn, frame=k, **kwt), [m.state], True)
            else:
                r = self.attempt(op + ":load", lambda: md.load_frame(fn, k, atom_indices=keep, **kwt), [m.state], True)
            results.append((r, rows[k:k + 1], na if keep is None else len(keep)))
        elif loader.startswith("iterload"):
            kw = dict(kwt)
            sk, st = 0, 1
            if loader == "iterload":
                kw["chunk"] = ch = int(rng.integers(1, 5)) if nf < 50 else [50, 100, 64][int(rng.integers(3))]
                if rng.random() < 0.3 and base != "trr":
                    kw["atom_indices"] = sub_atoms()
            elif loader == "iterload(default)":
                ch = 100  # documented default
            else:
                kw["chunk"] = ch = int(rng.integers(1, 4)) if nf < 50 else 100
                sk, st = int(rng.integers(0, max(1, min(nf, 4)))), int(rng.integers(1, 4))
                kw["skip"], kw["stride"] = sk, st
            nat = na if kw.get("atom_indices") is None else len(kw["atom_indices"])
            want = rows[sk::st]
            chunks = self.attempt(op + ":iterload", lambda: list(itertools.islice(md.iterload(fn, **kw), len(rows) + 3)), [m.state], True)
            got_n = [c.n_frames for c in chunks]
            exp_n = [min(ch, len(want) - i) for i in range(0, len(want), ch)]
            if got_n != exp_n:
                if base == "pdb" or sum(got_n) != len(want):
                    ctx.violation("history.presence", f"io:{base}:iterload:chunk-sizes", f"{op}: iterload chunks hold {got_n} frames, the options ask for {exp_n}", history=self.trace[-12:])
                    return
                ctx.skip("history.refused", f"{base}: iterload chunk sizes {got_n[:4]} differ from the request (a C02 matter); cells judged per chunk as delivered")
            pos = 0
            for c in chunks:
                results.append((c, want[pos:pos + c.n_frames], nat))
                pos += c.n_frames
        elif loader == "read_as_traj":
            s = int(rng.integers(1, 4))
            keep = sub_atoms() if (rng.random() < 0.4 and not (base == "trr" and s > 1)) else None
            n1 = int(rng.integers(1, max(2, len(rows))))

            def rat():
                okw = dict(n_atoms=na) if base == "mdcrd" else {}
                with md.open(fn, **okw) as f:
                    if single:
                        return [f.read_as_traj(t.topology, atom_indices=keep)]
                    a = [] if top is None else [top]
                    first = f.read_as_traj(*a, n_frames=n1, stride=s, atom_indices=keep)
                    try:
                        rest = f.read_as_traj(*a, stride=s, atom_indices=keep)  # continues where the first call stopped
                    except ValueError as e:
                        if "need at least one array" not in str(e):
                            raise
                        rest = None  # trr: a read at the end of the file raises (recorded under C18), not a cell matter
                    return [first, rest]
            out = self.attempt(op + ":read_as_traj", rat, [m.state], True)
            nat = na if keep is None else len(keep)
            if single:
                results.append((out[0], rows, nat))
            else:
                got = out[0].n_frames
                results.append((out[0], rows[::s][:got], nat))
                # the position after a strided read is a C02/C18 matter; the cells of the remainder are judged where that is unambiguous
                if s == 1 and out[1] is not None and out[1].n_frames > 0:
                    results.append((out[1], rows[got:got + out[1].n_frames], nat))
        elif loader == "raw":
            def raw():
                okw = dict(n_atoms=na) if base == "mdcrd" else {}
                with md.open(fn, **okw) as f:
                    return f.read()
            res = self.attempt(op + ":read", raw, [m.state], True)
            results.append((self.as_traj(base, res, na), rows, 1))
        else:
            paths = [p for p, _, _, _ in files]
            r = self.attempt(op + ":load", lambda: md.load(paths, discard_overlapping_frames=(loader == "list(discard)"), **kwt), [m.state], True)
            results.append((r, rows, na))
        # ---- judge
        for r, rr, nat in results:
            if base in NO_CELL_FORMATS:
                if r.unitcell_lengths is not None and r.unitcell_angles is not None:
                    ctx.violation("history.presence", f"io:{base}:cell-from-nowhere", f"{op}: the format stores no cell, the loaded trajectory has one", history=self.trace[-12:])
                elif m.complete:
                    ctx.skip("history.presence", f"{base} stores no cell: a complete cell cannot survive")
                else:
                    ctx.ok("history.presence")
                continue
            if m.complete:
                qL, qA, qAc = self.quantum(base, t, m)
                exp = Shadow(len(rr), nat, m.L[rr], m.A[rr], m.nconv + 1, m.qL + qL, m.qA + qA, m.qAc + qAc)
                if base == "pdb" and (np.any(m.L != m.L[0]) or np.any(m.A != m.A[0])):
                    # one CRYST1 record per file: only the first frame of each file is known to carry its own cell
                    if len(files) == 1:
                        exp.rows = rr == 0
                    else:
                        exp.rows = np.zeros(len(rr), bool)
                        exp.rows[0] = True
                        exp.rows[split_k - 1 if loader == "list(discard)" else split_k] = True
            else:
                exp = Shadow(len(rr), nat)
            self.judge(op, r, exp, m.state, base=op)

    def step(self):
        rng = self.rng
        t, m = self.pick()
        k = rng.random()
        try:
            if k < 0.08:
                self.op_setter(t, m)
            elif k < 0.16:
                self.op_setter2(t, m)
            elif k < 0.22:
                self.op_slice(t, m)
            elif k < 0.30:
                self.op_slice2(t, m)
            elif k < 0.34:
                self.op_join(t, m)
            elif k < 0.44:
                self.op_join2(t, m)
            elif k < 0.49:
                self.op_stack2(t, m)
            elif k < 0.55:
                self.op_atoms2(t, m)
            elif k < 0.75:
                self.op_carry(t, m)
            else:
                self.op_io(t, m)
        except Refused:
            pass


def run_history2(case, ctx):
    tmp = tempfile.mkdtemp(prefix="c17-", dir="/var/tmp")
    try:
        h = History2(case, ctx, tmp)
        for _ in range(2):
            h.add(*h.fresh())
        for _ in range(case["n_ops"]):
            h.step()
            if len(h.pool) < 2:
                h.add(*h.fresh())
    finally:
        shutil.rmtree(tmp, ignore_errors=True)


SWEEP_STATES = [[], [0], [2], [4], [4, 1], [4, 3], [0, 2], [2, 0, 5], [4, 6]]  # indices into SETTERS: none, L, A, V, V then L=None, ...


def run_sweep2(case, ctx):
    """every widened op once on every cell state (none / lengths-only / angles-only / complete reached in several ways)"""
    tmp = tempfile.mkdtemp(prefix="c17-", dir="/var/tmp")
    try:
        h = History2(case, ctx, tmp)
        nf = [1, 3, 5, 9][case["i"] % 4]
        ctx.observe("sweep2.frames", nf)

        def build():
            t, m = h.fresh(nf=nf, na=5, state="none")
            for s in case["seq"]:
                h.op_setter(t, m, SETTERS[s])
            return t, m
        t, m = build()
        ctx.observe("sweep2.state", m.state)
        ops = [(lambda t, m, w=w: h.op_carry(t, m, w)) for w in CARRY_OPS]
        ops += [(lambda t, m, w=w: h.op_slice2(t, m, w)) for w in SLICE2]
        ops += [(lambda t, m, w=w: h.op_join2(t, m, w)) for w in JOIN2]
        ops += [(lambda t, m, w=w: h.op_stack2(t, m, w)) for w in STACK2]
        ops += [(lambda t, m, w=w: h.op_atoms2(t, m, w)) for w in ATOMS2]
        ops += [(lambda t, m, w=w: h.op_setter2(t, m, w)) for w in SETTER2]
        for op in ops:
            h.pool = []
            t, m = build()  # several ops work in place: every op starts from the state under test
            try:
                op(t, m)
            except Refused:
                pass
    finally:
        shutil.rmtree(tmp, ignore_errors=True)


def run_io(case, ctx):
    """one format x writer x loader combination on a trajectory built for it (cell pattern, frame count incl. > 100)"""
    tmp = tempfile.mkdtemp(prefix="c17-", dir="/var/tmp")
    try:
        h = History2(case, ctx, tmp)
        fmt = case["fmt"]
        base = EXT_ALIASES.get(fmt, fmt)
        nf = 1 if base in ("rst7", "ncrst") and not case.get("multi") else int(case["nf"])
        state = case["state"]
        if base in ("mdcrd",) or (base == "lammpstrj" and case.get("ortho")):
            h.cellkind = "ortho"
        t, m = h.fresh(nf=nf, na=int(case["na"]), state=state)
        if case.get("multi"):
            run_multi_restart(h, t, m, fmt)
            return
        try:
            h.op_io(t, m, fmt, case["writer"], case["loader"])
        except Refused:
            pass
    finally:
        shutil.rmtree(tmp, ignore_errors=True)


def run_multi_restart(h, t, m, fmt):
    """rst7 / ncrst of several frames: numbered files <name>.<k>, each holding frame k-1 with ITS cell"""
    md, ctx = h.md, h.ctx
    fn = os.path.join(h.tmp, f"Multi.{fmt}")
    op = f"io:{fmt}:save(numbered)"
    ctx.observe("history.op", "io")
    ctx.observe("io.format", f"{fmt}-numbered:{m.state}")
    h.trace.append(op)
    try:
        t.save(fn)
    except Exception as e:
        label = _refusal(e)
        if label is not None:
            ctx.skip("history.refused", f"io: {label}")
        else:
            ctx.violation("history.presence", f"io:{fmt}:save-numbered-files:{m.state}:raises-{type(e).__name__}",
                          f"{fmt}: saving {m.nf} frames (numbered files) with cell state {m.state} raised {type(e).__name__}: {str(e)[:200]}; one frame of the same trajectory saves", history=h.trace[-12:])
        return
    width = len(str(m.nf))
    lf = md.load_restrt if fmt == "rst7" else md.load_ncrestrt
    for k in range(m.nf):
        path = f"{fn}.{k + 1:0{width}d}"
        try:
            r = h.attempt(op + ":load", lambda: lf(path, top=t.topology), [m.state], True)
        except Refused:
            continue
        if m.complete:
            qL, qA, qAc = h.quantum(fmt, t, m)
            exp = Shadow(1, m.na, m.L[k:k + 1], m.A[k:k + 1], m.nconv + 1, m.qL + qL, m.qA + qA, m.qAc + qAc)
        else:
            exp = Shadow(1, m.na)
        h.judge(op, r, exp, m.state, base=f"io:{fmt}:numbered")


FOREIGN = ["dcd-degrees", "gro-3", "gro-9", "pdb-spacegroup", "pdb-p1", "pdb-bare", "lammpstrj-exp", "lammpstrj-flags", "arc", "rst7-velocities", "rst7-box-only",
           "mdcrd", "trr-double", "trr-single-vf"]


def run_foreign(case, ctx):
    """cell-carrying files as other programs write them; judged against the cell that was written into them"""
    import mdtraj as md
    from vlib.gen import c17_files as ff
    from vlib.gen import files as gf
    rng = common.rng_for("C17foreign", case["seed"])
    which = case["which"]
    ctx.observe("foreign.kind", which)
    tmp = tempfile.mkdtemp(prefix="c17-", dir="/var/tmp")
    try:
        h = History2(dict(case, cells="any"), ctx, tmp)
        nf = 1 if which.startswith("rst7") else int(case["nf"])
        na = int(rng.integers(3, 9))
        ortho = which in ("gro-3", "mdcrd") or (which.startswith("lammpstrj") and rng.random() < 0.3)
        if ortho:
            h.cellkind = "ortho"
        h.pattern = case.get("pattern")
        L, A = h.cells(nf)
        if which.startswith("pdb"):
            L[:], A[:] = L[0], A[0]
        top = common.simple_topology(na)
        xyz = (0.25 * common.self_identifying_xyz(nf, na)).astype(np.float64)
        B = oc.vectors64(L, A)
        qL = qA = qAc = 0.0
        Lmin = float(L.min())
        kw = dict(top=top)
        if which == "dcd-degrees":
            t = md.Trajectory(xyz.astype(np.float32), top, unitcell_lengths=L, unitcell_angles=A)
            src, fn = os.path.join(tmp, "src.dcd"), os.path.join(tmp, "Foreign.dcd")
            t.save(src)
            ff.dcd_cell_degrees(src, fn, na, nf, A)
        elif which in ("gro-3", "gro-9"):
            fn = os.path.join(tmp, "Foreign.gro")
            ff.gro_write(fn, xyz, B, three=(which == "gro-3"))
            hq = 5e-6 * np.sqrt(3.0) * 1.5
            qL, qA, kw = 2 * hq, DEG * 2 * hq / Lmin, {}
        elif which.startswith("pdb"):
            fn = os.path.join(tmp, "Foreign.pdb")
            ff.pdb_write(fn, xyz, L[0], A[0], variant=which.split("-")[1], models=nf > 1)
            qL, qA, kw = 6e-5, 6e-3, {}
        elif which.startswith("lammpstrj"):
            fn = os.path.join(tmp, "Foreign.lammpstrj")
            flags = "pp pp pp" if which == "lammpstrj-exp" else ["pp pp ff", "ff ff ff", "pp ss pp", "fm fm pp"][int(rng.integers(4))]
            origin = tuple(rng.uniform(-30, 30, 3).round(3)) if which == "lammpstrj-flags" else (0.0, 0.0, 0.0)
            ff.lammpstrj_write(fn, xyz, L, A, flags=flags, origin=origin, exponent=(which == "lammpstrj-exp" or rng.random() < 0.5))
            q = 16 * EPS32 * (40.0 + 3 * float(L.max())) * 10 / 10
            qL, qA, qAc = q, 0.0, DEG * 2 * q / Lmin
        elif which == "arc":
            fn = os.path.join(tmp, "Foreign.arc")
            ff.arc_write(fn, xyz, L, A)
            qL, qA, kw = 6e-8, 6e-7, {}
        elif which.startswith("rst7"):
            fn = os.path.join(tmp, "Foreign.rst7")
            ff.rst7_write(fn, xyz[0], L[0], A[0], velocities=(which == "rst7-velocities"))
            qL, qA = 1e-8 + 4 * EPS32 * float(L.max()), 1e-6
        elif which == "mdcrd":
            fn = os.path.join(tmp, "Foreign.mdcrd")
            ff.mdcrd_write(fn, xyz, L)
            qL = 6e-5
        else:
            fn = os.path.join(tmp, "Foreign.trr")
            gf.trr_write_foreign(fn, xyz, box_nm=B, times=np.arange(nf) * 0.5, double=(which == "trr-double"), velocities=True, forces=bool(rng.random() < 0.5))
        m = Shadow(nf, na, L, A, 0, qL, qA, qAc)
        loader = case["loader"]
        ctx.observe("foreign.loader", loader)
        h.trace.append(f"foreign:{which}:{loader}")
        rows = np.arange(nf)
        try:
            if loader == "load" or nf == 1 or which == "arc":
                r = h.attempt(f"foreign:{which}:load", lambda: md.load(fn, **kw), ["complete"], True)
            elif loader == "stride":
                r = h.attempt(f"foreign:{which}:load(stride)", lambda: md.load(fn, stride=2, **kw), ["complete"], True)
                rows = rows[::2]
            elif loader == "frame" and not which.startswith("gro"):
                k = int(rng.integers(nf))
                r = h.attempt(f"foreign:{which}:load(frame)", lambda: md.load(fn, frame=k, **kw), ["complete"], True)
                rows = rows[k:k + 1]
            else:
                ch = int(rng.integers(1, 4))
                okw = dict(kw)
                chunks = h.attempt(f"foreign:{which}:iterload", lambda: list(itertools.islice(md.iterload(fn, chunk=ch, **okw), nf + 3)), ["complete"], True)
                if sum(c.n_frames for c in chunks) != nf:
                    ctx.violation("history.presence", f"foreign:{which}:iterload:frame-count", f"iterload delivered {[c.n_frames for c in chunks]} frames of {nf}")
                    return
                if any(c.unitcell_lengths is None or c.unitcell_angles is None for c in chunks):
                    ctx.violation("history.presence", f"foreign:{which}:complete-input:cell-lost", "a chunk of iterload has no cell although every frame of the file carries one")
                    return
                r = md.Trajectory(np.zeros((nf, 1, 3), np.float32), common.simple_topology(1), unitcell_lengths=np.concatenate([c.unitcell_lengths for c in chunks]),
                                  unitcell_angles=np.concatenate([c.unitcell_angles for c in chunks]))
                m.na = 1
        except Refused:
            return
        exp = Shadow(len(rows), m.na if r.n_atoms != 1 or na == 1 else 1, L[rows], A[rows], 1, qL, qA, qAc)
        if r.n_atoms == na:
            exp.na = na
        h.judge(f"foreign:{which}", r, exp, "complete", base=f"foreign:{which}")
    finally:
        shutil.rmtree(tmp, ignore_errors=True)


NWIDE = {"quick": dict(algebra=360, util2=320, history2=900, io=1, foreign=2), "thorough": dict(algebra=2400, util2=1600, history2=6000, io=6, foreign=12)}


def _gen_cases_widened(tier, seed):
    n = NWIDE[tier]
    i = 10 ** 6  # widened cases are numbered apart from the round-1 stream
    for k, seq in enumerate(SWEEP_STATES):
        for rep in range(1 if tier == "quick" else 4):
            yield dict(i=i, kind="sweep2", seq=seq, seed=common.case_seed(seed, "C17w", i))
            i += 1
    # io matrix: every format x writer x loader once per pass; frame counts / states / cell patterns rotate with the seed
    cells = [(f, w, l) for f in IO_FORMATS for w in IO_WRITERS for l in IO_LOADERS]
    big = [100, 101, 130, 257]
    for rep in range(n["io"]):
        for k, (f, w, l) in enumerate(cells):
            s = common.case_seed(seed, "C17io", i)
            long_ = (k + seed + rep) % 23 == 0 and EXT_ALIASES.get(f, f) not in ("rst7", "ncrst", "pdb", "gro", "dtr")
            st = ["complete", "complete", "complete", "none", "complete", "lengths-only", "complete", "angles-only"][(k // 7 + rep + seed) % 8]
            yield dict(i=i, kind="io", fmt=f, writer=w, loader=l, nf=(big[s % 4] if long_ else 2 + s % 9), na=3 + s % 9, state=st, pattern=PATTERNS[(k + seed) % len(PATTERNS)], seed=s,
                       cells="any", ortho=bool(s % 3 == 0))
            i += 1
        for f in ("rst7", "ncrst"):
            for st in ("complete", "none", "lengths-only"):
                s = common.case_seed(seed, "C17io", i)
                yield dict(i=i, kind="io", fmt=f, multi=True, writer="save", loader="load", nf=[2, 3, 10, 12][s % 4], na=3 + s % 5, state=st, pattern=PATTERNS[s % len(PATTERNS)], seed=s, cells="any")
                i += 1
    for rep in range(n["foreign"]):
        for k, w in enumerate(FOREIGN):
            for l in ("load", "stride", "frame", "iterload"):
                s = common.case_seed(seed, "C17f", i)
                yield dict(i=i, kind="foreign", which=w, loader=l, nf=(130 if (k + rep + seed) % 9 == 0 and not w.startswith("pdb") else 2 + s % 8), pattern=PATTERNS[(k + rep + s) % len(PATTERNS)], seed=s)
                i += 1
    total = n["algebra"] + n["util2"] + n["history2"]
    na = nu = nh = 0
    for j in range(total):
        fa, fu, fh = na / n["algebra"], nu / n["util2"], nh / n["history2"]
        mn = min(fa, fu, fh)
        if mn == fa and na < n["algebra"]:
            cls = CLASSES[na % len(CLASSES)]
            nn = 260 if na % 30 == 7 else (130 if na % 10 == 3 else (1 if na % 10 == 5 else (2 if na % 10 == 8 else NCELL)))
            yield dict(i=i, kind="algebra", cls=cls, perframe=True, var=VARIATIONS[(na // len(CLASSES)) % len(VARIATIONS)], n=nn, form=CELL_FORMS[(na // 2) % len(CELL_FORMS)],
                       vform=VEC_FORMS[(na // 3) % len(VEC_FORMS)], rot=ROTS[(na // 5) % len(ROTS)], seed=common.case_seed(seed, "C17a2", i))
            na += 1
        elif mn == fu and nu < n["util2"]:
            yield dict(i=i, kind="util2", mode=UTIL2_MODES[nu % len(UTIL2_MODES)], cls=CLASSES[(nu // len(UTIL2_MODES)) % len(CLASSES)], seed=common.case_seed(seed, "C17u2", i))
            nu += 1
        else:
            deep = tier == "thorough" and nh % 4 == 0
            yield dict(i=i, kind="history2", n_ops=int(30 if deep else 14), seed=common.case_seed(seed, "C17h2", i), cells="any" if nh % 3 else "ortho")
            nh += 1
        i += 1


def run_case(case, ctx):
    warnings.simplefilter("ignore")
    kind = case["kind"]
    ctx.observe("kind", kind)
    with np.errstate(all="ignore"):
        if kind == "algebra":
            run_algebra(case, ctx)
        elif kind == "util":
            run_util(case, ctx)
        elif kind == "history":
            run_history(case, ctx)
        elif kind == "util2":
            run_util2(case, ctx)
        elif kind == "history2":
            run_history2(case, ctx)
        elif kind == "sweep2":
            run_sweep2(case, ctx)
        elif kind == "io":
            run_io(case, ctx)
        elif kind == "foreign":
            run_foreign(case, ctx)
        else:
            run_setters(case, ctx)
