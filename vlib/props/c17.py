"""C17 — unit-cell lengths/angles and box vectors describe the same cell.

Part A (cell algebra; differential oracle vlib/oracle/c17_cell.py, float64, never calls mdtraj)
  A trajectory is given float32 lengths/angles (the stored cell).  Judged on what the REAL getters return:
  * vec.lengths      |row_i| == stored length_i                      rel 1e-6 (= 17 eps32; analysed error <= 4 eps32)
  * vec.angles       angle(b,c)=alpha, angle(c,a)=beta, angle(a,b)=gamma
                     tol(theta) = deg(8 eps32) + deg(32 eps32)/sin(theta) + deg(2e-6 * (1/|u| + 1/|v|))
                     (radian conversion in float32; float32 cos/sin/quotient recovered through 1/sin; the last term is
                      the documented "snap |x|<1e-6 nm to 0" quantum of lengths_and_angles_to_box_vectors).
                     deg(32 eps32) = 1.1e-4 degrees, i.e. the design's "1e-4 deg / sin".
  * vec.angle-naming same comparison, only cells whose three angles differ pairwise by > 2 degrees: a reported triple
                     that matches a non-identity permutation of the stored angles gets its own key
  * vec.orientation  a = (a,0,0) exactly, b_z == 0 exactly, a_x > 0, b_y > 0, c_z > 0
  * vol.triple       unitcell_volumes == a.(b x c) of the reported vectors, abs 16 eps32 |a||b||c| (float32 LU), > 0
  * vol.closed       unitcell_volumes == abc sqrt(1-ca^2-cb^2-cg^2+2 ca cb cg) of the stored values,
                     rel (40 sin(gamma) + extra) eps32 / D + 16 eps32  (cancellation in c_z^2, see oracle docstring);
                     cells whose bound exceeds 0.1 (D < ~2e-5) are skipped as ill-conditioned in float32
  * rot64.* / rot32.*  unitcell_vectors := a properly rotated float64 / float32 description B R^T of the cell;
                     lengths/angles/volumes read back must be the cell's values.  float64 path: rel 1e-9, 1e-9 deg/sin,
                     volume rel 1e-9/D + snap 1e-6 (ab+bc+ca); float32 path: 8 eps32, deg(8 eps32)+deg(32 eps32)/sin,
                     volume bound with extra = 200 eps32/D (stored angles carry <= 32 eps32/sin each).
  * util.*           mdtraj.utils.lengths_and_angles_to_box_vectors / box_vectors_to_lengths_and_angles called directly
                     with python scalars, numpy scalars and (n,) arrays in float64: components against the oracle
                     (abs 1e-6 snap + 1e-12 L), output shapes (3,) / (n,3), inverse on rotated vectors (rel 1e-12,
                     1e-9 deg/sin).
Part B (history model; M3)
  A few-line model shadows a pool of trajectories through random op histories (and an exhaustive enumeration of all
  setter sequences up to length 2/3 followed by every op).  Model state per trajectory: lengths array or None, angles
  array or None ("complete" iff both).  Ops: unitcell_lengths / unitcell_angles / unitcell_vectors assignments (arrays,
  None, all-zero vectors, (3,) for one frame), t[key], t.slice(key, copy=), join / + / md.join / join([..]) /
  discard_overlapping_frames, stack, atom_slice(inplace=), save+load through h5 xtc trr dcd nc pdb gro lammpstrj
  mdcrd dtr rst7 ncrst (optionally load(stride=, atom_indices=)).
  * history.presence  result has a complete cell (both arrays, shape (n_frames,3)) iff the model says its input had one
  * history.values    the per-frame values follow numpy indexing / concatenation, within
                      (1+nconv) * [8 eps32 L ; angle_tol32] + the format quantum (pdb 1e-3 A & 0.01 deg, gro 1e-5 nm
                      per component, mdcrd 1e-3 A, lammpstrj float32 bounds next to |xyz| and allclose(90) snap, ...)
  * history.getters   unitcell_vectors / unitcell_volumes are None iff the cell is not complete, else shapes
                      (n,3,3)/(n,) and volume == closed form
  Documented refusals (join mixing cell/no-cell, save of a half-set cell refused by _check_valid_unitcell, mdcrd with a
  skewed cell, lammpstrj/dtr without cell) are skips.  A half-set cell must never come out complete, and an op that a
  no-cell trajectory survives must not die with an internal error on a half-set one.
"""
from __future__ import annotations

import itertools
import os
import shutil
import tempfile
import warnings

import numpy as np

from vlib.gen import common
from vlib.oracle import c17_cell as oc

PROPERTY = "C17"
LEVEL = "exploration"
NATIVE = ["mdtraj.formats.xtc", "mdtraj.formats.trr", "mdtraj.formats.dcd", "mdtraj.formats.dtr"]
RULE = ("cases = algebra batches (cell class x per-frame variation x rotation kind, 24 cells each), direct utility calls, "
        "random op histories over a pool of trajectories (setter assignments incl. None / zeros / half-set, slicing, "
        "join, stack, atom_slice, save+load through 12 formats) and an exhaustive enumeration of setter sequences "
        "followed by every op; a case is non-trivial when a monitor compared the real object's cell with the float64 "
        "oracle / the history model; distinct = distinct case descriptors")
WORKERS = {"quick": 8, "thorough": 16}
BUDGET = {"quick": 60, "thorough": 900}
FLOORS = {"quick": {"vec.lengths": 2500, "vec.angles": 2500, "vec.orientation": 2500, "vec.angle-naming": 900,
                    "vol.triple": 2500, "vol.closed": 2500, "rot64.readback": 2500, "rot32.readback": 2500,
                    "util.to-vectors": 350, "util.from-vectors": 350,
                    "history.presence": 6000, "history.values": 9000, "history.getters": 5500}}
ASSUMPTIONS = [
    "physically valid cell = lengths in [0.3, 300] nm, angles satisfying the positivity condition with D >= ~2e-5 "
    "(below that the float32 storage itself cannot represent the volume to 10%; such cells are skipped)",
    "the 1e-6 nm snap-to-zero of lengths_and_angles_to_box_vectors is part of the documented mechanism; its quantum is "
    "added to the angle tolerance instead of being judged",
    "rotated descriptions are proper rotations (det +1); reflections are outside the statement",
    "PDB holds one CRYST1 record per file: after a pdb round trip only frame 0's cell is compared, the other frames are "
    "skipped when the cell varied per frame (presence and shape are still judged for all frames)",
    "operations mdtraj documents as errors (join of cell with no-cell, save of half-set cell, mdcrd with skewed cell, "
    "lammpstrj/dtr without cell) are skips",
]

EPS32 = oc.EPS32
DEG = oc.DEG
CLASSES = list(common.CELL_KINDS) + ["near90", "neardegenerate", "widelengths", "distinct", "triclinic", "neardegenerate"]
ROTS = ["random", "random", "identity", "axisperm", "random", "halfturn", "axisperm-same"]
NCASES = {"quick": dict(algebra=1200, util=600, history=6000, setters=2), "thorough": dict(algebra=8400, util=3000, history=30000, setters=3)}
NCELL = 24


# ------------------------------------------------------------------------------------------------ generators
def _valid(ang, margin):
    return bool(oc.gram_D(ang) > margin)


def gen_cell(rng, cls):
    """one (lengths, angles) pair, float64"""
    if cls in common.CELL_KINDS:
        return common.random_cell(rng, cls)
    L0 = rng.uniform(1.5, 6.0)
    lens = np.array([L0, L0 * rng.uniform(0.4, 2.5), L0 * rng.uniform(0.4, 2.5)])
    if cls == "near90":
        for _ in range(100):
            base = rng.choice([90.0, 90.0, 90.0, 60.0, 120.0], 3)
            d = rng.choice([0.0, 1e-5, 1e-4, 1e-3, 1e-2, 0.1, 1.0], 3) * rng.choice([-1.0, 1.0], 3)
            ang = base + d
            if _valid(ang, 0.05):
                return lens, ang
        return lens, np.array([90.0, 90.001, 89.99])
    if cls == "neardegenerate":
        for _ in range(1000):
            al, be = rng.uniform(35, 145, 2)
            lo, hi = abs(al - be), min(al + be, 360.0 - al - be)
            delta = 10.0 ** rng.uniform(-2.0, 0.8)
            ga = lo + delta if rng.random() < 0.5 else hi - delta
            if not (8.0 < ga < 172.0) or not (lo < ga < hi):
                continue
            ang = np.array([al, be, ga])[rng.permutation(3)]
            ang32 = ang.astype(np.float32).astype(np.float64)
            D = float(oc.gram_D(ang32))
            if 3e-5 < D < 2e-2:
                return lens, ang
        return lens, np.array([60.0, 50.0, 109.0])
    if cls == "widelengths":
        _, ang = common.random_cell(rng, "triclinic")
        lens = 10.0 ** rng.uniform(np.log10(0.3), np.log10(300.0), 3)
        return lens, ang
    if cls == "distinct":
        for _ in range(1000):
            ang = rng.uniform(50, 130, 3)
            if _valid(ang, 0.08) and min(abs(ang[0] - ang[1]), abs(ang[1] - ang[2]), abs(ang[0] - ang[2])) > 5.0:
                break
        else:
            ang = np.array([70.0, 85.0, 105.0])
        lens = L0 * np.array([1.0, 1.35, 1.9])[rng.permutation(3)]
        return lens, ang
    raise ValueError(cls)


def gen_cases(tier, seed):
    n = NCASES[tier]
    i = 0
    # exhaustive setter sequences first (deterministic, small)
    depth = n["setters"]
    for k in range(1, depth + 1):
        for seq in itertools.product(range(len(SETTERS)), repeat=k):
            yield dict(i=i, kind="setters", seq=list(seq), seed=common.case_seed(seed, "C17s", i))
            i += 1
    total = n["algebra"] + n["util"] + n["history"]
    na = nu = nh = 0
    for j in range(total):
        # interleave proportionally so that a budget-truncated run still saw every kind
        fa, fu, fh = na / n["algebra"], nu / n["util"], nh / n["history"]
        m = min(fa, fu, fh)
        if m == fa and na < n["algebra"]:
            cls = CLASSES[na % len(CLASSES)]
            yield dict(i=i, kind="algebra", cls=cls, perframe=bool((na // len(CLASSES)) % 3 != 2),
                       rot=ROTS[(na // 3) % len(ROTS)], seed=common.case_seed(seed, "C17a", i))
            na += 1
        elif m == fu and nu < n["util"]:
            yield dict(i=i, kind="util", cls=CLASSES[nu % len(CLASSES)], seed=common.case_seed(seed, "C17u", i))
            nu += 1
        else:
            deep = tier == "thorough" and nh % 4 == 0
            yield dict(i=i, kind="history", n_ops=int(30 if deep else 14), seed=common.case_seed(seed, "C17h", i),
                       cells="any" if nh % 3 else "ortho")
            nh += 1
        i += 1


# ------------------------------------------------------------------------------------------------ part A
def _rotations(rng, kind, n):
    R = np.zeros((n, 3, 3))
    if kind in ("halfturn", "axisperm-same"):
        # ONE axis rotation for the whole trajectory (the same re-orientation of every frame): a half turn about x, y or z
        # keeps a rectangular cell's vectors on the coordinate axes, two of them pointing the negative way
        S = np.diag([(1, -1, -1), (-1, 1, -1), (-1, -1, 1)][int(rng.integers(3))]).astype(float)
        P = np.eye(3) if kind == "halfturn" else np.eye(3)[list([(0, 1, 2), (1, 2, 0), (2, 0, 1)][int(rng.integers(3))])]
        R[:] = P @ S
        return R
    for f in range(n):
        if kind == "identity":
            R[f] = np.eye(3)
        elif kind == "axisperm":
            P = np.eye(3)[list([(0, 1, 2), (1, 2, 0), (2, 0, 1)][int(rng.integers(3))])]
            S = np.diag([(1, 1, 1), (1, -1, -1), (-1, 1, -1), (-1, -1, 1)][int(rng.integers(4))]).astype(float)
            R[f] = P @ S  # even permutation times even number of sign flips: det +1
        else:
            R[f] = common.random_rotation(rng)
    return R


def _margin(ctx, name, err, tol, sel=None):
    """record how much of the tolerance the conforming executions used (largest err/tol of the batch)"""
    err, tol = np.broadcast_arrays(np.asarray(err, np.float64), np.asarray(tol, np.float64))
    if sel is not None:
        err, tol = err[sel], tol[sel]
    if err.size == 0:
        return
    r = float(np.nanmax(err / np.clip(tol, 1e-300, None)))
    for lim, lab in ((1 / 64, "<1/64"), (1 / 16, "<1/16"), (1 / 4, "<1/4"), (1 / 2, "<1/2"), (1.0, "<1")):
        if r < lim:
            ctx.observe("tolerance-used." + name, lab)
            return
    ctx.observe("tolerance-used." + name, ">=1")


def _first(mask):
    return int(np.argmax(mask))


def run_algebra(case, ctx):
    import mdtraj as md
    rng = common.rng_for("C17alg", case["seed"])
    cls = case["cls"]
    n = NCELL
    if case["perframe"]:
        cells = [gen_cell(rng, cls) for _ in range(n)]
    else:
        cells = [gen_cell(rng, cls)] * n
    L = np.array([c[0] for c in cells])
    A = np.array([c[1] for c in cells])
    L32, A32 = L.astype(np.float32), A.astype(np.float32)
    ctx.observe("algebra.class", cls)
    ctx.observe("algebra.perframe", case["perframe"])
    t = md.Trajectory(np.zeros((n, 1, 3), np.float32), common.simple_topology(1), unitcell_lengths=L32, unitcell_angles=A32)
    Ls = np.asarray(t.unitcell_lengths, np.float64)
    As = np.asarray(t.unitcell_angles, np.float64)
    if Ls.shape != (n, 3) or As.shape != (n, 3) or not (np.array_equal(Ls, L32.astype(np.float64)) and np.array_equal(As, A32.astype(np.float64))):
        ctx.violation("vec.stored", "constructor:stored-cell-differs-from-float32-of-assigned",
                      "unitcell_lengths/angles read back differ from the float32 values assigned")
        return
    ctx.ok("vec.stored", n)
    D = oc.gram_D(As)
    vtol = oc.volume_reltol32(As)
    wellcond = vtol <= 0.1
    ctx.observe("algebra.log10D", int(np.floor(np.log10(D.min()))))
    V = t.unitcell_vectors
    vol = t.unitcell_volumes
    if V is None or vol is None or np.shape(V) != (n, 3, 3) or np.shape(vol) != (n,):
        ctx.violation("vec.lengths", "vectors:missing-or-shape", f"unitcell_vectors shape {np.shape(V)}, volumes shape {np.shape(vol)} for {n} frames with a complete cell")
        return
    V = np.asarray(V, np.float64)
    vol = np.asarray(vol, np.float64)
    fin = np.isfinite(V).all(axis=(1, 2)) & np.isfinite(vol)
    if (~fin & wellcond).any():
        f = _first(~fin & wellcond)
        ctx.violation("vec.lengths", "vectors:non-finite", "non-finite box vectors / volume for a well-conditioned cell", lengths=Ls[f], angles=As[f], D=D[f])
    dom = fin & wellcond
    if (~dom).any():
        ctx.skip("vec", "cell too close to degenerate for float32 storage (volume bound > 10%)", int((~dom).sum()))
    if not dom.any():
        return
    Lr, Ar, triple = oc.describe(np.where(fin[:, None, None], V, 1.0))
    # --- lengths
    bad = dom & (np.abs(Lr - Ls) > 1e-6 * Ls).any(axis=1)
    if bad.any():
        f = _first(bad)
        ctx.violation("vec.lengths", "vectors:length-mismatch", f"reported vectors have lengths {Lr[f]} but stored lengths are {Ls[f]}", angles=As[f], vectors=V[f])
    ctx.ok("vec.lengths", int((dom & ~bad).sum()))
    _margin(ctx, "vec.lengths", np.abs(Lr - Ls), 1e-6 * Ls, dom)
    # --- angles
    inv = 1.0 / np.clip(Lr, 1e-9, None)
    snap = 2e-6 * DEG * np.stack([inv[:, 1] + inv[:, 2], inv[:, 2] + inv[:, 0], inv[:, 0] + inv[:, 1]], axis=1)
    atol = oc.angle_tol32(As) + snap
    err = np.abs(Ar - As)
    badf = dom & (err > atol).any(axis=1)
    spread = np.min(np.abs(As[:, [0, 1, 2]] - As[:, [1, 2, 0]]), axis=1)
    distinct = dom & (spread > 2.0)
    named_bad = np.zeros(n, bool)
    for f in np.where(badf)[0]:
        perm_hit = None
        if distinct[f]:
            for p in itertools.permutations(range(3)):
                if p != (0, 1, 2) and np.all(np.abs(Ar[f][list(p)] - As[f]) <= atol[f] * 4):
                    perm_hit = p
        if perm_hit is not None:
            named_bad[f] = True
            ctx.violation("vec.angle-naming", "vectors:angle-naming",
                          f"angles between reported vectors (bc,ca,ab)={Ar[f]} are a permutation {perm_hit} of stored (alpha,beta,gamma)={As[f]}",
                          lengths=Ls[f], vectors=V[f])
        else:
            k = int(np.argmax(err[f] - atol[f]))
            ctx.violation("vec.angles", "vectors:angle-mismatch",
                          f"angle {'alpha beta gamma'.split()[k]} between reported vectors is {Ar[f, k]:.7f}, stored {As[f, k]:.7f} (tol {atol[f, k]:.2g})",
                          lengths=Ls[f], angles=As[f], vectors=V[f])
    ctx.ok("vec.angles", int((dom & ~badf).sum()))
    _margin(ctx, "vec.angles", err, atol, dom)
    ctx.ok("vec.angle-naming", int((distinct & ~badf).sum()))
    # --- orientation
    bo = dom & ~((V[:, 0, 1] == 0) & (V[:, 0, 2] == 0) & (V[:, 1, 2] == 0) & (V[:, 0, 0] > 0) & (V[:, 1, 1] > 0) & (V[:, 2, 2] > 0))
    if bo.any():
        f = _first(bo)
        ctx.violation("vec.orientation", "vectors:not-standard-orientation", f"reported vectors are not a=(a,0,0), b_z=0, b_y>0, c_z>0: {V[f].tolist()}", lengths=Ls[f], angles=As[f])
    ctx.ok("vec.orientation", int((dom & ~bo).sum()))
    # --- volumes
    scale = Lr.prod(axis=1)
    bt = dom & ((np.abs(vol - triple) > 16 * EPS32 * scale) | ~(vol > 0))
    if bt.any():
        f = _first(bt)
        ctx.violation("vol.triple", "volumes:not-triple-product-of-vectors", f"unitcell_volumes {vol[f]:.9g} but a.(b x c) of the reported vectors is {triple[f]:.9g}", lengths=Ls[f], angles=As[f])
    ctx.ok("vol.triple", int((dom & ~bt).sum()))
    _margin(ctx, "vol.triple", np.abs(vol - triple), 16 * EPS32 * scale, dom)
    closed = oc.closed_volume(Ls, As)
    bc = dom & (np.abs(vol - closed) > vtol * closed)
    if bc.any():
        f = _first(bc)
        ctx.violation("vol.closed", "volumes:not-closed-form", f"unitcell_volumes {vol[f]:.9g} but abc*sqrt(1-ca2-cb2-cg2+2cacbcg) = {closed[f]:.9g} (rel tol {vtol[f]:.2g})", lengths=Ls[f], angles=As[f], D=D[f])
    ctx.ok("vol.closed", int((dom & ~bc).sum()))
    _margin(ctx, "vol.closed", np.abs(vol - closed), vtol * closed, dom)

    # --- rotated descriptions
    R = _rotations(rng, case["rot"], n)
    ctx.observe("algebra.rotation", case["rot"])
    B = oc.vectors64(L, A)  # the generated (float64) cell
    W = np.einsum("nij,nkj->nik", B, R)  # rows rotated: w_i = R b_i
    if case["rot"] != "random":
        # an axis-aligned description as a program would write it down: exact zeros, not the 1e-17 that cos(90 degrees)
        # leaves behind (a change of the cell far below every tolerance used here)
        W[np.abs(W) < 1e-13 * np.abs(W).max(axis=(1, 2), keepdims=True)] = 0.0
    D0 = oc.gram_D(A)
    closed0 = oc.closed_volume(L, A)
    for tag, Wd in (("rot64", W), ("rot32", W.astype(np.float32))):
        t2 = md.Trajectory(np.zeros((n, 1, 3), np.float32), t.topology)
        t2.unitcell_vectors = Wd
        gl, ga, gv = t2.unitcell_lengths, t2.unitcell_angles, t2.unitcell_volumes
        if gl is None or ga is None or gv is None or np.shape(gl) != (n, 3) or np.shape(ga) != (n, 3) or np.shape(gv) != (n,):
            ctx.violation(tag + ".readback", f"set-vectors({tag}):cell-missing-or-shape", f"after unitcell_vectors = rotated cell: lengths {np.shape(gl)}, angles {np.shape(ga)}, volumes {np.shape(gv)}")
            continue
        gl, ga, gv = np.asarray(gl, np.float64), np.asarray(ga, np.float64), np.asarray(gv, np.float64)
        sinA = np.clip(oc.sin_deg(A), 1e-6, None)
        if tag == "rot64":
            ltol = 1e-9 * L
            at = 1e-9 / sinA
            vt = (1e-9 / D0) * closed0 + 1e-6 * (L[:, 0] * L[:, 1] + L[:, 1] * L[:, 2] + L[:, 2] * L[:, 0])
            wc = D0 > 1e-7
        else:
            ltol = 8 * EPS32 * L
            at = oc.angle_tol32(A)
            rt = oc.volume_reltol32(A, extra=200.0)
            vt = rt * closed0
            wc = rt <= 0.1
        okf = np.isfinite(gl).all(axis=1) & np.isfinite(ga).all(axis=1)
        b1 = ~okf | (np.abs(gl - L) > ltol).any(axis=1)
        b2 = ~okf | (np.abs(ga - A) > at).any(axis=1)
        b3 = wc & (~np.isfinite(gv) | (np.abs(gv - closed0) > vt))
        if b1.any():
            f = _first(b1)
            ctx.violation(tag + ".readback", f"set-vectors({tag}):lengths", f"lengths read back {gl[f]} after setting rotated vectors of a cell with lengths {L[f]}", angles=A[f], rotation=R[f])
        if (b2 & ~b1).any():
            f = _first(b2 & ~b1)
            perm = [p for p in itertools.permutations(range(3)) if p != (0, 1, 2) and np.all(np.abs(ga[f][list(p)] - A[f]) <= 4 * at[f])]
            key = f"set-vectors({tag}):angle-naming" if (perm and np.min(np.abs(A[f][[0, 1, 2]] - A[f][[1, 2, 0]])) > 2.0) else f"set-vectors({tag}):angles"
            ctx.violation(tag + ".readback", key, f"angles read back {ga[f]} after setting rotated vectors of a cell with angles {A[f]}", lengths=L[f], rotation=R[f])
        if (b3 & ~b1 & ~b2).any():
            f = _first(b3 & ~b1 & ~b2)
            ctx.violation(tag + ".readback", f"set-vectors({tag}):volume", f"volume read back {gv[f]:.9g}, the cell's volume is {closed0[f]:.9g} (tol {vt[f]:.2g})", lengths=L[f], angles=A[f])
        if (~wc).any():
            ctx.skip(tag + ".readback", "volume of a cell too close to degenerate", int((~wc).sum()))
        ctx.ok(tag + ".readback", int((~b1 & ~b2 & ~b3).sum()))
        _margin(ctx, tag + ".lengths", np.abs(gl - L), ltol, okf)
        _margin(ctx, tag + ".angles", np.abs(ga - A), at, okf)
        _margin(ctx, tag + ".volume", np.abs(gv - closed0), vt, wc & okf)


def run_util(case, ctx):
    from mdtraj.utils import box_vectors_to_lengths_and_angles as v2la
    from mdtraj.utils import lengths_and_angles_to_box_vectors as la2v
    rng = common.rng_for("C17util", case["seed"])
    cls = case["cls"]
    n = int(rng.integers(1, 9))
    cells = [gen_cell(rng, cls) for _ in range(n)]
    L = np.array([c[0] for c in cells])
    A = np.array([c[1] for c in cells])
    if rng.random() < 0.3:  # integral lengths, as in the docstring example
        L = np.round(L) + 1.0
    B = oc.vectors64(L, A)
    ctx.observe("util.class", cls)

    def cmp_vectors(got, ref, label, Lrow):
        got = np.asarray(got, np.float64)
        if got.shape != ref.shape:
            ctx.violation("util.to-vectors", f"to_box_vectors:{label}:shape", f"{label}: output shape {got.shape}, expected {ref.shape}")
            return False
        tol = 1e-6 + 1e-12 * np.max(Lrow)
        if not np.all(np.abs(got - ref) <= tol):
            ctx.violation("util.to-vectors", f"to_box_vectors:{label}:components", f"{label}: vectors {got.tolist()} differ from the definition {ref.tolist()}")
            return False
        return True

    # scalars
    mode = ["pyfloat", "npfloat64", "mixed-int"][int(rng.integers(3))]
    ctx.observe("util.scalar-mode", mode)
    for f in range(min(n, 3)):
        if mode == "pyfloat":
            args = [float(x) for x in L[f]] + [float(x) for x in A[f]]
        elif mode == "npfloat64":
            args = [np.float64(x) for x in L[f]] + [np.float64(x) for x in A[f]]
        else:
            args = [int(x) if float(x).is_integer() else float(x) for x in L[f]] + [float(x) for x in A[f]]
        a, b, c = la2v(*args)
        ok = all([cmp_vectors(a, B[f, 0], "scalar:a", L[f]), cmp_vectors(b, B[f, 1], "scalar:b", L[f]), cmp_vectors(c, B[f, 2], "scalar:c", L[f])])
        if ok:
            ctx.ok("util.to-vectors")
    # arrays
    a, b, c = la2v(L[:, 0].copy(), L[:, 1].copy(), L[:, 2].copy(), A[:, 0].copy(), A[:, 1].copy(), A[:, 2].copy())
    ok = all([cmp_vectors(a, B[:, 0], "array:a", L), cmp_vectors(b, B[:, 1], "array:b", L), cmp_vectors(c, B[:, 2], "array:c", L)])
    if ok:
        ctx.ok("util.to-vectors", n)
    # inverse on rotated vectors
    R = _rotations(rng, ["random", "identity", "axisperm"][int(rng.integers(3))], n)
    W = np.einsum("nij,nkj->nik", B, R)
    sinA = np.clip(oc.sin_deg(A), 1e-6, None)

    def cmp_la(out, Lr, Ar, label, shape):
        out = [np.asarray(o, np.float64) for o in out]
        if any(o.shape != shape for o in out):
            ctx.violation("util.from-vectors", f"from_box_vectors:{label}:shape", f"{label}: output shapes {[o.shape for o in out]}, expected {shape}")
            return False
        gl = np.stack(out[:3], axis=-1)
        ga = np.stack(out[3:], axis=-1)
        sA = np.clip(oc.sin_deg(Ar), 1e-6, None)
        if not np.all(np.abs(gl - Lr) <= 1e-12 * Lr):
            ctx.violation("util.from-vectors", f"from_box_vectors:{label}:lengths", f"{label}: lengths {gl.tolist()} for a cell with lengths {Lr.tolist()}")
            return False
        if not np.all(np.abs(ga - Ar) <= 1e-9 / sA):
            spread = np.min(np.abs(np.atleast_2d(Ar)[:, [0, 1, 2]] - np.atleast_2d(Ar)[:, [1, 2, 0]]))
            perm = [p for p in itertools.permutations(range(3)) if p != (0, 1, 2) and np.all(np.abs(np.atleast_2d(ga)[:, list(p)] - np.atleast_2d(Ar)) <= 1e-6)]
            key = "angle-naming" if perm and spread > 2.0 else "angles"
            ctx.violation("util.from-vectors", f"from_box_vectors:{label}:{key}", f"{label}: angles {ga.tolist()} for a cell with angles {Ar.tolist()}")
            return False
        return True

    if cmp_la(v2la(W[:, 0].copy(), W[:, 1].copy(), W[:, 2].copy()), L, A, "array", (n,)):
        ctx.ok("util.from-vectors", n)
    for f in range(min(n, 3)):
        if cmp_la(v2la(W[f, 0].copy(), W[f, 1].copy(), W[f, 2].copy()), L[f], A[f], "1d", ()):
            ctx.ok("util.from-vectors")
    del sinA


# ------------------------------------------------------------------------------------------------ part B
FORMATS = ["h5", "xtc", "trr", "dcd", "nc", "pdb", "gro", "lammpstrj", "mdcrd", "dtr"]
SINGLE_FRAME_FORMATS = ["rst7", "ncrst"]
NO_TOP = {"h5", "pdb", "gro"}
SETTERS = ["L=arr", "L=None", "A=arr", "A=None", "V=arr", "V=None", "V=zeros"]
MAX_FRAMES = 24


class Shadow:
    """model of one trajectory's cell: lengths / angles arrays (float64) or None, plus tolerance bookkeeping"""

    def __init__(self, nf, na, L=None, A=None, nconv=0, qL=0.0, qA=0.0, qAc=0.0):
        self.nf, self.na = nf, na
        self.L = None if L is None else np.array(L, np.float64).reshape(nf, 3)
        self.A = None if A is None else np.array(A, np.float64).reshape(nf, 3)
        self.nconv, self.qL, self.qA, self.qAc = nconv, qL, qA, qAc

    @property
    def complete(self):
        return self.L is not None and self.A is not None

    @property
    def state(self):
        if self.complete:
            return "complete"
        if self.L is not None:
            return "lengths-only"
        if self.A is not None:
            return "angles-only"
        return "none"

    def derive(self, L, A, nf=None, na=None):
        return Shadow(self.nf if nf is None else nf, self.na if na is None else na, L, A, self.nconv, self.qL, self.qA, self.qAc)

    def follow(self, L, A):
        """after a judged comparison the model continues from the values the real object holds"""
        self.L = None if L is None else np.array(L, np.float64)
        self.A = None if A is None else np.array(A, np.float64)
        self.nconv, self.qL, self.qA, self.qAc = 0, 0.0, 0.0, 0.0
        return self

    def assign(self, other):
        self.nf, self.na, self.L, self.A = other.nf, other.na, other.L, other.A
        self.nconv, self.qL, self.qA, self.qAc = other.nconv, other.qL, other.qA, other.qAc

    def tolerances(self):
        lt = (1 + self.nconv) * 8 * EPS32 * self.L + self.qL
        s = np.clip(oc.sin_deg(self.A), 1e-6, None)
        at = oc.angle_tol32(self.A, 1 + self.nconv) + self.qA + self.qAc / s
        return lt, at


class Refused(Exception):
    pass


REFUSALS = [
    (ValueError, "Mixing trajectories with and without unitcell", "join refuses to mix trajectories with and without a complete cell"),
    (AttributeError, "unitcell length data exists, but no angles", "save refuses a half-set cell (_check_valid_unitcell)"),
    (AttributeError, "unitcell angles data exists, but no lengths", "save refuses a half-set cell (_check_valid_unitcell)"),
    (ValueError, "were given, but no cell_", "hdf5 writer refuses a half-set cell"),
    (TypeError, "cell_lengths must be numpy array", "lammpstrj writer requires cell lengths"),
    (ValueError, "cell_lengths, cell_angles and times must be given", "dtr writer requires a cell"),
    (ValueError, "Only rectilinear boxes can be saved to mdcrd", "mdcrd stores rectilinear boxes only"),
    (ValueError, "times must be in ascending order", "dtr writer requires ascending times (frames were reordered)"),
]


def _refusal(e):
    for cls, frag, label in REFUSALS:
        if isinstance(e, cls) and frag in str(e):
            return label
    return None


class History:
    def __init__(self, case, ctx, tmp):
        import mdtraj as md
        self.md = md
        self.case, self.ctx, self.tmp = case, ctx, tmp
        self.rng = common.rng_for("C17hist", case["seed"])
        self.trace = []
        self.pool = []
        self.nfile = 0
        self.cellkind = case.get("cells", "any")

    # ---- helpers
    def cells(self, nf, perframe=None):
        rng = self.rng
        perframe = (rng.random() < 0.7) if perframe is None else perframe
        kind = "ortho" if self.cellkind == "ortho" else None
        if kind is None and rng.random() < 0.15:
            kind = "distinct"
        cs = [gen_cell(rng, kind) if kind == "distinct" else common.random_cell(rng, kind) for _ in range(nf if perframe else 1)]
        if not perframe:
            cs = cs * nf
        return np.array([c[0] for c in cs]), np.array([c[1] for c in cs])

    def fresh(self, nf=None, na=None, state=None):
        rng = self.rng
        nf = int(rng.integers(1, 7)) if nf is None else nf
        na = int(rng.integers(2, 7)) if na is None else na
        # |xyz| stays below 10 nm (mdcrd's %8.3f Angstrom fields touch at -100 A); multiples of 1/256 nm, exact in float32
        t = self.md.Trajectory(0.25 * common.self_identifying_xyz(nf, na, f0=int(rng.integers(0, 3))), common.simple_topology(na))
        m = Shadow(nf, na)
        state = state or ["complete", "complete", "none", "lengths-only", "angles-only"][int(rng.integers(5))]
        if state in ("complete", "lengths-only", "angles-only"):
            L, A = self.cells(nf)
            if state != "angles-only":
                t.unitcell_lengths = L
                m.L = L.astype(np.float32).astype(np.float64)
            if state != "lengths-only":
                t.unitcell_angles = A
                m.A = A.astype(np.float32).astype(np.float64)
        self.trace.append(f"fresh(nf={nf},na={na},{state})")
        return t, m

    def add(self, t, m):
        self.pool.append((t, m))
        if len(self.pool) > 5:
            self.pool.pop(int(self.rng.integers(0, len(self.pool) - 1)))

    def pick(self):
        return self.pool[int(self.rng.integers(len(self.pool)))]

    def variant(self, t, m, nf=None):
        """a trajectory with the same topology as t (a slice of it) whose cell state is redrawn"""
        rng = self.rng
        nf = int(rng.integers(1, 5)) if nf is None else nf
        idx = rng.integers(0, t.n_frames, nf)
        o = t.slice(idx.tolist())
        mo = m.derive(None if m.L is None else m.L[idx], None if m.A is None else m.A[idx], nf=nf)
        r = rng.random()
        if r < 0.45:  # same state as t
            pass
        elif r < 0.75:
            L, A = self.cells(nf)
            o.unitcell_lengths, o.unitcell_angles = L, A
            mo = Shadow(nf, m.na, L.astype(np.float32), A.astype(np.float32))
        elif r < 0.9:
            o.unitcell_vectors = None
            mo = Shadow(nf, m.na)
        else:
            L, A = self.cells(nf)
            o.unitcell_vectors = None
            if rng.random() < 0.5:
                o.unitcell_lengths = L
                mo = Shadow(nf, m.na, L.astype(np.float32), None)
            else:
                o.unitcell_angles = A
                mo = Shadow(nf, m.na, None, A.astype(np.float32))
        return o, mo

    # ---- judging
    def judge(self, op, r, exp, in_state, base=None):
        """r: real result, exp: Shadow expected (its L/A None when the input was not complete)"""
        ctx = self.ctx
        hist = self.trace[-12:]
        if r.n_frames != exp.nf or r.n_atoms != exp.na:
            ctx.violation("history.presence", f"{op}:result-dimensions", f"{op}: result has {r.n_frames} frames x {r.n_atoms} atoms, model says {exp.nf} x {exp.na}", history=hist)
            return None
        gl, ga = r.unitcell_lengths, r.unitcell_angles
        has_l, has_a = gl is not None, ga is not None
        shapes_ok = (not has_l or np.shape(gl) == (exp.nf, 3)) and (not has_a or np.shape(ga) == (exp.nf, 3))
        if not shapes_ok:
            ctx.violation("history.presence", f"{op}:cell-shape", f"{op}: cell arrays have shapes {np.shape(gl)}, {np.shape(ga)} for {exp.nf} frames", history=hist)
            return None
        if exp.complete:
            if not (has_l and has_a):
                lost = "angles" if has_l else ("lengths" if has_a else "cell")
                ctx.violation("history.presence", f"{base or op}:complete-input:{lost}-lost", f"{op}: input had a complete cell, result has lengths={has_l} angles={has_a}", history=hist)
                return Shadow(exp.nf, exp.na, None if not has_l else gl, None if not has_a else ga)
            ctx.ok("history.presence")
            gl64, ga64 = np.asarray(gl, np.float64), np.asarray(ga, np.float64)
            lt, at = exp.tolerances()
            rows = getattr(exp, "rows", None)
            sel = np.ones(exp.nf, bool) if rows is None else rows
            bad = sel & ((np.abs(gl64 - exp.L) > lt).any(axis=1) | (np.abs(ga64 - exp.A) > at).any(axis=1) | ~np.isfinite(gl64).all(axis=1) | ~np.isfinite(ga64).all(axis=1))
            if bad.any():
                f = _first(bad)
                ctx.violation("history.values", f"{op}:cell-values", f"{op}: frame {f} has lengths {gl64[f]} angles {ga64[f]}, model says {exp.L[f]} {exp.A[f]}",
                              tol_lengths=lt[f], tol_angles=at[f], history=hist)
            ctx.ok("history.values", int((sel & ~bad).sum()))
            _margin(ctx, "history.lengths:" + op.split("(")[0], np.abs(gl64 - exp.L), lt, sel)
            _margin(ctx, "history.angles:" + op.split("(")[0], np.abs(ga64 - exp.A), at, sel)
            if (~sel).any():
                ctx.skip("history.values", "pdb keeps one CRYST1 record: per-frame variation cannot be stored", int((~sel).sum()))
            out = Shadow(exp.nf, exp.na).follow(gl64, ga64)  # continue from what the object holds
            self.getters(op, r, out)
            return out
        # input was not complete
        if has_l and has_a:
            ctx.violation("history.presence", f"{base or op}:{in_state}-became-complete", f"{op}: input cell state '{in_state}', result has a complete cell {np.asarray(gl)[0]} {np.asarray(ga)[0]}", history=hist)
        else:
            ctx.ok("history.presence")
        out = Shadow(exp.nf, exp.na, None if not has_l else gl, None if not has_a else ga)
        self.getters(op, r, out)
        return out

    def getters(self, op, r, m):
        ctx = self.ctx
        hist = self.trace[-12:]
        try:
            V = r.unitcell_vectors
        except Exception as e:
            ctx.violation("history.getters", f"unitcell_vectors:{m.state}:raises-{type(e).__name__}", f"unitcell_vectors raised {type(e).__name__}: {e} (cell state {m.state})", history=hist)
            return
        try:
            vol = r.unitcell_volumes
        except Exception as e:
            ctx.violation("history.getters", f"unitcell_volumes:{m.state}:raises-{type(e).__name__}", f"unitcell_volumes raised {type(e).__name__}: {e} (cell state {m.state}; a no-cell trajectory returns None)", history=hist)
            return
        if not m.complete:
            if V is not None or vol is not None:
                ctx.violation("history.getters", f"getters:{m.state}:vectors-or-volumes-not-None", f"cell state {m.state} but unitcell_vectors/unitcell_volumes are not None", history=hist)
            else:
                ctx.ok("history.getters")
            return
        if V is None or vol is None or np.shape(V) != (m.nf, 3, 3) or np.shape(vol) != (m.nf,):
            ctx.violation("history.getters", "getters:complete:vectors-or-volumes-missing", f"complete cell but unitcell_vectors shape {np.shape(V)}, volumes {np.shape(vol)}", history=hist)
            return
        gl, ga = np.asarray(r.unitcell_lengths, np.float64), np.asarray(r.unitcell_angles, np.float64)
        if not (np.isfinite(gl).all() and np.isfinite(ga).all()):
            return
        closed = oc.closed_volume(gl, ga)
        rt = oc.volume_reltol32(ga)
        bad = np.abs(np.asarray(vol, np.float64) - closed) > rt * closed + 1e-6 * (gl[:, 0] * gl[:, 1] + gl[:, 1] * gl[:, 2] + gl[:, 2] * gl[:, 0])
        if bad.any():
            f = _first(bad)
            ctx.violation("history.getters", "getters:volume-not-closed-form", f"unitcell_volumes {vol[f]} but lengths {gl[f]} angles {ga[f]} give {closed[f]}", history=hist)
        else:
            ctx.ok("history.getters")

    def attempt(self, op, fn, in_states, must_work):
        """run fn(); classify exceptions. returns result or raises Refused"""
        try:
            return fn()
        except Exception as e:
            st = "+".join(sorted(set(in_states)))
            fam = op.split("[")[0].split("(")[0]
            label = _refusal(e)
            if label is not None:
                self.ctx.skip("history.refused", f"{fam}: {label}")
                raise Refused()
            if must_work:
                self.ctx.violation("history.presence", f"{op}:{st}:raises-{type(e).__name__}", f"{op} on cell state {st} raised {type(e).__name__}: {str(e)[:200]}", history=self.trace[-12:])
            else:
                self.ctx.skip("history.refused", f"{fam}: not required to work for cell state {st} ({type(e).__name__})")
            raise Refused()

    # ---- ops
    def op_setter(self, t, m, which=None):
        rng = self.rng
        which = which or SETTERS[int(rng.integers(len(SETTERS)))]
        nf = m.nf
        L, A = self.cells(nf)
        self.ctx.observe("history.op", "set:" + which)
        if which == "L=arr":
            style = int(rng.integers(4))
            val = [L, L.astype(np.float32), L.tolist(), L[0] if nf == 1 else L][style]
            t.unitcell_lengths = val
            m.L = L.astype(np.float32).astype(np.float64)
        elif which == "L=None":
            t.unitcell_lengths = None
            m.L = None
        elif which == "A=arr":
            style = int(rng.integers(4))
            val = [A, A.astype(np.float32), A.tolist(), A[0] if nf == 1 else A][style]
            t.unitcell_angles = val
            m.A = A.astype(np.float32).astype(np.float64)
        elif which == "A=None":
            t.unitcell_angles = None
            m.A = None
        elif which == "V=arr":
            B = oc.vectors64(L, A)
            kind = ["random", "identity", "axisperm"][int(rng.integers(3))]
            W = np.einsum("nij,nkj->nik", B, _rotations(rng, kind, nf))
            if rng.random() < 0.5:
                W = W.astype(np.float32)
            t.unitcell_vectors = W
            m.L, m.A = L.copy(), A.copy()
        elif which == "V=None":
            t.unitcell_vectors = None
            m.L = m.A = None
        elif which == "V=zeros":
            t.unitcell_vectors = np.zeros((nf, 3, 3), np.float32 if rng.random() < 0.5 else np.float64)
            m.L = m.A = None
        if which == "V=arr":
            m.nconv, m.qL, m.qA, m.qAc = 1, 0.0, 0.0, 0.0
        self.trace.append(which)
        # the object itself after the assignment
        exp = m.derive(m.L, m.A) if m.complete else Shadow(m.nf, m.na)
        want_l, want_a = m.L is not None, m.A is not None
        has_l, has_a = t.unitcell_lengths is not None, t.unitcell_angles is not None
        if (want_l, want_a) != (has_l, has_a):
            self.ctx.violation("history.presence", f"set:{which}:presence", f"after {which}: lengths present={has_l} angles present={has_a}, model says {want_l} {want_a}", history=self.trace[-12:])
            return
        if m.complete:
            out = self.judge("set:" + which, t, exp, m.state)
            if out is not None:
                m.assign(out)
        else:
            self.ctx.ok("history.presence")
            self.getters("set:" + which, t, m)

    def op_slice(self, t, m):
        rng = self.rng
        nf = m.nf
        kind = ["int", "slice", "list", "mask", "array", "negstep"][int(rng.integers(6))]
        if kind == "int":
            key = int(rng.integers(-nf, nf))
        elif kind == "slice":
            a = int(rng.integers(0, nf))
            key = slice(a, int(rng.integers(a + 1, nf + 1)), int(rng.integers(1, 3)))
        elif kind == "negstep":
            key = slice(None, None, -int(rng.integers(1, 3)))
        elif kind == "list":
            key = rng.integers(-nf, nf, int(rng.integers(1, 6))).tolist()
        elif kind == "mask":
            key = rng.random(nf) < 0.6
            key[int(rng.integers(nf))] = True
        else:
            key = rng.integers(0, nf, int(rng.integers(1, 6)))
        idx = np.atleast_1d(np.arange(nf)[key])
        how = ["getitem", "slice", "slice(copy=False)"][int(rng.integers(3))]
        op = how if how != "getitem" else "getitem"
        self.ctx.observe("history.op", f"{op}[{kind}]")
        self.trace.append(f"{op}[{kind}:{key if not isinstance(key, np.ndarray) else key.tolist()}]")
        fn = (lambda: t[key]) if how == "getitem" else ((lambda: t.slice(key)) if how == "slice" else (lambda: t.slice(key, copy=False)))
        r = self.attempt(f"{op}[{kind}]", fn, [m.state], True)
        exp = m.derive(m.L[idx], m.A[idx], nf=len(idx)) if m.complete else Shadow(len(idx), m.na)
        out = self.judge(op, r, exp, m.state)
        if out is not None:
            self.add(r, out)

    def op_join(self, t, m):
        rng = self.rng
        how = ["join", "add", "md.join", "join(list)", "join(discard_overlapping_frames)"][int(rng.integers(5))]
        if how == "join(discard_overlapping_frames)" and m.nf < 2:
            how = "join"
        nother = 2 if how in ("md.join", "join(list)") and rng.random() < 0.7 else 1
        others = [self.variant(t, m) for _ in range(nother)]
        if rng.random() < 0.6:  # make every state agree with t (the common, must-work situation)
            others = [(o, mo) for o, mo in others if mo.complete == m.complete] or [self.variant(t, m)]
        trajs = [t] + [o for o, _ in others]
        models = [m] + [mo for _, mo in others]
        if sum(x.nf for x in models) > MAX_FRAMES:
            return
        states = [x.state for x in models]
        self.ctx.observe("history.op", how)
        self.ctx.observe("history.join-states", "+".join(sorted(set(states))))
        self.trace.append(f"{how}({'+'.join(states)})")
        comp = [x.complete for x in models]
        drop = False
        if how == "join":
            fn = lambda: t.join(trajs[1])
        elif how == "add":
            fn = lambda: t + trajs[1]
        elif how == "md.join":
            fn = lambda: self.md.join(trajs)
        elif how == "join(list)":
            fn = lambda: t.join(trajs[1:])
        else:
            # the second trajectory starts with a copy of t's last frame: that frame of t must be dropped, cells follow
            o, mo = others[0]
            xyz = o.xyz.copy()
            xyz[0] = t.xyz[-1]
            o.xyz = xyz
            drop = m.nf > 0
            fn = lambda: t.join(o, discard_overlapping_frames=True)
        mixed = len(set(comp)) > 1
        r = self.attempt(how, fn, states, must_work=not mixed)
        if mixed:
            # mdtraj documents this as an error; it did not raise: whatever came out must not claim a complete cell
            nf = r.n_frames
            out = self.judge(how + "(mixed)", r, Shadow(nf, m.na), "mixed")
            return
        parts = models
        if all(comp):
            Ls = [x.L for x in parts]
            As = [x.A for x in parts]
            if drop:
                Ls[0], As[0] = Ls[0][:-1], As[0][:-1]
            exp = Shadow(sum(len(x) for x in Ls), m.na, np.concatenate(Ls), np.concatenate(As), max(x.nconv for x in parts),
                         max(x.qL for x in parts), max(x.qA for x in parts), max(x.qAc for x in parts))
        else:
            exp = Shadow(sum(x.nf for x in parts) - (1 if drop else 0), m.na)
        out = self.judge(how, r, exp, "+".join(sorted(set(states))))
        if out is not None:
            self.add(r, out)

    def op_stack(self, t, m):
        rng = self.rng
        o, mo = self.variant(t, m, nf=m.nf)
        if rng.random() < 0.5:
            keep = sorted(rng.choice(m.na, int(rng.integers(1, m.na + 1)), replace=False).tolist())
            o = o.atom_slice(keep, inplace=True)
            mo.na = len(keep)
        if m.na + mo.na > 16:
            return
        self.ctx.observe("history.op", "stack")
        self.ctx.observe("history.stack-states", f"{m.state}|{mo.state}")
        self.trace.append(f"stack({m.state}|{mo.state})")
        r = self.attempt("stack", lambda: t.stack(o), [m.state, mo.state], True)
        # documented: the result carries the cell of the left operand
        exp = m.derive(m.L, m.A, na=m.na + mo.na) if m.complete else Shadow(m.nf, m.na + mo.na)
        out = self.judge("stack", r, exp, m.state)
        if out is not None:
            self.add(r, out)

    def op_atom_slice(self, t, m):
        rng = self.rng
        keep = sorted(rng.choice(m.na, int(rng.integers(1, m.na + 1)), replace=False).tolist())
        inplace = bool(rng.random() < 0.35)
        op = "atom_slice(inplace)" if inplace else "atom_slice"
        self.ctx.observe("history.op", op)
        self.trace.append(f"{op}({keep})")
        r = self.attempt(op, lambda: t.atom_slice(keep, inplace=inplace), [m.state], True)
        if inplace:
            if r is not t:
                self.ctx.violation("history.presence", "atom_slice(inplace):returns-other-object", "atom_slice(inplace=True) did not return self")
            m.na = len(keep)
            if m.complete:
                out = self.judge(op, t, m, m.state)
                if out is not None:
                    m.assign(out)
            else:
                # in place: the stored arrays are untouched, whatever half-set state there was stays
                got = (t.unitcell_lengths is not None, t.unitcell_angles is not None)
                self.ctx.check(got == (m.L is not None, m.A is not None), "history.presence", f"{op}:{m.state}:presence-changed", f"{op}: cell presence changed to {got}")
            return
        exp = m.derive(m.L, m.A, na=len(keep)) if m.complete else Shadow(m.nf, len(keep))
        out = self.judge(op, r, exp, m.state)
        if out is not None:
            self.add(r, out)

    def quantum(self, fmt, t, m):
        """(abs nm, abs degrees, degrees to be divided by sin) added by one save+load through fmt"""
        if not m.complete:
            return 0.0, 0.0, 0.0
        Lmin, Lmax = float(m.L.min()), float(m.L.max())
        M = float(np.abs(t.xyz).max())
        if fmt == "pdb":  # CRYST1 %9.3f Angstrom, %7.2f degrees
            return 6e-5, 6e-3, 0.0
        if fmt == "gro":  # box components %10.5f nm: |dv| <= 5e-6 sqrt(3) per vector, angle <= |du|/|u| + |dv|/|v|
            h = 5e-6 * np.sqrt(3.0) * 1.5
            return 2 * h, DEG * 2 * h / Lmin, 0.0
        if fmt == "mdcrd":  # %8.3f Angstrom
            return 6e-5, 0.0, 0.0
        if fmt == "lammpstrj":
            # bounds lo = min(xyz), hi = lo + L (+ tilt extents) are formed in float32 next to |xyz| (Angstrom) and
            # subtracted on reading; np.allclose(angles, 90) (rtol 1e-5 -> 9e-4 degrees) selects the orthogonal form
            q = 16 * EPS32 * (M + 3 * Lmax)
            return q, 1e-3, DEG * 2 * q / Lmin
        if fmt == "rst7":  # %12.7f
            return 1e-8 + 4 * EPS32 * Lmax, 1e-6, 0.0
        return 0.0, 0.0, 0.0

    def op_saveload(self, t, m, fmt=None):
        rng = self.rng
        md = self.md
        if fmt is None:
            fmts = FORMATS + (SINGLE_FRAME_FORMATS if m.nf == 1 else [])
            fmt = fmts[int(rng.integers(len(fmts)))]
        if fmt == "mdcrd" and m.na == 1:
            self.ctx.skip("history.refused", "mdcrd with one atom: a coordinate line is byte-identical to a box line (headerless format)")
            return
        self.nfile += 1
        fn = os.path.join(self.tmp, f"f{self.nfile}.{fmt}")
        opt = "plain"
        kw = {}
        r_ = rng.random()
        if r_ < 0.15 and m.nf >= 2:
            opt, kw = "stride", dict(stride=2)
        elif r_ < 0.3 and m.na >= 2:
            keep = sorted(rng.choice(m.na, int(rng.integers(1, m.na)), replace=False).tolist())
            opt, kw = "atom_indices", dict(atom_indices=keep)
        op = f"save-load:{fmt}" + ("" if opt == "plain" else f"({opt})")
        self.ctx.observe("history.op", "save-load")
        self.ctx.observe("history.format", f"{fmt}:{m.state}")
        self.trace.append(f"{op}[{m.state}]")
        skewed = m.complete and not np.all(m.A == 90.0)
        must = not (fmt == "mdcrd" and skewed) and not (fmt in ("lammpstrj", "dtr") and not m.complete)
        self.attempt(op + ":save", lambda: t.save(fn), [m.state], must_work=must)
        if m.state not in ("complete", "none"):
            self.ctx.observe("history.half-set-saved", fmt)
        top = None if fmt in NO_TOP else t.topology

        def load():
            return md.load(fn, **kw) if top is None else md.load(fn, top=top, **kw)
        r = self.attempt(op + ":load", load, [m.state], must_work=True)
        nf = m.nf if opt != "stride" else len(range(0, m.nf, 2))
        na = m.na if opt != "atom_indices" else len(kw["atom_indices"])
        if m.complete:
            sl = slice(None, None, 2) if opt == "stride" else slice(None)
            qL, qA, qAc = self.quantum(fmt, t, m)
            exp = Shadow(nf, na, m.L[sl], m.A[sl], m.nconv + 1, m.qL + qL, m.qA + qA, m.qAc + qAc)
            if fmt == "pdb":
                varies = bool(np.any(exp.L != exp.L[0]) or np.any(exp.A != exp.A[0]))
                if varies:
                    rows = np.zeros(nf, bool)
                    rows[0] = True
                    exp.rows = rows
        else:
            exp = Shadow(nf, na)
        out = self.judge(op, r, exp, m.state, base=f"save-load:{fmt}")
        if out is not None:
            self.add(r, out)

    def step(self):
        rng = self.rng
        t, m = self.pick()
        k = rng.random()
        try:
            if k < 0.22:
                self.op_setter(t, m)
            elif k < 0.40:
                self.op_slice(t, m)
            elif k < 0.56:
                self.op_join(t, m)
            elif k < 0.66:
                self.op_stack(t, m)
            elif k < 0.76:
                self.op_atom_slice(t, m)
            else:
                self.op_saveload(t, m)
        except Refused:
            pass


def run_history(case, ctx):
    tmp = tempfile.mkdtemp(prefix="c17-", dir="/var/tmp")
    try:
        h = History(case, ctx, tmp)
        for _ in range(2):
            h.add(*h.fresh())
        for _ in range(case["n_ops"]):
            h.step()
            if len(h.pool) < 2:
                h.add(*h.fresh())
    finally:
        shutil.rmtree(tmp, ignore_errors=True)


def run_setters(case, ctx):
    """every setter sequence of the given length on a fresh no-cell trajectory, then every op once"""
    tmp = tempfile.mkdtemp(prefix="c17-", dir="/var/tmp")
    try:
        h = History(case, ctx, tmp)
        nf = 1 + (case["i"] % 3)
        ctx.observe("setters.sequence-length", len(case["seq"]))

        def build():
            t, m = h.fresh(nf=nf, na=4, state="none")
            for s in case["seq"]:
                h.op_setter(t, m, SETTERS[s])
            return t, m
        t, m = build()
        ctx.observe("setters.final-state", m.state)
        ops = [lambda t, m: h.op_slice(t, m), lambda t, m: h.op_join(t, m), lambda t, m: h.op_stack(t, m), lambda t, m: h.op_atom_slice(t, m)]
        ops += [(lambda t, m, f=f: h.op_saveload(t, m, f)) for f in FORMATS + (SINGLE_FRAME_FORMATS if nf == 1 else [])]
        for op in ops:
            h.pool = []
            try:
                op(t, m)
            except Refused:
                pass
            if m.na != 4 or t.n_atoms != 4:  # in-place atom_slice changed it
                t, m = build()
    finally:
        shutil.rmtree(tmp, ignore_errors=True)


def run_case(case, ctx):
    warnings.simplefilter("ignore")
    kind = case["kind"]
    ctx.observe("kind", kind)
    with np.errstate(all="ignore"):
        if kind == "algebra":
            run_algebra(case, ctx)
        elif kind == "util":
            run_util(case, ctx)
        elif kind == "history":
            run_history(case, ctx)
        else:
            run_setters(case, ctx)
