"""C06 -- md.rmsd is the optimal-superposition RMSD and Trajectory.superpose attains it.

Technique: runtime monitoring.  The real md.rmsd / Trajectory.superpose / md.rmsf / md.lprmsd /
Trajectory.center_coordinates run on generated conformations; every execution is observed by

  oracle         |rmsd^2 - msd*| <= bound       msd* = float64 SVD Kabsch over proper rotations of exactly the float32
                 inputs, gathered through exactly the index lists handed to mdtraj (vlib.oracle.c06_bound, where the
                 bound eps32 (c0 + c1 N) kappa (G_A+G_B)/N + CD (eps32 D)^2 is derived and its constants are frozen
                 from a 24 000-pair observation of the unchanged tree with an 8x margin)
  parallel-bits  parallel=True and parallel=False give bit-identical arrays (rmsd, superpose, rmsf)
  self           rmsd(A, copy of A)^2 <= bound and rmsd(t, t, frame=f)[f]^2 <= bound
  symmetry       |rmsd(A,B)^2 - rmsd(B,A)^2| <= 2 bound    (roles, frames and index lists swapped)
  rigid-motion   rmsd unchanged when target or reference is replaced by R x + t (float64, cast to float32):
                 |r'^2 - r^2| <= bound + bound' + 2 sqrt(msd*) e + e^2,  e = sqrt(3) eps32 max|moved coords| (the cast)
  centred        center_coordinates(): every coordinate equals x - centroid (float64) within 2 eps32 (D + R_s) and the stored
                 trace equals sum |c|^2 within 8 eps32 G  (what makes a float32-accumulated centroid visible at large N, D)
  precentered    after center_coordinates(): precentered=True == precentered=False == oracle (and, with the
                 second-order (eps32 D)^2 term, the oracle of the uncentred data); precentered=True with atom_indices
                 (documented as ignored) == plain
  superpose      .distances   every interatomic distance (all pairs up to 64 atoms, else 3000 sampled + selected x
                              unselected pairs) changes by <= 40 eps32 (R_s + M_f)   (derived in c06_bound)
                 .rigid       float64 proper-rotation fit of (all atoms before) -> (all atoms after) leaves a residual
                              <= the same per-atom error: atoms outside the selection ride on the same proper motion
                 .attains     no-fit msd of (superposed[atom_indices], reference[frame, ref_atom_indices]) equals msd*
                              two-sided within bound + 2 sqrt(msd*) e + e^2, e = 20 eps32 (R_s + M_f): a mirror image
                              may not reach zero, a wrong selection/frame/remainder may not stay above the minimum
  mirror         explicit count of mirror-image pairs whose rmsd stayed at the proper-rotation minimum (> 0)
  rmsf           (atom_indices=None only, see below) squared fluctuation about the mean superposed structure equals
                 the float64 one within 2 f e + e^2 for well-conditioned rotations
  lprmsd         singleton permute group == rmsd (bound);  a planted within-group permutation of a well separated,
                 slightly perturbed copy is undone: lprmsd^2 == msd* of the unpermuted pair and <= rmsd^2 + bound
  thread-sweep   OpenMP team size 1,2,3,5,8,16 (+ n_frames+3) set in-process through libgomp: rmsd / superpose / rmsf /
                 center_coordinates traces bit-identical across team sizes and equal to parallel=False
  frame-alone    rmsd(traj)[i] == rmsd(traj[i])[0] bit-for-bit
  junk           inputs are views into the middle of guard buffers filled with NaN / 1e30 / 0; the results of rmsd
                 and superpose are bit-identical whatever surrounds the arrays (SIMD tails for N mod 4 != 0)

The bound (derivation, observation and frozen constants in vlib/oracle/c06_bound.py), with eps32 = 2^-24, N paired atoms,
G_A, G_B the float64 traces of the centred structures, lam_1 >= .. >= lam_4 the float64 spectrum of the 4x4 key matrix,
g_k = lam_1 - lam_k, S = max|lam|, D the largest coordinate magnitude:
    bound = 8 [ eps32 (4 + N/512) (G_A+G_B)/N + (2/N) x_up ] + 32 (eps32 D)^2
    x_up  = min( dP/(g2 g3 g4), sqrt(dP/(g3 g4)), cbrt(dP/g4), dP^(1/4) ),   dP = 16 eps32 S^4
i.e. DESIGN's eps32 (c0 + c1 N) kappa (..) with c0 = 32, c1 = 1/64 and kappa = 1 + (2/N) x_up / (eps32 (4 + N/512)(G_A+G_B)/N).
Observed on the unchanged tree (24 000 pairs): <= 3.5 / 4.1 / 4.4 / 6.1 units of eps32 (G_A+G_B)/N at N <= 67 / 100 / 1000 /
4000 for separated spectra, and a quartic-coefficient noise constant <= 15.3 (frozen 16) uniformly over g2/S in 1e-7..1;
the factor 8 is the margin on both.  The evidence records the histogram of |rmsd^2 - msd*| / bound per monitor.

Three-valued: a pair with fewer than 3 atoms or with a collinear structure (sigma2/sigma1 < 1e-3 of either centred
structure, float64) is outside the property's domain -> skip.

Findings on the unchanged tree (genuine, keys name the mechanism):
  C06/rotation-extraction:optimal-rotation-near-half-turn
      theobald_rmsd.cpp builds the rotation from column 0 of adj(K - lam I) only; that column is w * (...) with
      w = cos(theta/2) and vanishes when the optimal rotation is a half turn (C2-related structures).  superpose then
      applies the identity or a rotation made of rounding noise: the no-fit RMSD is O(R_g) instead of the minimum.
      Classified when the float64 optimal rotation has w < 0.05.
  C06/rotation-extraction:small-structure-below-absolute-qsqr-threshold
      the same routine returns the identity ("UNCONVERGED ROTATION MATRIX") when the squared norm of that column is
      < 1e-11 in absolute nm^12 units; for structures of a few atoms within ~0.1 nm (a water molecule) this is always
      the case.  Classified when the float64 prediction (g2 g3 g4 w)^2 is < 1e-10.
  C06/rotation-extraction:float32-overflow-large-structure
      that squared norm is held in a float32 and overflows to inf once (g2 g3 g4 w)^2 > 3.4e38, i.e. for alignment sets
      with G = N R_g^2 of a few 1e6 nm^2 (4000 atoms spread over 26 nm, 150 000 atoms over 14 nm); the normalised
      quaternion is then 0, the "rotation" the zero matrix, and superpose puts every atom on one point.
      Classified when the float64 prediction exceeds 1e38 (also for the distance / rigidity monitors it trips).
All three are reported through whichever entry point (superpose, lprmsd) observed them; md.rmsd itself is not affected
(it never builds the rotation).

Wider input classes (block="wide" cases; every judgement reuses the monitors above): index lists handed over as python lists / tuples /
int32 / uint16 / intp arrays / non-contiguous strided views (separately for atom_indices and ref_atom_indices), all atoms named explicitly
(mdtraj then gathers a copy instead of working on the caller's memory), the frame argument omitted, references of 40 / 130 frames with the
frame near the end, targets of 97..300 frames (beyond every OpenMP team size and the 100-frame default chunk; also under the thread sweep),
md.rmsf(precentered=True) with traces on both sides / on one side, md.rmsf(t, t, f) (target object as reference), md.rmsf(t, None)
(documented: fluctuation about the average of the frames; frames centred in place when atom_indices is None, taken as given with an index
array), md.rmsd(precentered=True) where only one side carries traces (the shortcut must not be taken) or one centred object plays both
roles, md.lprmsd(parallel=False) bit-identical to parallel=True.
Left out: negative frame indices and duplicated atom indices (undocumented), boolean masks as atom_indices (refused).

Not a C06 violation, recorded for the reader: md.rmsf(target, reference, atom_indices=<array>) rotates an *uncentred*
copy of the selected atoms (the centred copy is used only to find the rotation), so inter-frame translation is not
removed (4 nm instead of 0.07 nm on a drifting 10-atom test).  rmsf is not part of the statement; the rmsf monitor
is therefore restricted to atom_indices=None, where its meaning is unambiguous.
"""
from __future__ import annotations

import ctypes
import itertools

import numpy as np

from vlib.gen import common
from vlib.oracle import c06_bound as ob
from vlib.oracle import geom

PROPERTY = "C06"
LEVEL = "exploration"
NATIVE = ["mdtraj._rmsd", "mdtraj._lprmsd"]
RULE = ("cases = (entry-point kind, N selected atoms cycling through 3..67,100,1000,4000 so that every kind meets every "
        "N mod 4, shape, relation target~reference, rotation class incl. exact/near half turns, scale, offsets to 300 nm, "
        "selection mode, 1-50 frames) from a seeded stream; thorough adds N to 131, 255-258, 997-1004, 3998-4001 and an "
        "exhaustive grid N=3..20 x relation x rotation class x selection mode for rmsd and superpose; a case is "
        "non-trivial when a monitor compared real output with the float64 Kabsch oracle or a bit-level relation; "
        "distinct = distinct descriptors; block=wide cases pass the index lists as list / tuple / int32 / uint16 / intp / strided views, name all "
        "atoms explicitly, omit the frame argument, use references of 40 / 130 frames with the frame near the end, targets of 97..300 frames, "
        "md.rmsf with precentered=True / reference=None / the target object as reference, precentered=True with traces on one side only or "
        "one object in both roles, md.lprmsd(parallel=False)")
WORKERS = {"quick": 8, "thorough": 16}
BUDGET = {"quick": 60, "thorough": 900}
ENV = {"OMP_WAIT_POLICY": "passive", "OMP_NUM_THREADS": "4"}
ASSUMPTIONS = [
    "oracle = float64 SVD Kabsch restricted to proper rotations, applied to the float32 inputs gathered with the same index lists",
    "tolerances are the analysed bound of vlib/oracle/c06_bound.py (constants frozen with 8x margin over a 24 000-pair observation)",
    "collinear or <3-atom selections are outside the stated domain and are skipped",
    "team sizes are set in-process with omp_set_num_threads of the libgomp the extension is linked against",
    "md.rmsf is monitored for atom_indices=None only (with an index array it does not centre the rotated copy; not part of the statement)",
]
FLOORS = {"quick": {"oracle": 6000, "parallel-bits": 800, "superpose.attains": 3000, "superpose.distances": 700000,
                    "superpose.rigid": 3500, "symmetry": 280, "rigid-motion": 2500, "self": 250, "precentered": 3000,
                    "centred": 2400, "thread-sweep": 4000, "frame-alone": 280, "junk": 1300, "rmsf": 3500, "lprmsd": 1400,
                    "mirror": 3000, "alignment": 2000}}

KINDS = ["rmsd", "superpose", "relations", "rmsd", "superpose", "precentered", "threads", "rmsd", "superpose", "rmsf",
         "junk", "lprmsd", "alignment"]
NS = {"quick": list(range(3, 68)) + [100, 1000, 4000],
      "thorough": list(range(3, 132)) + [255, 256, 257, 258] + list(range(997, 1005)) + [3998, 3999, 4000, 4001]}
NCASES = {"quick": 14000, "thorough": 130000}
SHAPES = ["random", "random", "chain", "planar", "planar0", "aniso", "sym", "nearline"]
RELS = ["unrelated", "pert4", "pert2", "pert1", "identical", "mirror", "mirrorpert"]
ROTS = ["random", "random", "random", "identity", "half_exact", "half_axis", "near_half", "small"]
SELS = ["all", "same-sorted", "same-shuffled", "different"]
SCALES = [0.05, 0.1, 0.3, 0.3, 1.0, 1.0, 3.0]
OFFS = [0.0, 0.0, 1.0, 30.0, 300.0]
TEAMS = [1, 2, 3, 5, 8, 16]
WKINDS = ["rmsd", "superpose", "precentered", "threads", "rmsf", "rmsf_opts", "rmsd", "superpose", "precentered_mixed", "relations", "lprmsd", "rmsf_opts", "junk"]
NWIDE = {"quick": 2600, "thorough": 30000}
LONG_NF = [97, 100, 101, 128, 256, 257, 300]
CONTS = ["ndarray", "list", "tuple", "int32", "uint16", "strided-view", "intp"]


# ------------------------------------------------------------------------------------------------ generation
# thorough tier: every 40-th case also runs in a worker whose extensions are ASan/UBSan-instrumented (vlib/sanitize.py)
ASAN_EVERY = {"quick": 0, "thorough": 40}
GROUPS = {"thorough": [dict(name="asan", flavour="asan", workers=2)]}


def gen_cases(tier, seed):
    from vlib.gen import common as _common
    return _common.with_asan_slice(_gen_cases(tier, seed), ASAN_EVERY[tier])


def _gen_cases(tier, seed):
    ns = NS[tier]
    nk = len(KINDS)
    n = NCASES[tier]
    for i in range(n):
        rng = common.rng_for("C06", seed, i)
        kind = KINDS[i % nk]
        N = ns[(i // nk + 7 * (i % nk)) % len(ns)]
        big = N >= 900
        nf = int(rng.integers(1, 7 if big else (51 if rng.random() < 0.25 else 9)))
        yield dict(i=i, seed=common.case_seed(seed, "C06", i), kind=kind, n=N, nf=nf,
                   shape=str(rng.choice(SHAPES)), rel=str(rng.choice(RELS)), rot=str(rng.choice(ROTS)),
                   sel=str(rng.choice(SELS)), scale=float(rng.choice(SCALES if N > 4 or rng.random() < 0.8 else [0.02, 0.05])),
                   off_t=float(rng.choice(OFFS)), off_r=float(rng.choice(OFFS)), nref=int(rng.integers(1, 4)))
    # ---- wider input classes (block="wide"): index containers / dtypes / contiguity, explicit full selections, omitted frame
    # argument, references with many frames (frame near the end), trajectories of 97..300 frames (beyond any chunk / team size),
    # rmsf option values, precentered with traces on one side only, lprmsd parallel flag
    i0 = n + (0 if tier == "quick" else 200000)
    for j in range(NWIDE[tier]):
        i = i0 + j
        rng = common.rng_for("C06w", seed, j)
        kind = WKINDS[j % len(WKINDS)]
        N = ns[(j // len(WKINDS) + 5 * (j % len(WKINDS))) % len(ns)]
        long_ok = N <= 67
        u = rng.random()
        nf = int(rng.choice(LONG_NF)) if (long_ok and u < (0.12 if tier == "quick" else 0.25)) else int(rng.integers(1, 7 if N >= 900 else 13))
        nref = int(rng.choice([40, 130])) if (long_ok and rng.random() < 0.2) else int(rng.integers(1, 4))
        yield dict(i=i, seed=common.case_seed(seed, "C06w", j), kind=kind, n=N, nf=nf, shape=str(rng.choice(SHAPES)), rel=str(rng.choice(RELS)),
                   rot=str(rng.choice(ROTS)), sel=str(rng.choice(SELS + ["explicit-all", "explicit-all"])), scale=float(rng.choice(SCALES if N > 4 else [0.05, 0.3, 1.0])),
                   off_t=float(rng.choice(OFFS)), off_r=float(rng.choice(OFFS)), nref=nref, block="wide",
                   cont=str(rng.choice(CONTS)), cont_r=str(rng.choice(CONTS)), noframe=bool(rng.random() < 0.15), last_frame=bool(rng.random() < 0.5))
    if tier == "thorough":
        i = n
        for N, rel, rot, sel, kind in itertools.product(range(3, 21), RELS, ROTS[2:], SELS, ("rmsd", "superpose")):
            rng = common.rng_for("C06grid", seed, i)
            yield dict(i=i, seed=common.case_seed(seed, "C06grid", i), kind=kind, n=N, nf=int(rng.integers(1, 4)),
                       shape=str(rng.choice(SHAPES)), rel=rel, rot=rot, sel=sel, scale=float(rng.choice(SCALES)),
                       off_t=float(rng.choice(OFFS)), off_r=float(rng.choice(OFFS)), nref=int(rng.integers(1, 3)), block="grid")
            i += 1


_TOPS = {}


def _top(n):
    if n not in _TOPS:
        if len(_TOPS) > 40:
            _TOPS.clear()
        _TOPS[n] = common.simple_topology(n)
    return _TOPS[n]


def _traj(xyz):
    """A fresh trajectory owning a fresh copy (md.rmsd centres its inputs in place)."""
    import mdtraj as md
    x = np.array(xyz, dtype=np.float32, order="C", copy=True)
    return md.Trajectory(x, _top(x.shape[1]))


def _structure(rng, n, shape, scale):
    if shape == "chain":
        steps = rng.normal(size=(n, 3))
        steps /= np.linalg.norm(steps, axis=1)[:, None]
        A = np.cumsum(steps * 0.38 * scale, axis=0)
    else:
        A = rng.normal(size=(n, 3)) * scale
    if shape == "planar":
        A[:, 2] *= 1e-3
    elif shape == "planar0":
        A[:, 2] = 0.0
    elif shape == "aniso":
        A *= np.array([3.0, 1.0, 0.3])
    elif shape == "sym":  # two equal principal moments: the mirror image has a (near-)degenerate key matrix
        A[:, 1] = rng.permutation(A[:, 0])
    elif shape == "nearline":
        A[:, 1:] *= 1e-2
    return A


def _relate(rng, P, rel, shape, scale):
    n = len(P)
    if rel == "unrelated":
        return _structure(rng, n, shape, scale)
    if rel == "pert4":
        return P + rng.normal(size=P.shape) * 1e-4
    if rel == "pert2":
        return P + rng.normal(size=P.shape) * 1e-2 * scale
    if rel == "pert1":
        return P + rng.normal(size=P.shape) * 1e-1 * scale
    if rel == "mirror":
        return P * np.array([1.0, 1.0, -1.0])
    if rel == "mirrorpert":
        return P * np.array([1.0, 1.0, -1.0]) + rng.normal(size=P.shape) * 1e-2 * scale
    return P.copy()


def _axis_rot(axis, ang):
    x, y, z = axis / np.linalg.norm(axis)
    c, s = np.cos(ang), np.sin(ang)
    C = 1 - c
    return np.array([[c + x * x * C, x * y * C - z * s, x * z * C + y * s],
                     [y * x * C + z * s, c + y * y * C, y * z * C - x * s],
                     [z * x * C - y * s, z * y * C + x * s, c + z * z * C]])


def _rotation(rng, rot):
    if rot == "identity":
        return np.eye(3)
    if rot == "half_exact":
        return np.diag([[-1.0, -1.0, 1.0], [1.0, -1.0, -1.0], [-1.0, 1.0, -1.0]][int(rng.integers(3))])
    if rot == "half_axis":
        return _axis_rot(rng.normal(size=3), np.pi)
    if rot == "near_half":
        return _axis_rot(rng.normal(size=3), np.pi - 10.0 ** rng.uniform(-6, -0.5))
    if rot == "small":
        return _axis_rot(rng.normal(size=3), 10.0 ** rng.uniform(-6, -1))
    return common.random_rotation(rng)


class Work:
    pass


def _build(case, sel=None, rng=None):
    """target (nf, nt, 3) / reference (nref, nr, 3) float32 with the paired atoms at ai / rai."""
    rng = rng or common.rng_for("C06case", case["seed"])
    n, nf, shape, rel, scale = case["n"], case["nf"], case["shape"], case["rel"], case["scale"]
    sel = sel or case["sel"]
    w = Work()
    w.rng = rng
    w.frame = int(rng.integers(0, case["nref"]))
    if case.get("block") == "wide":
        if case.get("noframe"):
            w.frame = 0
        elif case.get("last_frame") and case["nref"] > 3:
            w.frame = case["nref"] - 1 - int(rng.integers(0, 2))
    P = _structure(rng, n, shape, scale)
    # the rotation class is the optimal rotation target -> reference of related pairs: the reference keeps the
    # orientation of P unless the class is "random" (then everything is in general position)
    R0 = common.random_rotation(rng) if case["rot"] == "random" else np.eye(3)
    Pr = (P - P.mean(0)) @ R0 + rng.uniform(-1, 1, 3) * case["off_r"]
    tgt = []
    for f in range(nf):
        relf = rel if (f or nf == 1 or rng.random() < 0.7) else "identical"
        Q = _relate(rng, P, relf, shape, scale)
        Q = (Q - Q.mean(0)) @ _rotation(rng, case["rot"]) + rng.uniform(-1, 1, 3) * case["off_t"]
        tgt.append(Q)
    tgt = np.array(tgt)
    ext = int(rng.integers(1, 9))
    exr = int(rng.integers(1, 9))
    if (case["seed"] // 13) % 4 == 0:
        ext = 0  # the selection covers EVERY atom of the target (a permutation of all atoms when it is shuffled)
    if (case["seed"] // 17) % 5 == 0:
        exr = 0
    if sel == "all":
        nt = nr = n
        ai = rai = None
        ia = ir = np.arange(n)
        if case.get("kind") in ("rmsd", "superpose") and (case["seed"] // 11) % 6 == 0:
            # every target atom, in order, against a reference whose atoms are numbered differently: only
            # ref_atom_indices is passed
            ir = rng.permutation(n)
            rai = ir
    elif sel == "explicit-all":
        # every atom named explicitly (in order): mdtraj then works on a gathered copy instead of the caller's memory
        nt = nr = n
        ia = ir = np.arange(n)
        ai = np.arange(n)
        rai = None if rng.random() < 0.5 else np.arange(n)
    elif sel in ("same-sorted", "same-shuffled"):
        nt = nr = n + ext
        ia = rng.permutation(nt)[:n]
        if sel == "same-sorted":
            ia = np.sort(ia)
        ir = ia
        ai = ia
        rai = None if rng.random() < 0.5 else ia.copy()
    else:
        nt, nr = n + ext, n + exr
        ia = rng.permutation(nt)[:n]
        ir = rng.permutation(nr)[:n]
        ai, rai = ia, ir
    X = np.empty((nf, nt, 3))
    cen = tgt.mean(1)
    X[:] = cen[:, None, :] + rng.normal(size=(nf, nt, 3)) * scale * 1.5
    X[:, ia] = tgt
    Y = np.empty((case["nref"], nr, 3))
    for k in range(case["nref"]):
        Y[k] = _structure(rng, nr, "random", scale) + rng.uniform(-1, 1, 3) * case["off_r"]
    Y[w.frame, ir] = Pr
    w.X = X.astype(np.float32)
    w.Y = Y.astype(np.float32)
    w.ai, w.rai, w.ia, w.ir = ai, rai, ia, ir
    if case.get("block") == "wide":
        w.ai, w.rai = _container(ai, case.get("cont")), _container(rai, case.get("cont_r"))
        w.noframe = bool(case.get("noframe")) and w.frame == 0
    global _LAST
    _LAST = w
    return w


def _container(idx, cont):
    """the same indices in another container / dtype / memory layout"""
    if idx is None or cont in (None, "ndarray"):
        return idx
    idx = np.asarray(idx)
    if cont == "list":
        return [int(i) for i in idx]
    if cont == "tuple":
        return tuple(int(i) for i in idx)
    if cont == "int32":
        return idx.astype(np.int32)
    if cont == "uint16":
        return idx.astype(np.uint16) if idx.max() < 65000 else idx.astype(np.uint32)
    if cont == "strided-view":
        return np.repeat(idx, 2)[::2]
    return idx.astype(np.intp)


def _fkw(w):
    """the frame argument: omitted when the case asks for the default"""
    return {} if getattr(w, "noframe", False) else {"frame": w.frame}


def _kw(w):
    kw = {}
    if w.ai is not None:
        kw["atom_indices"] = w.ai
    if w.rai is not None:
        kw["ref_atom_indices"] = w.rai
    return kw


def _pairs(w):
    """float64 analysis of every (target frame, reference frame) pair through the index lists."""
    b = w.Y[w.frame, w.ir]
    return [ob.analyse(w.X[f, w.ia], b) for f in range(len(w.X))]


def _D(w, f=None):
    a = w.X[:, w.ia] if f is None else w.X[f, w.ia]
    return float(max(np.abs(a).max(), np.abs(w.Y[w.frame, w.ir]).max()))


def _bits(a, b):
    a = np.ascontiguousarray(a)
    b = np.ascontiguousarray(b)
    return a.shape == b.shape and a.dtype == b.dtype and a.tobytes() == b.tobytes()


def _decade(x):
    if not np.isfinite(x):
        return "inf"
    if x <= 0:
        return "0"
    return "1e%d" % int(np.floor(np.log10(x))) if x < 1 else ">=1"


def _observe_case(case, ctx):
    if case.get("block") == "wide":
        ctx.observe("wide.index_container", f"{case['cont']}/{case['cont_r']}")
        ctx.observe("wide.n_frames", "97-300" if case["nf"] >= 97 else "<=12")
        ctx.observe("wide.reference_frames", "40-130" if case["nref"] > 3 else "1-3")
        ctx.observe("wide.frame_argument", "omitted" if case.get("noframe") else "given")
    ctx.observe("kind", case["kind"])
    ctx.observe("n_mod_4", case["n"] % 4)
    ctx.observe("n_class", "3-4" if case["n"] <= 4 else "5-67" if case["n"] <= 67 else "68-300" if case["n"] <= 300 else ">=900")
    ctx.observe("shape", case["shape"])
    ctx.observe("relation", case["rel"])
    ctx.observe("rotation", case["rot"])
    ctx.observe("offsets", "t=%g r=%g" % (case["off_t"], case["off_r"]))
    ctx.observe("n_frames", "1" if case["nf"] == 1 else "2-8" if case["nf"] <= 8 else "9-50" if case["nf"] <= 50 else "97-300")


# ------------------------------------------------------------------------------------------------ judges
def _judge_rmsd(ctx, r, prs, w, label, monitor="oracle"):
    """r: float32 rmsd array from mdtraj, prs: oracle pairs, w: the Work whose coordinate magnitudes enter the
    (eps32 D)^2 term.  Returns per-frame bounds (nan = skipped)."""
    nf = len(prs)
    out = np.full(nf, np.nan)
    r = np.asarray(r)
    if r.shape != (nf,):
        ctx.violation(monitor, f"{label}:shape", f"{label}: result shape {r.shape}, expected {(nf,)}")
        return out
    for f, p in enumerate(prs):
        if not p.in_domain:
            ctx.skip(monitor, "collinear or <3 atoms (outside the stated domain)")
            continue
        B = p.bound(_D(w, f))
        out[f] = B
        r2 = float(r[f]) ** 2
        ctx.observe("kappa_decade", "1e%d" % int(np.floor(np.log10(p.kappa()))))
        ctx.observe(monitor + ".err/bound", _decade(abs(r2 - p.msd) / B if B > 0 else np.inf))
        if not np.isfinite(r2) or abs(r2 - p.msd) > B:
            side = "above" if not np.isfinite(r2) or r2 > p.msd else "below"
            ctx.violation(monitor, f"{label}:not-optimal-msd:{side}",
                          f"{label}: rmsd^2 = {r2:.9g} but the minimum over proper rotations is {p.msd:.9g} "
                          f"(|diff| {abs(r2 - p.msd):.3g} > bound {B:.3g}; N={p.n}, kappa={p.kappa():.3g})",
                          frame=f, N=p.n, lam=p.lam, Ga=p.Ga, Gb=p.Gb, det_sign=p.det_sign)
        else:
            ctx.ok(monitor)
            if p.det_sign < 0 and p.msd > 4 * B:
                ctx.ok("mirror")  # an improper rotation would have done better; mdtraj stayed at the proper minimum
    return out


def _classify_rotation(p):
    if p.qsqr > ob.QSQR_FLOAT32_OVERFLOW:
        return "rotation-extraction:float32-overflow-large-structure"
    if p.w < ob.HALF_TURN_W:
        return "rotation-extraction:optimal-rotation-near-half-turn"
    if p.qsqr < 10 * ob.QSQR_KERNEL_THRESHOLD:
        return "rotation-extraction:small-structure-below-absolute-qsqr-threshold"
    return None


def _judge_superposed(ctx, before, after, w, prs, label):
    """before/after: float32 (nf, nt, 3) target coordinates; the reference is w.Y[w.frame, w.ir]."""
    nf, nt = before.shape[:2]
    if after.shape != before.shape:
        ctx.violation("superpose.attains", f"{label}:shape", f"{label}: xyz shape {after.shape} after, {before.shape} before")
        return
    ref = w.Y[w.frame, w.ir].astype(np.float64)
    rng = common.rng_for("C06pairs", nt)
    if nt <= 64:
        P = np.array([(i, j) for i in range(nt) for j in range(i)])
    else:
        P = rng.integers(0, nt, (3000, 2))
        uns = np.setdiff1d(np.arange(nt), w.ia)
        if len(uns):
            P = np.vstack([P, np.stack([rng.choice(w.ia, 400), rng.choice(uns, 400)], 1)])
    for f in range(nf):
        p = prs[f]
        b64 = before[f].astype(np.float64)
        a64 = after[f].astype(np.float64)
        if not np.isfinite(a64).all():
            mech = _classify_rotation(p) if p.in_domain and p.qsqr > ob.QSQR_FLOAT32_OVERFLOW else None
            ctx.violation("superpose.attains", mech or f"{label}:non-finite-coordinates",
                          f"{label}: {int((~np.isfinite(a64)).sum())} non-finite coordinates after superposition of finite input (N={p.n})", frame=f)
            continue
        cen = b64[w.ia].mean(0)
        Rs = float(np.linalg.norm(b64 - cen, axis=1).max())
        Mf = float(np.abs(a64).max()) if np.isfinite(a64).all() else float("inf")
        e_atom = 0.5 * ob.DIST_C * geom.EPS32 * (Rs + Mf)
        # every interatomic distance unchanged
        d0 = np.linalg.norm(b64[P[:, 0]] - b64[P[:, 1]], axis=1)
        d1 = np.linalg.norm(a64[P[:, 0]] - a64[P[:, 1]], axis=1)
        dd = np.abs(d1 - d0)
        overflow = p.in_domain and p.qsqr > ob.QSQR_FLOAT32_OVERFLOW
        if not np.isfinite(dd).all() or dd.max() > 2 * e_atom:
            j = int(np.argmax(np.where(np.isfinite(dd), dd, np.inf)))
            both = "-".join(sorted(["selected" if P[j, 0] in w.ia else "unselected", "selected" if P[j, 1] in w.ia else "unselected"]))
            ctx.violation("superpose.distances", _classify_rotation(p) if overflow else f"{label}:distance-changed:{both}",
                          f"{label}: distance between atoms {P[j, 0]} and {P[j, 1]} ({both}) changed from {d0[j]:.9g} to {d1[j]:.9g} "
                          f"(tolerance {2 * e_atom:.3g})", frame=f)
        else:
            ctx.ok("superpose.distances", len(P))
        # all atoms follow one proper rigid motion
        res, Rapp = ob.rigid_fit(b64, a64)
        if not res <= e_atom:
            ctx.violation("superpose.rigid", _classify_rotation(p) if overflow else f"{label}:not-a-proper-rigid-motion",
                          f"{label}: best proper-rotation fit of the moved frame onto the original leaves rms {res:.3g} > {e_atom:.3g}", frame=f)
        else:
            ctx.ok("superpose.rigid")
        # the alignment atoms sit at the minimum, measured without fitting
        if not p.in_domain:
            ctx.skip("superpose.attains", "collinear or <3 atoms (outside the stated domain)")
            continue
        got = ob.nofit_msd(a64[w.ia], ref)
        B = p.bound(_D(w, f)) + 2 * np.sqrt(p.msd) * e_atom + e_atom ** 2
        ctx.observe("superpose.attains.err/bound", _decade(abs(got - p.msd) / B if B > 0 else np.inf))
        ctx.observe("superpose.distances.err/tol", _decade(float(dd.max()) / (2 * e_atom) if e_atom > 0 else np.inf))
        if abs(got - p.msd) <= B:
            ctx.ok("superpose.attains")
            if p.det_sign < 0 and p.msd > 4 * B:
                ctx.ok("mirror")
            continue
        mech = _classify_rotation(p) if got > p.msd else None
        applied_identity = bool(np.abs(Rapp - np.eye(3)).max() < 1e-3)
        if mech:
            ctx.observe("finding." + mech, label.split(":")[0])
            ctx.violation("superpose.attains", mech,
                          f"{label}: no-fit rmsd after superposition {np.sqrt(got):.6g} nm, optimal {np.sqrt(p.msd):.6g} nm "
                          f"(optimal rotation has cos(theta/2) = {p.w:.3g}, predicted |q|^2 = {p.qsqr:.3g}, "
                          f"identity applied: {applied_identity}; N={p.n})", frame=f, N=p.n, w=p.w, qsqr=p.qsqr)
        else:
            side = "above" if got > p.msd else "below"
            ctx.violation("superpose.attains", f"{label}:nofit-rmsd-not-the-minimum:{side}",
                          f"{label}: no-fit msd of the alignment atoms {got:.9g}, minimum over proper rotations {p.msd:.9g} "
                          f"(bound {B:.3g}; N={p.n}, cos(theta/2)={p.w:.3g}, identity applied: {applied_identity})",
                          frame=f, N=p.n, w=p.w, qsqr=p.qsqr, lam=p.lam)


def _superpose(w, parallel=True, X=None):
    t = _traj(w.X if X is None else X)
    if getattr(w, "selfref", False):
        # the reference is the very trajectory that is being superposed (a frame of itself)
        out = t.superpose(t, parallel=parallel, **_fkw(w), **_kw(w))
        return np.array(out.xyz, copy=True), True
    ref = _traj(w.Y)
    out = t.superpose(ref, parallel=parallel, **_fkw(w), **_kw(w))
    return np.array(out.xyz, copy=True), bool(_bits(ref.xyz, w.Y))


def _make_selfref(w):
    """turn the (target, reference) pair into one trajectory that is fitted onto one of its own frames: the reference
    atoms are a separate selection `rai` of that frame (e.g. copy B of a dimer as template for copy A)."""
    rng = w.rng
    nt = w.X.shape[1]
    n = len(w.ia)
    ir2 = rng.permutation(nt)[:n] if rng.random() < 0.8 else np.array(w.ia).copy()
    frame = int(rng.integers(0, w.X.shape[0]))
    X = w.X.copy()
    X[frame, ir2] = w.Y[w.frame, w.ir]
    w.X, w.Y, w.frame, w.ir = X, X.copy(), frame, ir2
    w.noframe = getattr(w, "noframe", False) and frame == 0
    w.rai = None if (np.array_equal(ir2, w.ia) and rng.random() < 0.5) else ir2
    w.selfref = True
    return w


def _rmsd(w, parallel=True, precentered=False, X=None, Y=None):
    import mdtraj as md
    if getattr(w, "noframe", False):
        return md.rmsd(_traj(w.X if X is None else X), _traj(w.Y if Y is None else Y), parallel=parallel, precentered=precentered, **_kw(w))
    return md.rmsd(_traj(w.X if X is None else X), _traj(w.Y if Y is None else Y), w.frame, parallel=parallel,
                   precentered=precentered, **_kw(w))


# ------------------------------------------------------------------------------------------------ kinds
def _run_rmsd(case, ctx):
    w = _build(case)
    ctx.observe("selection", case["sel"] + ("" if w.rai is None or w.ai is None else "+explicit-ref"))
    prs = _pairs(w)
    r1 = _rmsd(w, True)
    r0 = _rmsd(w, False)
    ctx.check(_bits(r1, r0), "parallel-bits", "rmsd:parallel-vs-serial-differ", "md.rmsd parallel=True and parallel=False differ bitwise",
              max_abs=float(np.abs(np.asarray(r1, float) - np.asarray(r0, float)).max()) if np.shape(r1) == np.shape(r0) else None)
    _judge_rmsd(ctx, r1, prs, w, "rmsd")
    if not _bits(r1, r0):
        _judge_rmsd(ctx, r0, prs, w, "rmsd:parallel=False")


def _run_relations(case, ctx):
    import mdtraj as md
    w = _build(case)
    rng = w.rng
    prs = _pairs(w)
    r = _rmsd(w, True)
    bounds = _judge_rmsd(ctx, r, prs, w, "rmsd")
    nf = len(w.X)
    # --- symmetry: swap roles (target <-> reference, index lists swapped, frame = target frame)
    for f in sorted(set(rng.integers(0, nf, 3).tolist())):
        kw = {}
        if w.ai is not None:
            kw["atom_indices"] = w.ir
            kw["ref_atom_indices"] = w.ia
        rb = md.rmsd(_traj(w.Y), _traj(w.X), f, **kw)
        if rb.shape != (len(w.Y),):
            ctx.violation("symmetry", "rmsd:swapped:shape", f"shape {rb.shape}")
            continue
        if np.isnan(bounds[f]):
            ctx.skip("symmetry", "collinear or <3 atoms (outside the stated domain)")
            continue
        rb2 = float(rb[w.frame]) ** 2
        ra2 = float(r[f]) ** 2
        if abs(rb2 - ra2) > 2 * bounds[f]:
            ctx.violation("symmetry", "rmsd:not-symmetric", f"rmsd(A,B)^2 = {ra2:.9g} but rmsd(B,A)^2 = {rb2:.9g} (oracle {prs[f].msd:.9g}, "
                          f"bound {bounds[f]:.3g})", frame=f, N=prs[f].n)
        else:
            ctx.ok("symmetry")
    # --- self: a structure against a copy of itself, and against itself through the same object
    f = int(rng.integers(0, nf))
    A = w.X[f:f + 1]
    ps = ob.analyse(A[0][w.ia], A[0][w.ia])
    kws = {} if w.ai is None else {"atom_indices": w.ia}
    if ps.in_domain:
        Bs = ps.bound(float(np.abs(A).max()))
        rs = md.rmsd(_traj(A), _traj(A), 0, **kws)
        ctx.check(float(rs[0]) ** 2 <= Bs, "self", "rmsd:self-copy-not-zero", f"rmsd(A, copy of A) = {float(rs[0]):.6g}, bound on rmsd^2 {Bs:.3g}", N=ps.n)
        t = _traj(w.X)
        rs = md.rmsd(t, t, f, **kws)
        ctx.check(rs.shape == (nf,) and float(rs[f]) ** 2 <= Bs, "self", "rmsd:self-same-object-not-zero",
                  f"rmsd(t, t, frame={f})[{f}] = {float(rs[f]) if rs.shape == (nf,) else rs!r}, bound on rmsd^2 {Bs:.3g}", N=ps.n)
    else:
        ctx.skip("self", "collinear or <3 atoms (outside the stated domain)")
    # --- rigid motion of the target / of the reference
    for which in ("target", "reference"):
        R = common.random_rotation(rng)
        tvec = rng.uniform(-1, 1, 3) * float(rng.choice([0.0, 1.0, 30.0, 300.0]))
        if which == "target":
            X2 = (w.X.astype(np.float64) @ R + tvec).astype(np.float32)
            r2 = _rmsd(w, True, X=X2)
            w2 = _clone(w, X=X2)
        else:
            Y2 = (w.Y.astype(np.float64) @ R + tvec).astype(np.float32)
            r2 = _rmsd(w, True, Y=Y2)
            w2 = _clone(w, Y=Y2)
        prs2 = _pairs(w2)
        if np.shape(r2) != (nf,):
            ctx.violation("rigid-motion", f"rmsd:moved-{which}:shape", f"shape {np.shape(r2)}")
            continue
        for f in range(nf):
            if np.isnan(bounds[f]) or not prs2[f].in_domain:
                ctx.skip("rigid-motion", "collinear or <3 atoms (outside the stated domain)")
                continue
            moved = w2.X[f, w.ia] if which == "target" else w2.Y[w.frame, w.ir]
            e = np.sqrt(3.0) * geom.EPS32 * float(np.abs(moved).max())
            tol = bounds[f] + prs2[f].bound(_D(w2, f)) + 2 * np.sqrt(prs[f].msd) * e + e * e
            a2, b2 = float(r[f]) ** 2, float(r2[f]) ** 2
            if not abs(a2 - b2) <= tol:
                ctx.violation("rigid-motion", f"rmsd:changed-by-rigid-motion-of-{which}",
                              f"rmsd^2 {a2:.9g} became {b2:.9g} after rotating/translating the {which} (tolerance {tol:.3g})", frame=f, N=prs[f].n)
            else:
                ctx.ok("rigid-motion")


def _clone(w, X=None, Y=None):
    c = Work()
    c.__dict__.update(w.__dict__)
    if X is not None:
        c.X = X
    if Y is not None:
        c.Y = Y
    return c


def _judge_centred(ctx, X32, t):
    """center_coordinates(): the float32 mean is the only first-order error (|m_f - m| <= eps32 D per component, the
    subtraction is exact or rounds by eps32 |c|), and the stored trace is sum |c|^2 of the centred float32 coordinates
    (float32 squares accumulated in double, rounded once to float32: <= 4 eps32 G)."""
    X = X32.astype(np.float64)
    C = np.asarray(t.xyz, np.float64)
    tr = None if t._rmsd_traces is None else np.asarray(t._rmsd_traces, np.float64)
    for f in range(len(X)):
        D = float(np.abs(X[f]).max())
        rs = float(np.abs(X[f] - X[f].mean(0)).max())
        tol = 2 * geom.EPS32 * (D + rs)
        dev = float(np.abs(C[f] - (X[f] - X[f].mean(0))).max())
        ctx.observe("centred.err/tol", _decade(dev / tol if tol > 0 else 0.0))
        if not dev <= tol:
            ctx.violation("centred", "center_coordinates:not-centred-within-float32-rounding",
                          f"center_coordinates leaves coordinates {dev:.3g} nm away from x - centroid (float64); allowed {tol:.3g} "
                          f"(N={X.shape[1]}, largest coordinate {D:.4g})", frame=f, N=X.shape[1])
        else:
            ctx.ok("centred")
        if tr is not None and tr.shape == (len(X),):
            G = float((C[f] * C[f]).sum())
            if not abs(tr[f] - G) <= 8 * geom.EPS32 * G:
                ctx.violation("centred", "center_coordinates:trace-is-not-sum-of-squares", f"_rmsd_traces[{f}] = {tr[f]:.9g}, sum |c|^2 of the "
                              f"centred coordinates = {G:.9g} (N={X.shape[1]})", frame=f, N=X.shape[1])
            else:
                ctx.ok("centred")


def _run_precentered(case, ctx):
    import mdtraj as md
    import warnings
    w = _build(case, sel="all" if case["i"] % 3 else None)
    prs_raw = _pairs(w)
    t, ref = _traj(w.X), _traj(w.Y)
    t.center_coordinates()
    ref.center_coordinates()
    wc = _clone(w, X=np.array(t.xyz, copy=True), Y=np.array(ref.xyz, copy=True))
    _judge_centred(ctx, w.X, t)
    prs_c = _pairs(wc)
    with warnings.catch_warnings():
        warnings.simplefilter("ignore")
        rp = md.rmsd(t, ref, w.frame, precentered=True, **_kw(w))
    rn = _rmsd(wc, True, precentered=False)
    ctx.observe("precentered", "atom_indices=None" if w.ai is None else "with atom_indices (documented: ignored)")
    label = "rmsd:precentered" if w.ai is None else "rmsd:precentered+atom_indices"
    # D is the magnitude of the *original* coordinates: precentered=True trusts the float32-centred data, whose residual
    # centroid (<= eps32 D per component) is not removed again -- the second-order term (c) of the bound
    bounds = _judge_rmsd(ctx, rp, prs_c, w, label, monitor="precentered")
    if np.shape(rp) != (len(w.X),) or np.shape(rn) != (len(w.X),):
        return
    for f in range(len(w.X)):
        if np.isnan(bounds[f]) or not prs_raw[f].in_domain:
            ctx.skip("precentered", "collinear or <3 atoms (outside the stated domain)")
            continue
        a2, b2 = float(rp[f]) ** 2, float(rn[f]) ** 2
        if abs(a2 - b2) > 2 * bounds[f]:
            ctx.violation("precentered", f"{label}:differs-from-precentered=False", f"precentered=True gives rmsd^2 {a2:.9g}, precentered=False {b2:.9g} "
                          f"on the same centred coordinates (bound {2 * bounds[f]:.3g})", frame=f, N=prs_c[f].n)
        else:
            ctx.ok("precentered")
        if w.ai is None:
            # against the uncentred data: center_coordinates may only remove the centroid (second order in eps32*D)
            tol = bounds[f] + prs_raw[f].bound(_D(w, f))
            if abs(a2 - prs_raw[f].msd) > tol:
                ctx.violation("precentered", "center_coordinates+precentered:not-the-msd-of-the-original-data",
                              f"rmsd^2 {a2:.9g} after center_coordinates, minimum for the original coordinates {prs_raw[f].msd:.9g} (tol {tol:.3g})",
                              frame=f, N=prs_raw[f].n)
            else:
                ctx.ok("precentered")


def _run_superpose(case, ctx):
    w = _build(case)
    if (case["seed"] // 7) % 3 == 0:
        w = _make_selfref(w)
        ctx.observe("superpose.reference", "a frame of the same Trajectory object" + ("" if w.rai is None else ", own ref_atom_indices"))
    ctx.observe("selection", case["sel"] + ("" if w.rai is None or w.ai is None else "+explicit-ref"))
    prs = _pairs(w)
    a1, ref_same = _superpose(w, True)
    a0, _ = _superpose(w, False)
    ctx.check(_bits(a1, a0), "parallel-bits", "superpose:parallel-vs-serial-differ", "superpose parallel=True and parallel=False differ bitwise")
    _judge_superposed(ctx, w.X, a1, w, prs, "superpose")
    if not _bits(a1, a0):
        _judge_superposed(ctx, w.X, a0, w, prs, "superpose:parallel=False")
    ctx.observe("reference-left-untouched-by-superpose", ref_same)


def _rot_ok(p):
    """rotation extraction well conditioned (the rmsf monitor's domain)."""
    return (p.in_domain and p.w >= 0.1 and 1e3 * ob.QSQR_KERNEL_THRESHOLD <= p.qsqr <= 1e-2 * ob.QSQR_FLOAT32_OVERFLOW
            and p.g[0] >= 0.05 * p.S)


def _rot_cond(p):
    """first-order amplification of float32 noise into the angle of the extracted rotation: the eigenvalue error
    x ~ eps S^4/(g2 g3 g4) tilts the eigenvector by x/(g2 w), the cofactor noise eps S^3 by eps S^3/(g2 g3 g4 w)"""
    return p.S ** 3 / (p.g[0] * p.g[1] * p.g[2]) * (1.0 + p.S / p.g[0]) / p.w


def _run_rmsf(case, ctx):
    import mdtraj as md
    if case["rot"] in ("half_exact", "half_axis", "near_half"):
        # the half-turn classes are the superpose monitor's business (known finding); keep this monitor decided
        case = dict(case, rot="small" if case["rot"] == "near_half" else "random")
    w = _build(case, sel="all")
    prs = _pairs(w)
    f1 = md.rmsf(_traj(w.X), _traj(w.Y), w.frame, parallel=True)
    f0 = md.rmsf(_traj(w.X), _traj(w.Y), w.frame, parallel=False)
    ctx.check(_bits(f1, f0), "parallel-bits", "rmsf:parallel-vs-serial-differ", "md.rmsf parallel=True and parallel=False differ bitwise")
    n = case["n"]
    if np.shape(f1) != (n,):
        ctx.violation("rmsf", "rmsf:shape", f"shape {np.shape(f1)} expected {(n,)}")
        return
    bad = [p for p in prs if not _rot_ok(p)]
    if bad:
        mech = [m for m in (_classify_rotation(p) for p in bad if p.in_domain) if m]
        ctx.skip("rmsf", "a frame's optimal rotation is ill-conditioned (near half turn / tiny / huge / near-degenerate spectrum): "
                         "fluctuations are not a stable function of the input", n)
        if mech:
            ctx.observe("rmsf.skipped-in-finding-regime", mech[0])
        return
    ref = w.Y[w.frame]
    want = ob.rmsf_oracle(w.X, ref)
    X64 = w.X.astype(np.float64)
    rad = np.linalg.norm(X64 - X64.mean(1, keepdims=True), axis=2).max(0)  # per atom
    cond = max(_rot_cond(p) for p in prs)
    # position error of a superposed atom: float32 rotation arithmetic and float32 running mean over the frames
    # (4 n_frames), rotation-extraction conditioning (16 cond), and the float32 centroid md.rmsf subtracts
    # (first order here: each frame keeps its own residual shift <= sqrt(3) eps32 D)
    D = float(np.abs(w.X).max())
    e = geom.EPS32 * (rad * (4.0 * len(w.X) + 16.0 * cond) + 8.0 * D) + 1e-12
    got = f1.astype(np.float64) ** 2
    tol = 2 * np.sqrt(want) * e + e * e
    badm = ~(np.abs(got - want) <= tol)
    ctx.observe("rmsf.err/tol", _decade(float((np.abs(got - want) / tol).max())))
    if badm.any():
        j = int(np.argmax(np.where(badm, np.abs(got - want) / tol, 0)))
        ctx.violation("rmsf", "rmsf:not-the-fluctuation-about-the-superposed-mean",
                      f"rmsf^2 of atom {j} = {got[j]:.9g}, float64 superposition gives {want[j]:.9g} (tolerance {tol[j]:.3g}, N={n}, "
                      f"{len(w.X)} frames)", N=n)
    ctx.ok("rmsf", int((~badm).sum()))


def _judge_rmsf(ctx, got32, X32, ref32, prs, label, aligned=True, D=None):
    """squared fluctuation about the mean of the (optimally superposed, or merely centred) frames vs float64, tolerance as in
    _run_rmsf; prs None = no rotation involved"""
    n = X32.shape[1]
    if np.shape(got32) != (n,):
        ctx.violation("rmsf", f"{label}:shape", f"shape {np.shape(got32)} expected {(n,)}")
        return
    if prs is not None:
        bad = [p for p in prs if not _rot_ok(p)]
        if bad:
            ctx.skip("rmsf", "a frame's optimal rotation is ill-conditioned (near half turn / tiny / huge / near-degenerate spectrum): "
                             "fluctuations are not a stable function of the input", n)
            return
    X64 = X32.astype(np.float64)
    if prs is not None:
        want = ob.rmsf_oracle(X32, ref32)
        cond = max(_rot_cond(p) for p in prs)
    else:
        C = X64 - X64.mean(1, keepdims=True) if aligned else X64
        want = ((C - C.mean(0)) ** 2).sum(-1).mean(0)
        cond = 0.0
    rad = np.linalg.norm(X64 - X64.mean(1, keepdims=True), axis=2).max(0) if aligned else np.abs(X64).max(axis=(0, 2)) * np.sqrt(3.0)
    # D: magnitude of the coordinates whose float32 centroid was subtracted (each frame keeps its own residual shift <= sqrt(3) eps32 D);
    # for data centred beforehand by center_coordinates that is the magnitude of the ORIGINAL coordinates
    D = float(np.abs(X32).max()) if D is None else max(float(D), float(np.abs(X32).max()))
    e = geom.EPS32 * (rad * (4.0 * len(X32) + 16.0 * cond) + 8.0 * D) + 1e-12
    got = np.asarray(got32, np.float64) ** 2
    tol = 2 * np.sqrt(want) * e + e * e
    badm = ~(np.abs(got - want) <= tol)
    ctx.observe("rmsf.err/tol", _decade(float((np.abs(got - want) / tol).max())))
    if badm.any():
        j = int(np.argmax(np.where(badm, np.abs(got - want) / tol, 0)))
        ctx.violation("rmsf", f"{label}:not-the-fluctuation-about-the-mean",
                      f"{label}: rmsf^2 of atom {j} = {got[j]:.9g}, float64 gives {want[j]:.9g} (tolerance {tol[j]:.3g}, N={n}, {len(X32)} frames)", N=n)
    ctx.ok("rmsf", int((~badm).sum()))


def _run_rmsf_opts(case, ctx):
    """md.rmsf option values the rmsf kind never passes: precentered=True (traces on both sides / on one side only), the target
    object itself as reference, reference=None (documented: fluctuation about the average of the frames as they are; with
    atom_indices=None the frames are centred in place first, with an index array they are taken as given)"""
    import mdtraj as md
    import warnings
    if case["rot"] in ("half_exact", "half_axis", "near_half"):
        case = dict(case, rot="small" if case["rot"] == "near_half" else "random")
    if case["nf"] > 40:
        case = dict(case, nf=40)
    variant = ["precentered", "precentered-one-sided", "reference=self", "reference=None", "reference=None+atom_indices"][(case["i"] // len(WKINDS)) % 5]
    ctx.observe("rmsf.option", variant)
    w = _build(case, sel="all" if variant != "reference=None+atom_indices" else "same-sorted")
    par = bool(w.rng.random() < 0.5)
    with warnings.catch_warnings():
        warnings.simplefilter("ignore")
        if variant in ("precentered", "precentered-one-sided"):
            t, ref = _traj(w.X), _traj(w.Y)
            t.center_coordinates()
            if variant == "precentered":
                ref.center_coordinates()
            Xc, Yc = np.array(t.xyz, copy=True), np.array(ref.xyz, copy=True)
            f = md.rmsf(t, ref, w.frame, precentered=True, parallel=par)
            f2 = md.rmsf(_traj(Xc), _traj(Yc), w.frame, precentered=False, parallel=not par)
            wc = _clone(w, X=Xc, Y=Yc)
            D0 = float(max(np.abs(w.X).max(), np.abs(w.Y[w.frame]).max()))
            _judge_rmsf(ctx, f, Xc, Yc[w.frame], _pairs(wc), f"rmsf:{variant}", D=D0)
            _judge_rmsf(ctx, f2, Xc, Yc[w.frame], _pairs(wc), "rmsf:precentered=False-on-centred-data", D=D0)
        elif variant == "reference=self":
            fr = int(w.rng.integers(0, len(w.X)))
            t = _traj(w.X)
            f = md.rmsf(t, t, fr, parallel=par)
            ws = _clone(w, Y=w.X.copy())
            ws.frame = fr
            _judge_rmsf(ctx, f, w.X, w.X[fr], _pairs(ws), "rmsf:reference=target-object")
        elif variant == "reference=None":
            f = md.rmsf(_traj(w.X), None, parallel=par)
            f0 = md.rmsf(_traj(w.X), None, parallel=not par)
            ctx.check(_bits(f, f0), "parallel-bits", "rmsf(reference=None):parallel-vs-serial-differ", "md.rmsf(reference=None) parallel=True and parallel=False differ bitwise")
            _judge_rmsf(ctx, f, w.X, None, None, "rmsf:reference=None", aligned=True)
        else:
            f = md.rmsf(_traj(w.X), None, atom_indices=w.ai, parallel=par)
            _judge_rmsf(ctx, f, w.X[:, w.ia], None, None, "rmsf:reference=None+atom_indices", aligned=False)


def _run_precentered_mixed(case, ctx):
    """precentered=True where the shortcut cannot apply (traces on one side only) or where both roles are one object"""
    import mdtraj as md
    import warnings
    variant = ["target-only", "reference-only", "same-object", "mass-weighted-centring"][(case["i"] // len(WKINDS)) % 4]
    ctx.observe("precentered.mixed", variant)
    w = _build(case, sel="all")
    t, ref = _traj(w.X), _traj(w.Y)
    with warnings.catch_warnings():
        warnings.simplefilter("ignore")
        if variant == "mass-weighted-centring":
            # both sides centred on their centre of MASS (heavy atoms on one side of the structure: it is not the centroid);
            # the shortcut then has nothing it may reuse and the result must still be the optimal RMSD
            from mdtraj.core import element as elem
            n = w.X.shape[1]
            top = md.Topology()
            ch = top.add_chain()
            for k in range(n):
                top.add_atom("X%d" % k, elem.iodine if k < max(1, n // 3) else elem.hydrogen, top.add_residue("LIG", ch))
            t, ref = md.Trajectory(np.array(w.X, copy=True), top), md.Trajectory(np.array(w.Y, copy=True), top)
            t.center_coordinates(mass_weighted=True)
            ref.center_coordinates(mass_weighted=True)
            Xc, Yc = np.array(t.xyz, copy=True), np.array(ref.xyz, copy=True)
            r = md.rmsd(t, ref, w.frame, precentered=True)
            wc = _clone(w, X=Xc, Y=Yc)
        elif variant == "same-object":
            t.center_coordinates()
            Xc = np.array(t.xyz, copy=True)
            fr = int(w.rng.integers(0, len(Xc)))
            r = md.rmsd(t, t, fr, precentered=True, parallel=bool(w.rng.random() < 0.5))
            wc = _clone(w, X=Xc, Y=Xc.copy())
            wc.frame = fr
        else:
            (t if variant == "target-only" else ref).center_coordinates()
            Xc, Yc = np.array(t.xyz, copy=True), np.array(ref.xyz, copy=True)
            r = md.rmsd(t, ref, w.frame, precentered=True)
            wc = _clone(w, X=Xc, Y=Yc)
    # D: magnitude of the original coordinates (second-order term of the float32 centroid, as in the precentered kind)
    wD = _clone(wc)
    wD.X, wD.Y = w.X, (w.X if variant == "same-object" else w.Y)
    prs = _pairs(wc)
    _judge_rmsd(ctx, r, prs, wD, f"rmsd:precentered:{variant}", monitor="precentered")


_GOMP = None


def _set_threads(n):
    global _GOMP
    if _GOMP is None:
        _GOMP = ctypes.CDLL("libgomp.so.1")
        _GOMP.omp_get_max_threads.restype = ctypes.c_int
    _GOMP.omp_set_num_threads(int(n))
    return int(_GOMP.omp_get_max_threads())


def _run_threads(case, ctx):
    import mdtraj as md
    w = _build(case)
    nf = len(w.X)
    base = dict(rmsd=_rmsd(w, False), sup=_superpose(w, False)[0])
    wa = _build(case, sel="all")
    base["rmsf"] = md.rmsf(_traj(wa.X), _traj(wa.Y), wa.frame, parallel=False)
    tc = _traj(w.X)
    _set_threads(1)
    try:
        tc.center_coordinates()
        base["traces"] = np.array(tc._rmsd_traces, copy=True)
        base["centred"] = np.array(tc.xyz, copy=True)
        for n in TEAMS + [nf + 3]:
            got = _set_threads(n)
            ctx.observe("team_size", got)
            res = dict(rmsd=_rmsd(w, True), sup=_superpose(w, True)[0],
                       rmsf=md.rmsf(_traj(wa.X), _traj(wa.Y), wa.frame, parallel=True))
            t2 = _traj(w.X)
            t2.center_coordinates()
            res["traces"] = np.array(t2._rmsd_traces, copy=True)
            res["centred"] = np.array(t2.xyz, copy=True)
            for k, v in res.items():
                if _bits(v, base[k]):
                    ctx.ok("thread-sweep")
                else:
                    name = {"rmsd": "rmsd", "sup": "superpose", "rmsf": "rmsf", "traces": "center_coordinates:traces",
                            "centred": "center_coordinates:xyz"}[k]
                    ctx.violation("thread-sweep", f"{name}:depends-on-team-size", f"{name} with an OpenMP team of {got} differs bitwise from the "
                                  f"serial / 1-thread result ({nf} frames, N={case['n']})", team=got)
    finally:
        _set_threads(4)
    # frame in company == frame alone
    r = base["rmsd"]
    for f in sorted(set(w.rng.integers(0, nf, 3).tolist())):
        ra = md.rmsd(_traj(w.X[f:f + 1]), _traj(w.Y), w.frame, **_kw(w))
        ctx.check(np.shape(ra) == (1,) and np.shape(r) == (nf,) and _bits(ra[0], r[f]), "frame-alone", "rmsd:frame-alone-differs-from-frame-in-company",
                  f"rmsd of frame {f} alone differs bitwise from the same frame inside a {nf}-frame trajectory")


def _guarded(arr, junk, pad=64):
    """C-contiguous float32 view with the values of arr, in the middle of a buffer otherwise filled with junk."""
    buf = np.full(arr.size + 2 * pad, junk, dtype=np.float32)
    v = buf[pad:pad + arr.size].reshape(arr.shape)
    v[...] = arr
    return buf, v


def _run_junk(case, ctx):
    import mdtraj as md
    # selection "all": mdtraj then works on the caller's memory itself (no gather copy), tails included
    w = _build(case, sel="all")
    nf = len(w.X)
    prs = _pairs(w)
    wl = _clone(w, Y=w.Y[: w.frame + 1])  # the reference frame is the last one of its buffer
    outs = []
    for junk in (np.nan, 1e30, 0.0, -7.5):
        bx, vx = _guarded(wl.X, junk)
        by, vy = _guarded(wl.Y, junk)
        t = md.Trajectory(vx, _top(vx.shape[1]))
        ref = md.Trajectory(vy, _top(vy.shape[1]))
        shared = bool(np.shares_memory(t.xyz, bx) and np.shares_memory(ref.xyz, by))
        ctx.observe("junk.inputs-are-views-into-guard-buffer", shared)
        r = np.array(md.rmsd(t, ref, wl.frame), copy=True)
        bx2, vx2 = _guarded(wl.X, junk)
        by2, vy2 = _guarded(wl.Y, junk)
        t2 = md.Trajectory(vx2, _top(vx2.shape[1]))
        t2.superpose(md.Trajectory(vy2, _top(vy2.shape[1])), frame=wl.frame)
        guards_intact = all((np.isnan(b[:64]).all() and np.isnan(b[-64:]).all()) if junk != junk else
                            ((b[:64] == np.float32(junk)).all() and (b[-64:] == np.float32(junk)).all()) for b in (bx, by, bx2, by2))
        ctx.check(guards_intact, "junk", "guard-region-written", "memory outside the input arrays was modified by rmsd/superpose")
        outs.append((junk, r, np.array(t2.xyz, copy=True)))
    for junk, r, s in outs[1:]:
        ctx.check(_bits(r, outs[0][1]), "junk", "rmsd:depends-on-memory-outside-inputs",
                  f"md.rmsd differs bitwise when the memory around its inputs holds {junk} instead of NaN (N={case['n']}, N mod 4 = {case['n'] % 4})")
        ctx.check(_bits(s, outs[0][2]), "junk", "superpose:depends-on-memory-outside-inputs",
                  f"superpose differs bitwise when the memory around its inputs holds {junk} instead of NaN (N={case['n']})")
    _judge_rmsd(ctx, outs[0][1], prs, w, "rmsd:view-input")
    plain = _rmsd(wl, True)
    ctx.check(_bits(plain, outs[0][1]), "junk", "rmsd:view-input-differs-from-owned-input", "md.rmsd on a view into a larger buffer differs bitwise from the same data in its own array")


def _run_lprmsd(case, ctx):
    import mdtraj as md
    n = case["n"]
    if n > 300:
        case = dict(case, n=3 + n % 61)
        n = case["n"]
    w = _build(case, sel="all" if case["i"] % 2 else "same-sorted")
    if w.ai is not None and w.Y.shape[1] != w.X.shape[1]:
        return
    prs = _pairs(w)
    kw = {} if w.ai is None else {"atom_indices": w.ia}
    single = [[int(w.ia[int(w.rng.integers(0, n))])]]
    lp = md.lprmsd(_traj(w.X), _traj(w.Y), w.frame, permute_groups=single, **kw)
    ctx.observe("lprmsd", "singleton permute group")
    _judge_rmsd(ctx, lp, prs, w, "lprmsd:singleton-group", monitor="lprmsd")
    if case.get("block") == "wide":
        lp0 = md.lprmsd(_traj(w.X), _traj(w.Y), w.frame, permute_groups=single, parallel=False, **kw)
        ctx.check(_bits(lp, lp0), "parallel-bits", "lprmsd:parallel-vs-serial-differ", "md.lprmsd parallel=True and parallel=False differ bitwise")
    # planted permutation inside one group of a slightly perturbed, rigidly moved copy
    if n < 7:
        ctx.skip("lprmsd", "planted permutation needs >= 4 distinguishable atoms + a group of >= 2")
        return
    rng = w.rng
    scale = case["scale"]
    P = _structure(rng, n, "random", scale)
    k = int(rng.integers(2, min(6, n - 4) + 1))
    grp = np.sort(rng.permutation(n)[:k])
    dmin = min(np.linalg.norm(P[i] - P[j]) for i in grp for j in grp if i < j)
    rest = np.setdiff1d(np.arange(n), grp)
    sv = np.linalg.svd(P[rest] - P[rest].mean(0), compute_uv=False)
    noise = 1e-4 * scale
    if dmin < 1e3 * noise or sv[1] < 0.05 * sv[0] or sv[2] < 0.02 * sv[0]:
        ctx.skip("lprmsd", "planted permutation: group atoms not well separated or distinguishable atoms near-planar")
        return
    Q = (P + rng.normal(size=P.shape) * noise) @ common.random_rotation(rng) + rng.uniform(-1, 1, 3) * case["off_t"]
    perm = np.arange(n)
    perm[grp] = np.roll(grp, 1)
    Q32 = Q.astype(np.float32)
    P32 = P.astype(np.float32)
    lp = md.lprmsd(_traj(Q32[perm][None]), _traj(P32[None]), 0, permute_groups=[grp.tolist()])
    rr = md.rmsd(_traj(Q32[perm][None]), _traj(P32[None]), 0)
    p = ob.analyse(Q32, P32)
    B = p.bound(float(max(np.abs(Q32).max(), np.abs(P32).max())))
    ctx.observe("lprmsd", "planted permutation, group of %d" % k)
    l2 = float(lp[0]) ** 2
    pdis = ob.analyse(Q32[rest], P32[rest])  # step 1 of lprmsd aligns on the distinguishable atoms only
    mech = _classify_rotation(pdis) or _classify_rotation(p)
    if abs(l2 - p.msd) > B and mech:
        ctx.observe("finding." + mech, "lprmsd")
        ctx.violation("lprmsd", mech, f"lprmsd: planted permutation not undone (lprmsd^2 = {l2:.6g}, expected {p.msd:.6g}): the rotation on the "
                      f"{len(rest)} distinguishable atoms has cos(theta/2) = {pdis.w:.3g}, predicted |q|^2 = {pdis.qsqr:.3g}", N=n)
    elif abs(l2 - p.msd) > B:
        ctx.violation("lprmsd", "lprmsd:planted-permutation-not-undone", f"lprmsd^2 = {l2:.6g}; undoing the planted permutation gives {p.msd:.6g} "
                      f"(plain rmsd^2 of the permuted pair {float(rr[0]) ** 2:.6g}; bound {B:.3g})", N=n, group=grp)
    elif l2 > float(rr[0]) ** 2 + 2 * B:
        ctx.violation("lprmsd", "lprmsd:larger-than-rmsd", f"lprmsd^2 {l2:.6g} > rmsd^2 {float(rr[0]) ** 2:.6g}", N=n)
    else:
        ctx.ok("lprmsd", 2)
    # superpose=True moves the target onto the reference's *centred* frame; rigid and attaining (light)
    t = _traj(Q32[perm][None])
    md.lprmsd(t, _traj(P32[None]), 0, permute_groups=[grp.tolist()], superpose=True)
    res, _ = ob.rigid_fit(Q32[perm].astype(np.float64), t.xyz[0].astype(np.float64))
    e_atom = 0.5 * ob.DIST_C * geom.EPS32 * 2 * float(np.abs(Q32).max() + np.abs(t.xyz).max())
    ctx.check(res <= e_atom, "lprmsd", "lprmsd:superpose=True:not-a-proper-rigid-motion", f"lprmsd(superpose=True) residual of a proper rigid fit {res:.3g} > {e_atom:.3g}")


def _run_alignment(case, ctx):
    """mdtraj.geometry.alignment (pure numpy Kabsch / QCP used by compute_average_structure and by users directly)."""
    from mdtraj.geometry import alignment
    case = dict(case, nf=min(case["nf"], 4))
    w = _build(case)
    prs = _pairs(w)
    ref = w.Y[w.frame, w.ir].astype(np.float64)
    for f, p in enumerate(prs):
        mob = w.X[f, w.ia].astype(np.float64)
        if not p.in_domain:
            ctx.skip("alignment", "collinear or <3 atoms (outside the stated domain)")
            continue
        B = p.bound(_D(w, f))
        rk = float(alignment.rmsd_kabsch(mob.copy(), ref.copy())) ** 2
        if abs(rk - p.msd) > B:
            ctx.violation("alignment", "alignment.rmsd_kabsch:not-optimal-msd:" + ("above" if rk > p.msd else "below"),
                          f"alignment.rmsd_kabsch^2 = {rk:.9g}, minimum over proper rotations {p.msd:.9g} (bound {B:.3g}, N={p.n})", N=p.n)
        else:
            ctx.ok("alignment")
        try:
            rq = float(alignment.rmsd_qcp(mob.copy(), ref.copy())) ** 2
        except RuntimeError as e:  # scipy newton gave up (double root of the characteristic polynomial)
            ctx.skip("alignment", "alignment.rmsd_qcp: scipy.optimize.newton did not converge (RuntimeError), no value returned")
            ctx.observe("alignment.rmsd_qcp-newton-failed.kappa_decade", _decade(p.kappa()) if p.kappa() < 1 else "1e%d" % int(np.log10(p.kappa())))
            rq = None
        if rq is not None:
            # float64 Newton on the float64 polynomial: the same conditioning as the kernel, with eps64 noise
            if abs(rq - p.msd) > B:
                ctx.violation("alignment", "alignment.rmsd_qcp:not-optimal-msd:" + ("above" if rq > p.msd else "below"),
                              f"alignment.rmsd_qcp^2 = {rq:.9g}, minimum over proper rotations {p.msd:.9g} (bound {B:.3g}, N={p.n}, kappa={p.kappa():.3g})", N=p.n)
            else:
                ctx.ok("alignment")
        T = alignment.compute_transformation(mob.copy(), ref.copy())
        moved = T.transform(mob)
        allb = w.X[f].astype(np.float64)
        alla = T.transform(allb)
        got = ob.nofit_msd(moved, ref)
        e = 1e-9 * (1.0 + float(np.abs(allb).max()) + float(np.abs(ref).max()))
        if abs(got - p.msd) > B:
            ctx.violation("alignment", "alignment.compute_transformation:nofit-rmsd-not-the-minimum:" + ("above" if got > p.msd else "below"),
                          f"no-fit msd after alignment.compute_transformation(...).transform = {got:.9g}, minimum {p.msd:.9g} (bound {B:.3g}, N={p.n})", N=p.n)
        else:
            ctx.ok("alignment")
        res, _ = ob.rigid_fit(allb, alla)
        ctx.check(res <= e, "alignment", "alignment.Transformation:not-a-proper-rigid-motion",
                  f"Transformation.transform is not a proper rigid motion (rms residual {res:.3g} > {e:.3g})", N=p.n)
        m2 = alignment.transform(mob.copy(), ref.copy())
        ctx.check(np.shape(m2) == moved.shape and float(np.abs(m2 - moved).max()) <= e, "alignment", "alignment.transform:differs-from-compute_transformation",
                  "alignment.transform(mobile, target) differs from compute_transformation(mobile, target).transform(mobile)")


RUN = {"rmsf_opts": _run_rmsf_opts, "precentered_mixed": _run_precentered_mixed, "alignment": _run_alignment, "rmsd": _run_rmsd, "relations": _run_relations, "precentered": _run_precentered, "superpose": _run_superpose,
       "rmsf": _run_rmsf, "threads": _run_threads, "junk": _run_junk, "lprmsd": _run_lprmsd}


_LAST = None


def run_case(case, ctx):
    global _LAST
    _observe_case(case, ctx)
    _LAST = None
    try:
        RUN[case["kind"]](case, ctx)
    except TypeError as e:
        import traceback
        w = _LAST
        if "'slice' has no len()" in str(e) and w is not None and w.ai is None and w.rai is not None:
            tb = traceback.format_exc()
            fn = "superpose" if "in superpose" in tb else "rmsd"
            ctx.violation("selection.honoured", f"{fn}:ref_atom_indices-without-atom_indices:raises:TypeError",
                          f"md.{fn if fn == 'rmsd' else 'Trajectory.superpose'}(..., ref_atom_indices=<array>) with atom_indices left at None (all atoms) "
                          f"raises TypeError({e}) instead of pairing all target atoms with the given reference atoms")
        else:
            raise
