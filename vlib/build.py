"""Rebuild mdtraj's native extensions from /repo's *working tree* without touching /repo.

No Cython exists in this sandbox, so the Cython-generated translation units that sit next to the
.pyx files (git-ignored) are compiled together with the hand-written C/C++ sources taken from the
working tree.  Output goes to /verif/.build/<flavour>/<hash>/ and is loaded through vlib.overlay.

Flavours: plain (as setup.py), asan (ASan+UBSan), shim (links the pthread GOMP shim instead of libgomp).
"""
from __future__ import annotations

import fcntl
import hashlib
import json
import os
import shutil
import subprocess
import sys
import sysconfig
import tarfile
import time
from concurrent.futures import ThreadPoolExecutor

VERIF = os.path.dirname(os.path.dirname(os.path.abspath(__file__)))
REPO = os.environ.get("VERIF_REPO", "/repo")
BUILD_ROOT = os.path.join(VERIF, ".build")
GEN_TAR = os.path.join(VERIF, "native", "cython_gen.tar.xz")
GEN_MANIFEST = os.path.join(VERIF, "native", "cython_gen.json")
EXT_SUFFIX = sysconfig.get_config_var("EXT_SUFFIX")

M = "mdtraj"
# name -> dict(gen=generated TU (rel to repo), pyx=[cython sources], src=[hand written], inc=[...], lang, omp, macros)
EXTENSIONS = {
    "mdtraj.formats.xtc": dict(
        gen=f"{M}/formats/xtc/xtc.c", pyx=[f"{M}/formats/xtc/xtc.pyx", f"{M}/formats/xtc/xdrlib.pxd"],
        src=[f"{M}/formats/xtc/src/xdrfile.c", f"{M}/formats/xtc/src/xdr_seek.c", f"{M}/formats/xtc/src/xdrfile_xtc.c"],
        inc=[f"{M}/formats/xtc/include", f"{M}/formats/xtc"], lang="c", omp=False, macros=[]),
    "mdtraj.formats.trr": dict(
        gen=f"{M}/formats/xtc/trr.c", pyx=[f"{M}/formats/xtc/trr.pyx", f"{M}/formats/xtc/trrlib.pxd"],
        src=[f"{M}/formats/xtc/src/xdrfile.c", f"{M}/formats/xtc/src/xdr_seek.c", f"{M}/formats/xtc/src/xdrfile_trr.c"],
        inc=[f"{M}/formats/xtc/include", f"{M}/formats/xtc"], lang="c", omp=False, macros=[]),
    "mdtraj.formats.dcd": dict(
        gen=f"{M}/formats/dcd/dcd.c", pyx=[f"{M}/formats/dcd/dcd.pyx", f"{M}/formats/dcd/dcdlib.pxd"],
        src=[f"{M}/formats/dcd/src/dcdplugin.c"],
        inc=[f"{M}/formats/dcd/include", f"{M}/formats/dcd"], lang="c", omp=False, macros=[]),
    "mdtraj.formats.dtr": dict(
        gen=f"{M}/formats/dtr/dtr.cpp", pyx=[f"{M}/formats/dtr/dtr.pyx", f"{M}/formats/dtr/dtrlib.pxd"],
        src=[f"{M}/formats/dtr/src/dtrplugin.cxx"],
        inc=[f"{M}/formats/dtr/include", f"{M}/formats/dtr"], lang="c++", omp=False,
        macros=["DESRES_READ_TIMESTEP2=1"]),
    "mdtraj._rmsd": dict(
        gen=f"{M}/rmsd/_rmsd.cpp", pyx=[f"{M}/rmsd/_rmsd.pyx"],
        src=[f"{M}/rmsd/src/theobald_rmsd.cpp", f"{M}/rmsd/src/rotation.cpp", f"{M}/rmsd/src/center.cpp"],
        inc=[f"{M}/rmsd/include"], lang="c++", omp=True, macros=[]),
    "mdtraj._lprmsd": dict(
        gen=f"{M}/rmsd/_lprmsd.cpp", pyx=[f"{M}/rmsd/_lprmsd.pyx"],
        src=[f"{M}/rmsd/src/theobald_rmsd.cpp", f"{M}/rmsd/src/rotation.cpp", f"{M}/rmsd/src/center.cpp",
             f"{M}/rmsd/src/fancy_index.cpp", f"{M}/rmsd/src/Munkres.cpp", f"{M}/rmsd/src/euclidean_permutation.cpp"],
        inc=[f"{M}/rmsd/include"], lang="c++", omp=True, macros=[]),
    "mdtraj.geometry._geometry": dict(
        gen=f"{M}/geometry/src/_geometry.cpp",
        pyx=[f"{M}/geometry/src/_geometry.pyx", f"{M}/geometry/src/image_molecules.pxi"],
        src=[f"{M}/geometry/src/sasa.cpp", f"{M}/geometry/src/dssp.cpp", f"{M}/geometry/src/geometry.cpp"],
        inc=[f"{M}/geometry/include", f"{M}/geometry/src/kernels"], lang="c++", omp=True, macros=[]),
    "mdtraj.geometry.drid": dict(
        gen=f"{M}/geometry/drid.cpp", pyx=[f"{M}/geometry/drid.pyx"],
        src=[f"{M}/geometry/src/dridkernels.cpp", f"{M}/geometry/src/moments.cpp"],
        inc=[f"{M}/geometry/include"], lang="c++", omp=True, macros=[]),
    "mdtraj.geometry.neighbors": dict(
        gen=f"{M}/geometry/neighbors.cpp", pyx=[f"{M}/geometry/neighbors.pyx"],
        src=[f"{M}/geometry/src/neighbors.cpp"],
        inc=[f"{M}/geometry/include"], lang="c++", omp=True, macros=[]),
    "mdtraj.geometry.neighborlist": dict(
        gen=f"{M}/geometry/neighborlist.cpp", pyx=[f"{M}/geometry/neighborlist.pyx"],
        src=[f"{M}/geometry/src/neighborlist.cpp"],
        inc=[f"{M}/geometry/include"], lang="c++", omp=True, macros=[]),
}

BASE_FLAGS = ["-fPIC", "-msse2", "-mssse3", "-w", "-fno-strict-aliasing"]
FLAVOURS = {
    "plain": dict(cflags=["-O3", "-funroll-loops"], ldflags=[]),
    "asan": dict(
        cflags=["-O1", "-g", "-fno-omit-frame-pointer", "-fsanitize=address,undefined",
                "-fsanitize-recover=address,undefined", "-D_GLIBCXX_ASSERTIONS"],
        ldflags=["-fsanitize=address,undefined"]),
    "shim": dict(cflags=["-O3", "-funroll-loops"], ldflags=[]),
}


def _sha(path):
    h = hashlib.sha256()
    with open(path, "rb") as f:
        for blk in iter(lambda: f.read(1 << 20), b""):
            h.update(blk)
    return h.hexdigest()


def _headers(repo, incs):
    out = []
    for d in incs:
        p = os.path.join(repo, d)
        for root, _dirs, files in os.walk(p):
            for fn in sorted(files):
                if fn.endswith((".h", ".hpp", ".hxx", ".pxd", ".inc")):
                    out.append(os.path.join(root, fn))
    return sorted(out)


class StaleCython(Exception):
    pass


def load_gen_manifest():
    if os.path.exists(GEN_MANIFEST):
        with open(GEN_MANIFEST) as f:
            return json.load(f)
    return {}


def _gen_source(repo, name, ext, scratch):
    """Return path of the generated TU to compile: the working-tree one, or the committed fallback.

    Raises StaleCython when the .pyx no longer matches the generated TU we have."""
    man = load_gen_manifest().get(name, {})
    gen = os.path.join(repo, ext["gen"])
    pyx_now = {p: _sha(os.path.join(repo, p)) for p in ext["pyx"] if os.path.exists(os.path.join(repo, p))}
    pyx_changed = [p for p, h in pyx_now.items() if man.get("pyx", {}).get(p) not in (None, h)]
    if os.path.exists(gen):
        if pyx_changed and man.get("gen_sha") == _sha(gen):
            raise StaleCython(f"{', '.join(pyx_changed)} changed but {ext['gen']} was not regenerated "
                              f"(no Cython in this sandbox)")
        return gen
    # fallback: unpack the committed copy
    if pyx_changed:
        raise StaleCython(f"{', '.join(pyx_changed)} changed and no generated TU is present")
    dst = os.path.join(scratch, "gen")
    os.makedirs(dst, exist_ok=True)
    with tarfile.open(GEN_TAR) as tf:
        member = tf.getmember(ext["gen"])
        tf.extract(member, dst)
    return os.path.join(dst, ext["gen"])


def _ext_inputs(repo, name, ext, gen_path):
    files = [gen_path] + [os.path.join(repo, s) for s in ext["src"]] + _headers(repo, ext["inc"])
    # sources include each other occasionally (e.g. theobald_rmsd.cpp includes *_sse.h in include dirs)
    extra_dirs = {os.path.dirname(os.path.join(repo, s)) for s in ext["src"]}
    for d in sorted(extra_dirs):
        for fn in sorted(os.listdir(d)):
            if fn.endswith((".h", ".hpp", ".hxx")):
                files.append(os.path.join(d, fn))
    return sorted(set(files))


def _run(cmd, log):
    p = subprocess.run(cmd, stdout=subprocess.PIPE, stderr=subprocess.STDOUT, text=True)
    log.append((" ".join(cmd), p.returncode, p.stdout[-4000:]))
    if p.returncode != 0:
        raise RuntimeError("build failed: %s\n%s" % (" ".join(cmd), p.stdout[-4000:]))


def shim_lib(flavour_dir=None):
    """Compile native/gompshim.c -> libgompshim.so (cached)."""
    src = os.path.join(VERIF, "native", "gompshim.c")
    h = _sha(src)[:16]
    out = os.path.join(BUILD_ROOT, "shimlib", h, "libgompshim.so")
    if not os.path.exists(out):
        os.makedirs(os.path.dirname(out), exist_ok=True)
        tmp = out + ".%d.tmp" % os.getpid()
        subprocess.run(["gcc", "-O2", "-g", "-fPIC", "-shared", "-pthread", src, "-o", tmp], check=True)
        os.replace(tmp, out)
    return out


def build(flavour="plain", repo=None, only=None, verbose=False):
    """Build (or reuse) the overlay for `flavour`; returns dict(dir=..., stale={name: reason}, built=[...])."""
    repo = repo or REPO
    fl = FLAVOURS[flavour]
    py_inc = sysconfig.get_paths()["include"]
    import numpy
    np_inc = numpy.get_include()
    os.makedirs(BUILD_ROOT, exist_ok=True)
    lockf = open(os.path.join(BUILD_ROOT, ".lock"), "w")
    fcntl.flock(lockf, fcntl.LOCK_EX)
    try:
        scratch = os.path.join(BUILD_ROOT, "scratch.%d" % os.getpid())
        names = [n for n in EXTENSIONS if only is None or n in only]
        stale = {}
        prebuilt = {}
        plans = []
        shim = shim_lib() if flavour == "shim" else None
        for name in names:
            ext = EXTENSIONS[name]
            try:
                gen = _gen_source(repo, name, ext, scratch)
            except StaleCython as e:
                # The .pyx changed and its C was not regenerated (no Cython here).  If somebody rebuilt the extension in
                # place after editing the .pyx (binary newer than every Cython source), that binary is the working tree's
                # code for this module: use it as it is.  Otherwise the module cannot be brought up to date: stale.
                intree = os.path.join(repo, name.replace(".", "/") + EXT_SUFFIX)
                pyx_m = max(os.path.getmtime(os.path.join(repo, p)) for p in ext["pyx"] if os.path.exists(os.path.join(repo, p)))
                if os.path.exists(intree) and os.path.getmtime(intree) > pyx_m:
                    prebuilt[name] = intree
                else:
                    stale[name] = str(e)
                continue
            inputs = _ext_inputs(repo, name, ext, gen)
            h = hashlib.sha256()
            h.update(json.dumps([flavour, fl, BASE_FLAGS, ext["macros"], ext["omp"], name,
                                 _sha(shim) if shim else None]).encode())
            for f in inputs:
                h.update(os.path.relpath(f, repo).encode() if f.startswith(repo) else os.path.basename(f).encode())
                h.update(_sha(f).encode())
            plans.append((name, ext, gen, h.hexdigest()[:20]))
        # overall key
        allh = hashlib.sha256(json.dumps(sorted((n, k) for n, _, _, k in plans) + sorted((n, _sha(f)) for n, f in prebuilt.items())).encode()).hexdigest()[:20]
        outdir = os.path.join(BUILD_ROOT, flavour, allh)
        built = []
        log = []

        def one(plan):
            name, ext, gen, key = plan
            rel = name.replace(".", "/") + EXT_SUFFIX
            final = os.path.join(outdir, rel)
            if os.path.exists(final):
                return None
            cache = os.path.join(BUILD_ROOT, flavour, "ext", key + EXT_SUFFIX)
            if not os.path.exists(cache):
                objdir = os.path.join(scratch, name)
                os.makedirs(objdir, exist_ok=True)
                cc = "gcc" if ext["lang"] == "c" else "g++"
                std = [] if ext["lang"] == "c" else ["--std=c++11"]
                flags = BASE_FLAGS + fl["cflags"] + std + (["-fopenmp"] if ext["omp"] else [])
                flags += ["-D" + m for m in ext["macros"]]
                flags += ["-DNPY_NO_DEPRECATED_API=0"]
                incs = ["-I" + os.path.join(repo, d) for d in ext["inc"]] + ["-I" + py_inc, "-I" + np_inc]
                # a generated TU unpacked from the fallback archive still includes relative to its home dir
                incs.append("-I" + os.path.join(repo, os.path.dirname(ext["gen"])))
                objs = []
                for i, s in enumerate([gen] + [os.path.join(repo, s) for s in ext["src"]]):
                    o = os.path.join(objdir, "%d_%s.o" % (i, os.path.basename(s)))
                    # .c sources inside a C++ extension (none today) would need gcc; keep per-file choice
                    comp = "gcc" if s.endswith(".c") else "g++"
                    fstd = [] if s.endswith(".c") else ["--std=c++11"]
                    fflags = [f for f in flags if f != "--std=c++11"] + fstd
                    _run([comp, "-c", s, "-o", o] + fflags + incs, log)
                    objs.append(o)
                os.makedirs(os.path.dirname(cache), exist_ok=True)
                tmp = cache + ".%d.tmp" % os.getpid()
                ld = [cc, "-shared", "-o", tmp] + objs + fl["ldflags"]
                if ext["omp"]:
                    if flavour == "shim":
                        ld += [shim, "-Wl,-rpath," + os.path.dirname(shim)]
                    else:
                        ld += ["-fopenmp"]
                if ext["lang"] == "c":
                    ld += ["-lm"]
                _run(ld, log)
                os.replace(tmp, cache)
                built.append(name)
            os.makedirs(os.path.dirname(final), exist_ok=True)
            tmpf = final + ".%d.tmp" % os.getpid()
            shutil.copy2(cache, tmpf)
            os.replace(tmpf, final)
            return name

        t0 = time.time()
        with ThreadPoolExecutor(max_workers=min(11, os.cpu_count() or 4)) as ex:
            list(ex.map(one, plans))
        for n, f in prebuilt.items():
            dst = os.path.join(outdir, n.replace(".", "/") + EXT_SUFFIX)
            os.makedirs(os.path.dirname(dst), exist_ok=True)
            if not os.path.exists(dst):
                shutil.copy2(f, dst + ".tmp")
                os.replace(dst + ".tmp", dst)
        shutil.rmtree(scratch, ignore_errors=True)
        try:
            os.utime(outdir, None)
        except OSError:
            pass
        info = dict(dir=outdir, flavour=flavour, stale=stale, built=built, wall_s=round(time.time() - t0, 2),
                    modules=[n for n, _, _, _ in plans] + sorted(prebuilt), shim=shim,
                    prebuilt_in_tree_binaries_used=sorted(prebuilt))
        oj = os.path.join(outdir, "overlay.json")
        tmpj = oj + ".%d.tmp" % os.getpid()
        with open(tmpj, "w") as f:
            json.dump(info, f)
        os.replace(tmpj, oj)  # atomic: workers of concurrent checks read this file
        # prune old overlays of this flavour (keep the 3 most recent)
        _prune(os.path.join(BUILD_ROOT, flavour), keep=outdir)
        if verbose:
            print("build[%s]: %s built=%s stale=%s %.1fs" % (flavour, outdir, built, list(stale), info["wall_s"]))
        return info
    finally:
        fcntl.flock(lockf, fcntl.LOCK_UN)
        lockf.close()


def _prune(fdir, keep, n=12, min_age_s=6 * 3600):
    """Drop old overlays of a flavour. Only directories untouched for hours are candidates: several checks (and
    seeded-copy runs pointing at other trees) may be using different overlays at the same time."""
    try:
        now = time.time()
        ds = [os.path.join(fdir, d) for d in os.listdir(fdir) if d != "ext"]
        ds = [d for d in ds if os.path.isdir(d) and d != keep]
        ds.sort(key=os.path.getmtime, reverse=True)
        for d in ds[n:]:
            if now - os.path.getmtime(d) > min_age_s:
                shutil.rmtree(d, ignore_errors=True)
        ed = os.path.join(fdir, "ext")
        if os.path.isdir(ed):
            fs = sorted((os.path.join(ed, f) for f in os.listdir(ed)), key=os.path.getmtime, reverse=True)
            for f in fs[200:]:
                if now - os.path.getmtime(f) > min_age_s:
                    os.unlink(f)
    except OSError:
        pass


def snapshot_generated(repo=None):
    """Maintainer step (run once, results committed): record pyx/gen hashes and archive the generated TUs."""
    repo = repo or REPO
    man = {}
    os.makedirs(os.path.dirname(GEN_TAR), exist_ok=True)
    with tarfile.open(GEN_TAR, "w:xz") as tf:
        for name, ext in EXTENSIONS.items():
            gen = os.path.join(repo, ext["gen"])
            man[name] = dict(gen=ext["gen"], gen_sha=_sha(gen),
                             pyx={p: _sha(os.path.join(repo, p)) for p in ext["pyx"]
                                  if os.path.exists(os.path.join(repo, p))})
            tf.add(gen, arcname=ext["gen"])
    with open(GEN_MANIFEST, "w") as f:
        json.dump(man, f, indent=1, sort_keys=True)
    return man


if __name__ == "__main__":
    if len(sys.argv) > 1 and sys.argv[1] == "snapshot":
        print(json.dumps(snapshot_generated(), indent=1))
    else:
        fl = sys.argv[1] if len(sys.argv) > 1 else "plain"
        print(json.dumps(build(fl, verbose=True), indent=1))
