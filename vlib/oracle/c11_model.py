"""C11 helpers that are models, not verdicts.

`default_bond_order`  the order in which Trajectory.make_molecules_whole / image_molecules hand the topology's bonds to
                      the kernel when sorted_bonds is None, re-derived from their documentation ("sorted order":
                      stable sort on the first atom; Topology.add_bond stores the lower index first).
`simulate_traversal`  exact-arithmetic abstract run of a "for (a,b) in bonds: put b into the image next to a" walk on the
                      integer image labels the generator applied.  It is used ONLY to name the mechanism of an
                      already-established violation (is the split bond explained by the walk order alone?), never to
                      decide whether something is a violation.
`parent_first_bonds`  an independent parent-first orientation/order of the bond graph (BFS per molecule) used as the
                      explicit `sorted_bonds` argument in part of the workload.
"""
from __future__ import annotations

import numpy as np


def default_bond_order(top_bonds):
    """top_bonds: (nb,2) with lower index first, in Topology.bonds order -> stable sort by first atom."""
    tb = np.asarray(top_bonds, dtype=np.int64).reshape(-1, 2)
    if len(tb) == 0:
        return tb
    return tb[np.argsort(tb[:, 0], kind="stable")]


def simulate_traversal(order, shifts):
    """shifts (nf,na,3) integer image labels of the input; returns the labels after walking `order` where each step
    moves the second atom of the bond into the image of the first (valid when every bond is shorter than w_min/2)."""
    S = np.array(shifts, dtype=np.int64, copy=True)
    for a, b in np.asarray(order, dtype=np.int64).reshape(-1, 2):
        S[:, b] = S[:, a]
    return S


def traversal_forest(order, n_atoms):
    """parent of every atom in the forest the walk effectively builds (last bond that moves the atom), -1 for roots"""
    par = -np.ones(n_atoms, dtype=np.int64)
    for a, b in np.asarray(order, dtype=np.int64).reshape(-1, 2):
        par[b] = a
    return par


def parent_first_bonds(n_atoms, bonds, rng=None):
    """(nb,2) int32: every molecule traversed breadth-first from its lowest (or a random) atom; tree bonds come as
    (already placed atom, new atom) in visiting order, ring-closing bonds follow their molecule's tree bonds."""
    bonds = [tuple(int(x) for x in b) for b in np.asarray(bonds).reshape(-1, 2)]
    nb = [[] for _ in range(n_atoms)]
    for a, b in bonds:
        nb[a].append(b)
        nb[b].append(a)
    seen = np.zeros(n_atoms, bool)
    out = []
    starts = list(range(n_atoms))
    if rng is not None:
        starts = [int(x) for x in rng.permutation(n_atoms)]
    for s in starts:
        if seen[s] or not nb[s]:
            continue
        seen[s] = True
        queue = [s]
        used = set()
        closing = []
        q = 0
        while q < len(queue):
            a = queue[q]
            q += 1
            for b in nb[a]:
                e = (min(a, b), max(a, b))
                if e in used:
                    continue
                used.add(e)
                if not seen[b]:
                    seen[b] = True
                    queue.append(b)
                    out.append((a, b))
                else:
                    closing.append((a, b))
        out.extend(closing)
    return np.array(out, dtype=np.int32).reshape(-1, 2)
