"""C07 reference model (float64, written from definitions and documentation; imports nothing from mdtraj's
geometry code).

* unique_min_image: brute-force minimum image of bond vectors together with the margin to the runner-up image
  (the bond vector -- unlike the distance of C05 -- is only defined when the minimum image is unique).
* angle_ref / dihedral_ref: values plus the conditioning numbers the comparator needs.
* nerf: place an atom from internal coordinates (generator side; also used to pin the sign convention at bring-up).
* torsion matcher: phi/psi/omega/chi1..5 rows from the documented atom names, walking chains and residues directly.
"""
from __future__ import annotations

import itertools

import numpy as np

from vlib.oracle import geom

EPS32 = geom.EPS32

_SEARCH = np.array(list(itertools.product(range(-2, 3), repeat=3)), dtype=np.float64)  # (125,3)


def unique_min_image(d, B):
    """d (N,3) float64 raw displacements, B (3,3) rows = lattice vectors.
    Returns (vmin (N,3), dmin (N,), gap (N,)) with gap = |second shortest image| - |shortest image|."""
    d = np.asarray(d, np.float64).reshape(-1, 3)
    Br = geom.reduce_basis(B)
    frac = d @ np.linalg.inv(Br)
    base = d - np.round(frac) @ Br
    cand = base[:, None, :] + (_SEARCH @ Br)[None, :, :]  # (N,125,3)
    d2 = np.einsum("nki,nki->nk", cand, cand)
    order = np.argsort(d2, axis=1)
    i0, i1 = order[:, 0], order[:, 1]
    ar = np.arange(len(d))
    vmin = cand[ar, i0]
    dmin = np.sqrt(d2[ar, i0])
    gap = np.sqrt(d2[ar, i1]) - dmin
    return vmin, dmin, gap


def angle_ref(u, v):
    """angle in [0,pi] between bond vectors u, v (both starting at the middle atom); also cos and the lengths"""
    lu = np.linalg.norm(u, axis=-1)
    lv = np.linalg.norm(v, axis=-1)
    th = geom.angle_vec(u, v)
    return th, np.cos(th), lu, lv


def dihedral_ref(b1, b2, b3):
    """IUPAC torsion in (-pi,pi] from consecutive bond vectors b1=x1-x0, b2=x2-x1, b3=x3-x2, the two bond angles'
    sines (conditioning) and the bond lengths."""
    phi = geom.dihedral_vec(b1, b2, b3)
    l1 = np.linalg.norm(b1, axis=-1)
    l2 = np.linalg.norm(b2, axis=-1)
    l3 = np.linalg.norm(b3, axis=-1)
    th1 = geom.angle_vec(-b1, b2)  # bond angle at atom 1
    th2 = geom.angle_vec(-b2, b3)  # bond angle at atom 2
    return phi, th1, th2, l1, l2, l3


def wrap(x):
    """difference on the circle, in [-pi, pi]"""
    return (np.asarray(x, np.float64) + np.pi) % (2 * np.pi) - np.pi


def nerf(a, b, c, r, theta, phi):
    """Position d with |cd| = r, angle(b,c,d) = theta, IUPAC torsion(a,b,c,d) = phi."""
    bc = c - b
    bc = bc / np.linalg.norm(bc)
    n = np.cross(b - a, bc)
    nn = np.linalg.norm(n)
    if nn < 1e-12:  # a,b,c collinear: any perpendicular will do
        t = np.array([1.0, 0, 0]) if abs(bc[0]) < 0.9 else np.array([0, 1.0, 0])
        n = np.cross(t, bc)
        nn = np.linalg.norm(n)
    n = n / nn
    m = np.cross(n, bc)
    return c + r * (-np.cos(theta) * bc + np.sin(theta) * np.cos(phi) * m + np.sin(theta) * np.sin(phi) * n)


# --------------------------------------------------------------------------------------------------------------
# named torsions, from the documentation:
#   phi   C(i-1) - N(i)  - CA(i)   - C(i)
#   psi   N(i)   - CA(i) - C(i)    - N(i+1)
#   omega CA(i)  - C(i)  - N(i+1)  - CA(i+1)
#   chi1  N-CA-CB-{CG|CG1|SG|OG|OG1}                 (about CA-CB)
#   chi2  CA-CB-CG-{CD|CD1|OD1|ND1|SD}, CA-CB-CG1-CD1 (about CB-CG / CB-CG1)
#   chi3  CB-CG-CD-{NE|CE|OE1}, CB-CG-SD-CE          (ARG, LYS, GLN/GLU, MET)
#   chi4  CG-CD-NE-CZ, CG-CD-CE-NZ                   (ARG, LYS)
#   chi5  CD-NE-CZ-NH1                               (ARG)
BACKBONE = {
    "phi": ((-1, "C"), (0, "N"), (0, "CA"), (0, "C")),
    "psi": ((0, "N"), (0, "CA"), (0, "C"), (1, "N")),
    "omega": ((0, "CA"), (0, "C"), (1, "N"), (1, "CA")),
}
SIDECHAIN = {
    "chi1": [("N", "CA", "CB", x) for x in ("CG", "CG1", "SG", "OG", "OG1")],
    "chi2": [("CA", "CB", "CG", x) for x in ("CD", "CD1", "OD1", "ND1", "SD")] + [("CA", "CB", "CG1", "CD1")],
    "chi3": [("CB", "CG", "CD", x) for x in ("NE", "CE", "OE1")] + [("CB", "CG", "SD", "CE")],
    "chi4": [("CG", "CD", "NE", "CZ"), ("CG", "CD", "CE", "NZ")],
    "chi5": [("CD", "NE", "CZ", "NH1")],
}
TORSIONS = ["phi", "psi", "omega", "chi1", "chi2", "chi3", "chi4", "chi5"]
AMINO = {"ALA", "ARG", "ASN", "ASP", "CYS", "GLN", "GLU", "GLY", "HIS", "ILE", "LEU", "LYS", "MET", "PHE", "PRO",
         "SER", "THR", "TRP", "TYR", "VAL"}
# the same twenty amino acids under the names force fields give to their protonation / tautomer / disulfide states (AMBER,
# CHARMM, GROMOS naming; what topologies from prmtop / psf files and pdb2gmx / tleap output carry).  The torsions are
# documented by atom names only, so these residues have every named torsion a HIS / CYS / ASP / GLU / LYS residue has.
AMINO_STATE_NAMES = {"HIS": ["HID", "HIE", "HIP", "HSD", "HSE", "HSP"], "CYS": ["CYX", "CYM"], "ASP": ["ASH"], "GLU": ["GLH"], "LYS": ["LYN"]}
AMINO = AMINO | {v for vs in AMINO_STATE_NAMES.values() for v in vs}


def residue_table(topology):
    """[(chain position list)] -> list of chains, each a list of dicts(name, resSeq, atoms{name:[indices]})
    read through the public iteration API only (chains -> residues -> atoms)."""
    chains = []
    for ch in topology.chains:
        rl = []
        for res in ch.residues:
            atoms = {}
            for a in res.atoms:
                atoms.setdefault(a.name, []).append(a.index)
            rl.append(dict(name=res.name, resSeq=res.resSeq, atoms=atoms))
        chains.append(rl)
    return chains


def match_torsion(chains, which):
    """Returns (required, optional): lists of 4-tuples of atom indices in chain/residue order.

    required: every documented atom exists exactly once, all residues involved are standard amino acids,
              residues involved are neighbours in their chain's residue list with resSeq increasing by exactly 1,
              and (side chains) exactly one documented pattern fits the residue.
    optional: rows the documentation does not decide (sequence-number gap or repeat between list neighbours,
              non-standard residue names, an atom name occurring twice, several patterns fitting one residue)."""
    req, opt = [], []
    if which in BACKBONE:
        pat = BACKBONE[which]
        for rl in chains:
            for k in range(len(rl)):
                rows = [[]]
                ok = True
                decided = True
                used = set()
                for off, nm in pat:
                    j = k + off
                    if j < 0 or j >= len(rl) or nm not in rl[j]["atoms"]:
                        ok = False
                        break
                    used.add(j)
                    ids = rl[j]["atoms"][nm]
                    if len(ids) > 1:
                        decided = False
                    rows = [r + [i] for r in rows for i in ids]
                if not ok:
                    continue
                used = sorted(used)
                for j in used:
                    if rl[j]["name"] not in AMINO:
                        decided = False
                for j0, j1 in zip(used[:-1], used[1:]):
                    s0, s1 = rl[j0]["resSeq"], rl[j1]["resSeq"]
                    if s0 is None or s1 is None or s1 - s0 != 1:
                        decided = False
                (req if decided else opt).extend(tuple(r) for r in rows)
    else:
        pats = SIDECHAIN[which]
        for rl in chains:
            for res in rl:
                hits = []
                decided = res["name"] in AMINO
                for p in pats:
                    if all(nm in res["atoms"] for nm in p):
                        rows = [[]]
                        for nm in p:
                            ids = res["atoms"][nm]
                            if len(ids) > 1:
                                decided = False
                            rows = [r + [i] for r in rows for i in ids]
                        hits.extend(tuple(r) for r in rows)
                if len(hits) > 1:
                    decided = False
                (req if decided else opt).extend(hits)
    return req, opt
