"""Independent readers of the trajectory formats mdtraj writes (C01).

Every reader here is written from the format's specification with struct / text columns / netCDF4 / tables and never
imports mdtraj.  A reader returns a dict in the FILE'S NATIVE UNITS together with the unit names the file (or the
specification) declares:

    xyz      (n_frames, n_atoms, 3) float64 or None (compressed XTC frames are not decoded)
    lunit    'nanometers' | 'angstroms'         length unit of xyz / lengths / vectors
    time     (n_frames,) float64 or None        tunit 'picoseconds'
    lengths  (n_frames, 3) or None, angles (n_frames, 3) degrees or None        (formats that store a, b, c, alpha, beta, gamma)
    vectors  (n_frames, 3, 3) or None                                           (formats that store box vectors, rows a, b, c)
    extra    format specific observations (header counters, bounding boxes, b-factors ...)

Specifications used
  XTC/TRR  GROMACS xdrfile library layout (big-endian XDR): xtc frame = magic 1995, natoms, step, time(float), box(9 float),
           natoms, then 3*natoms raw floats if natoms <= 9, else precision(float), minint[3], maxint[3], smallidx, nbytes, opaque;
           trr frame = magic 1993, version string "GMX_trn_file", 13 size/counter ints, t and lambda (real), box, vir, pres, x, v, f
  DCD      CHARMM/X-PLOR/NAMD Fortran unformatted records: 84-byte 'CORD' header with icntrl[20] (NSET, ISTART, NSAVC, ..,
           icntrl[10] = extra (unit cell) block, icntrl[11] = 4th dimension, icntrl[19] = CHARMM version), title record,
           NATOM record, then per frame [48-byte cell record of 6 doubles A, gamma, B, beta, alpha, C], X, Y, Z records.
           NAMD / CHARMM>=25 store cos(gamma), cos(beta), cos(alpha); older files degrees: a reader takes the three values as
           cosines iff all lie in [-1, 1] (VMD, MDAnalysis, NAMD docs).
  mdcrd    AMBER trajectory: title line, then per frame 3N values FORMAT(10F8.3), optional box line FORMAT(3F8.3)
  rst7     AMBER restart: title, FORMAT(I5,5E15.7) natom,time; coordinates FORMAT(6F12.7); optional box FORMAT(6F12.7)
  xyz      natoms line, comment line, 'name x y z' lines (free format)
  gro      title (optional 't= <time>'), natoms, '%5d%-5s%5s%5d' + 3 fields whose width is the distance between the first
           two decimal points, box line of 3 or 9 free-format reals: v1(x) v2(y) v3(z) v1(y) v1(z) v2(x) v2(z) v3(x) v3(y)
  pdb      wwPDB 3.3 columns: CRYST1 7-15,16-24,25-33 (a,b,c) 34-40,41-47,48-54 (alpha,beta,gamma); ATOM/HETATM 31-38,39-46,
           47-54 (x,y,z) 55-60 occupancy 61-66 tempFactor; MODEL/ENDMDL delimit frames
  lammpstrj LAMMPS dump custom: ITEM: TIMESTEP / NUMBER OF ATOMS / BOX BOUNDS [xy xz yz] / ATOMS <columns>; triclinic
           bounds per the LAMMPS manual (Howto triclinic): xlo_bound = xlo + min(0,xy,xz,xy+xz) ... a = lx, b^2 = ly^2+xy^2,
           c^2 = lz^2+xz^2+yz^2, cos(alpha) = (xy*xz+ly*yz)/(b*c), cos(beta) = xz/c, cos(gamma) = xy/b
  h5       MDTraj HDF5 convention: /coordinates /time /cell_lengths /cell_angles each with a 'units' attribute
  nc/ncrst AMBER NetCDF conventions 1.0 (Conventions = AMBER / AMBERRESTART), variables with 'units' and optional scale_factor
"""
from __future__ import annotations

import gzip
import math
import re
import struct

import numpy as np


class LayoutError(Exception):
    """The bytes do not have the layout the specification prescribes (reason is a short mechanism name)."""

    def __init__(self, reason, detail=""):
        super().__init__(f"{reason}: {detail}" if detail else reason)
        self.reason = reason
        self.detail = detail


def _result(**kw):
    d = dict(xyz=None, lunit=None, time=None, lengths=None, angles=None, vectors=None, extra={})
    d.update(kw)
    return d


# ------------------------------------------------------------------------------------------------ XDR (xtc, trr)
class _Buf:
    def __init__(self, data):
        self.d = data
        self.p = 0

    def eof(self):
        return self.p >= len(self.d)

    def take(self, fmt):
        n = struct.calcsize(fmt)
        if self.p + n > len(self.d):
            raise LayoutError("truncated", f"need {n} bytes at offset {self.p}, file has {len(self.d)}")
        v = struct.unpack_from(fmt, self.d, self.p)
        self.p += n
        return v

    def skip(self, n):
        if self.p + n > len(self.d):
            raise LayoutError("truncated", f"need {n} bytes at offset {self.p}, file has {len(self.d)}")
        self.p += n

    def array(self, dtype, count):
        dt = np.dtype(dtype)
        n = dt.itemsize * count
        if self.p + n > len(self.d):
            raise LayoutError("truncated", f"need {n} bytes at offset {self.p}, file has {len(self.d)}")
        a = np.frombuffer(self.d, dtype=dt, count=count, offset=self.p)
        self.p += n
        return a


def parse_xtc(path):
    with open(path, "rb") as f:
        b = _Buf(f.read())
    frames = []
    while not b.eof():
        magic, natoms, step = b.take(">iii")
        if magic != 1995:
            raise LayoutError("xtc-magic", f"magic {magic} at frame {len(frames)}")
        (time,) = b.take(">f")
        box = b.array(">f4", 9).astype(np.float64).reshape(3, 3)
        (n2,) = b.take(">i")
        if n2 != natoms:
            raise LayoutError("xtc-natoms-mismatch", f"header {natoms}, coordinate block {n2}")
        fr = dict(natoms=natoms, step=step, time=float(np.float32(time)), box=box, xyz=None, compressed=False)
        if natoms <= 9:
            fr["xyz"] = b.array(">f4", 3 * natoms).astype(np.float64).reshape(natoms, 3)
        else:
            (prec,) = b.take(">f")
            mn = b.take(">iii")
            mx = b.take(">iii")
            (smallidx,) = b.take(">i")
            (nbytes,) = b.take(">i")
            if nbytes < 0:
                raise LayoutError("xtc-bytecount", str(nbytes))
            b.skip((nbytes + 3) // 4 * 4)
            fr.update(compressed=True, precision=float(prec), minint=mn, maxint=mx, smallidx=smallidx, nbytes=nbytes)
        frames.append(fr)
    if not frames:
        raise LayoutError("empty")
    nat = {f["natoms"] for f in frames}
    if len(nat) != 1:
        raise LayoutError("xtc-natoms-varies", str(sorted(nat)))
    comp = frames[0]["compressed"]
    xyz = None if comp else np.array([f["xyz"] for f in frames])
    extra = dict(steps=[f["step"] for f in frames], compressed=comp, n_frames=len(frames), n_atoms=frames[0]["natoms"])
    if comp:
        extra.update(precision=[f["precision"] for f in frames], minint=np.array([f["minint"] for f in frames]),
                     maxint=np.array([f["maxint"] for f in frames]))
    return _result(xyz=xyz, lunit="nanometers", time=np.array([f["time"] for f in frames]),
                   vectors=np.array([f["box"] for f in frames]), extra=extra)


def parse_trr(path):
    with open(path, "rb") as f:
        b = _Buf(f.read())
    X, T, B, steps, lam = [], [], [], [], []
    has_v = has_f = False
    while not b.eof():
        magic, slen = b.take(">ii")
        if magic != 1993:
            raise LayoutError("trr-magic", f"magic {magic} at frame {len(X)}")
        (n,) = b.take(">i")
        s = bytes(b.array("S1", (n + 3) // 4 * 4))[:n]
        if not s.startswith(b"GMX_trn_file"):
            raise LayoutError("trr-version-string", repr(s))
        ir, e, box_size, vir, pres, top, sym, x_size, v_size, f_size, natoms, step, nre = b.take(">13i")
        if box_size:
            rs = box_size // 9
        elif x_size and natoms:
            rs = x_size // (3 * natoms)
        else:
            raise LayoutError("trr-no-real-size")
        if rs not in (4, 8):
            raise LayoutError("trr-real-size", str(rs))
        real = ">f4" if rs == 4 else ">f8"
        t, l = b.array(real, 2).astype(np.float64)
        box = None
        if box_size:
            if box_size != 9 * rs:
                raise LayoutError("trr-box-size", str(box_size))
            box = b.array(real, 9).astype(np.float64).reshape(3, 3)
        b.skip(vir + pres)
        b.skip(ir + e + top + sym)
        if x_size != 3 * natoms * rs:
            raise LayoutError("trr-x-size", f"x_size {x_size} for {natoms} atoms of {rs} bytes")
        x = b.array(real, 3 * natoms).astype(np.float64).reshape(natoms, 3)
        b.skip(v_size + f_size)
        has_v |= bool(v_size)
        has_f |= bool(f_size)
        X.append(x)
        T.append(t)
        B.append(box)
        steps.append(step)
        lam.append(l)
    if not X:
        raise LayoutError("empty")
    if len({x.shape for x in X}) != 1:
        raise LayoutError("trr-natoms-varies")
    if any(bx is None for bx in B) and not all(bx is None for bx in B):
        raise LayoutError("trr-box-in-some-frames-only")
    return _result(xyz=np.array(X), lunit="nanometers", time=np.array(T), vectors=None if B[0] is None else np.array(B),
                   extra=dict(steps=steps, lambdas=lam, has_v=has_v, has_f=has_f, n_frames=len(X), n_atoms=X[0].shape[0]))


# ------------------------------------------------------------------------------------------------ DCD
def parse_dcd(path):
    with open(path, "rb") as f:
        data = f.read()
    if len(data) < 92:
        raise LayoutError("truncated")
    en = "<" if struct.unpack_from("<i", data, 0)[0] == 84 else ">"
    b = _Buf(data)

    def rec():
        (n,) = b.take(en + "i")
        if n < 0:
            raise LayoutError("dcd-record-length", str(n))
        start = b.p
        b.skip(n)
        (m,) = b.take(en + "i")
        if m != n:
            raise LayoutError("dcd-record-markers-differ", f"{n} vs {m}")
        return data[start:start + n]

    h = rec()
    if len(h) != 84 or h[:4] != b"CORD":
        raise LayoutError("dcd-header", repr(h[:8]))
    ic = list(struct.unpack_from(en + "20i", h, 4))
    (delta,) = struct.unpack_from(en + "f", h, 4 + 9 * 4)
    nset, istart, nsavc = ic[0], ic[1], ic[2]
    has_cell, has_4d, version, nfixed = bool(ic[10]), bool(ic[11]), ic[19], ic[8]
    t = rec()
    (ntitle,) = struct.unpack_from(en + "i", t, 0)
    if len(t) != 4 + 80 * ntitle:
        raise LayoutError("dcd-title-record", f"length {len(t)} for NTITLE {ntitle}")
    n = rec()
    if len(n) != 4:
        raise LayoutError("dcd-natom-record")
    (natoms,) = struct.unpack(en + "i", n)
    if nfixed:
        raise LayoutError("dcd-fixed-atoms-not-supported")
    X, C = [], []
    while not b.eof():
        if has_cell:
            c = rec()
            if len(c) != 48:
                raise LayoutError("dcd-cell-record-length", str(len(c)))
            C.append(np.frombuffer(c, dtype=en + "f8").astype(np.float64))
        xyz = []
        for ax in range(3):
            r = rec()
            if len(r) != 4 * natoms:
                raise LayoutError("dcd-coordinate-record-length", f"{len(r)} for {natoms} atoms")
            xyz.append(np.frombuffer(r, dtype=en + "f4").astype(np.float64))
        if has_4d:
            rec()
        X.append(np.stack(xyz, axis=1))
    lengths = angles = None
    raw = None
    if has_cell:
        raw = np.array(C)
        lengths = raw[:, [0, 2, 5]]
        three = raw[:, [4, 3, 1]]  # alpha, beta, gamma slots
        angles = np.empty_like(three)
        for i, row in enumerate(three):
            if np.all(np.abs(row) <= 1.0):
                angles[i] = np.degrees(np.arccos(row))
            else:
                angles[i] = row
    return _result(xyz=np.array(X) if X else np.zeros((0, natoms, 3)), lunit="angstroms", lengths=lengths, angles=angles,
                   extra=dict(nset=nset, istart=istart, nsavc=nsavc, delta=float(delta), version=version, endian=en, raw_cell=raw,
                              n_frames=len(X), n_atoms=natoms))


# ------------------------------------------------------------------------------------------------ text helpers
def _lines(path):
    if str(path).endswith(".gz"):
        with open(path, "rb") as f:
            if f.read(2) != b"\x1f\x8b":
                raise LayoutError("not-gzip", "a .gz file must start with the gzip magic 1f 8b")
        with gzip.open(path, "rt") as f:
            return f.read().split("\n")
    with open(path) as f:
        return f.read().split("\n")


def _strip_trailing_empty(lines):
    while lines and lines[-1] == "":
        lines = lines[:-1]
    return lines


def _fortran_real(field, what):
    """A Fortran Fw.d input field: blanks are not significant (BLANK='NULL'); an all-blank field is 0."""
    s = field.replace(" ", "")
    if s == "":
        return 0.0
    try:
        return float(s)
    except ValueError:
        raise LayoutError("unparsable-field", f"{what}: {field!r}")


def _strict_real(field, what):
    """A C-style fixed column: optional leading/trailing blanks around ONE number."""
    try:
        return float(field)
    except ValueError:
        raise LayoutError("unparsable-field", f"{what}: {field!r}")


# ------------------------------------------------------------------------------------------------ AMBER mdcrd
def parse_mdcrd(path, n_atoms, has_box):
    lines = _strip_trailing_empty(_lines(path))
    if not lines:
        raise LayoutError("empty")
    body = lines[1:]
    n3 = 3 * n_atoms
    lpf = (n3 + 9) // 10
    per = lpf + (1 if has_box else 0)
    if len(body) % per:
        raise LayoutError("mdcrd-line-count", f"{len(body)} lines are not a multiple of {per} (n_atoms {n_atoms}, box {has_box})")
    nf = len(body) // per
    X, Lfix, Ltok = [], [], []
    for f in range(nf):
        blk = body[f * per:(f + 1) * per]
        vals = []
        for li, line in enumerate(blk[:lpf]):
            want = 10 if li < lpf - 1 else n3 - 10 * (lpf - 1)
            if len(line) != 8 * want:
                raise LayoutError("mdcrd-line-width", f"coordinate line has {len(line)} characters, 10F8.3 needs {8 * want}")
            vals.extend(_strict_real(line[8 * j:8 * j + 8], "10F8.3 field") for j in range(want))
        X.append(np.array(vals).reshape(n_atoms, 3))
        if has_box:
            line = blk[lpf]
            tok = line.split()
            Ltok.append([float(x) for x in tok] if len(tok) == 3 else None)
            try:
                # FORMAT(3F8.3): a Fortran / fixed-column reader takes columns 1-8, 9-16, 17-24 and ignores the rest of the record
                Lfix.append([_fortran_real(line[8 * j:8 * j + 8], "3F8.3 box field") for j in range(3)])
            except LayoutError:
                Lfix.append(None)
    ex = dict(n_frames=nf, n_atoms=n_atoms, box_tokens=Ltok, box_fixed_columns=Lfix)
    lengths = None
    if has_box:
        # whitespace tokens where the line has separators (what VMD / mdtraj write and read), else the FORMAT(3F8.3) columns
        best = [t if t is not None else f for t, f in zip(Ltok, Lfix)]
        if any(x is None for x in best):
            raise LayoutError("mdcrd-box-line", "box line holds three numbers neither as tokens nor as 3F8.3 columns")
        lengths = np.array(best, dtype=np.float64)
    return _result(xyz=np.array(X), lunit="angstroms", lengths=lengths, angles=None if lengths is None else np.full_like(lengths, 90.0),
                   extra=ex)


# ------------------------------------------------------------------------------------------------ AMBER restart
def parse_rst7(path):
    lines = _strip_trailing_empty(_lines(path))
    if len(lines) < 3:
        raise LayoutError("rst7-too-short")
    l2 = lines[1]
    # FORMAT(I5,5E15.7); AMBER itself widens the count to I6 / I7 once it no longer fits (>= 100000 / >= 1000000 atoms), and a
    # line is 3 (count only) or 15 (count + time) characters longer than the count field, so the width follows from the
    # line length
    w = 5
    for cand in (6, 7, 8):
        if len(l2) in (cand, cand + 15) and l2[:cand].strip().isdigit() and len(l2[:cand].strip()) == cand:
            w = cand
    try:
        natoms = int(l2[0:w])
    except ValueError:
        raise LayoutError("rst7-natom-field", repr(l2[:20]))
    time = None
    if len(l2) > w:
        if len(l2) < w + 15:
            raise LayoutError("rst7-time-field-width", repr(l2))
        time = _strict_real(l2[w:w + 15], "E15.7 time")
    lpf = (natoms + 1) // 2
    body = lines[2:]
    if len(body) == lpf:
        has_box = False
    elif len(body) == lpf + 1:
        has_box = True
    else:
        raise LayoutError("rst7-line-count", f"{len(body)} lines after the header for {natoms} atoms (no velocities expected)")
    vals = []
    for li in range(lpf):
        line = body[li]
        want = 6 if (li < lpf - 1 or natoms % 2 == 0) else 3
        if len(line) != 12 * want:
            raise LayoutError("rst7-line-width", f"coordinate line has {len(line)} characters, 6F12.7 needs {12 * want}")
        vals.extend(_strict_real(line[12 * j:12 * j + 12], "6F12.7 field") for j in range(want))
    xyz = np.array(vals).reshape(1, natoms, 3)
    lengths = angles = None
    if has_box:
        line = body[lpf]
        if len(line) != 72:
            raise LayoutError("rst7-box-line-width", f"{len(line)} characters, 6F12.7 needs 72")
        v = [_strict_real(line[12 * j:12 * j + 12], "6F12.7 box field") for j in range(6)]
        lengths = np.array([v[:3]])
        angles = np.array([v[3:]])
    return _result(xyz=xyz, lunit="angstroms", time=None if time is None else np.array([time]), lengths=lengths, angles=angles,
                   extra=dict(n_frames=1, n_atoms=natoms))


# ------------------------------------------------------------------------------------------------ xyz
def parse_xyz(path):
    lines = _strip_trailing_empty(_lines(path))
    i, X, names = 0, [], []
    while i < len(lines):
        try:
            n = int(lines[i].split()[0])
        except (ValueError, IndexError):
            raise LayoutError("xyz-count-line", repr(lines[i][:40]))
        if i + 2 + n > len(lines):
            raise LayoutError("truncated")
        fr, nm = [], []
        for line in lines[i + 2:i + 2 + n]:
            tok = line.split()
            if len(tok) < 4:
                raise LayoutError("xyz-atom-line", repr(line[:60]))
            try:
                fr.append([float(tok[1]), float(tok[2]), float(tok[3])])
            except ValueError:
                raise LayoutError("xyz-atom-line", repr(line[:60]))
            nm.append(tok[0])
        X.append(fr)
        names.append(nm)
        i += 2 + n
    if not X:
        raise LayoutError("empty")
    if len({len(x) for x in X}) != 1:
        raise LayoutError("xyz-natoms-varies")
    return _result(xyz=np.array(X, dtype=np.float64), lunit="angstroms", extra=dict(n_frames=len(X), n_atoms=len(X[0]), names=names[0]))


# ------------------------------------------------------------------------------------------------ gro
_C_FLOAT = re.compile(r"\s*([+-]?(?:\d+\.?\d*|\.\d+)(?:[eE][+-]?\d+)?)")


def parse_gro(path):
    lines = _strip_trailing_empty(_lines(path))
    i, X, T, B, widths = 0, [], [], [], []
    while i < len(lines):
        title = lines[i]
        if i + 1 >= len(lines):
            raise LayoutError("truncated")
        try:
            n = int(lines[i + 1].strip())
        except ValueError:
            raise LayoutError("gro-count-line", repr(lines[i + 1][:40]))
        if i + 3 + n > len(lines):
            raise LayoutError("truncated")
        t = None
        k = title.rfind("t=")
        if k >= 0:
            m = _C_FLOAT.match(title[k + 2:])  # what sscanf("%lf") accepts
            if m is None:
                raise LayoutError("gro-time-field", repr(title[k:k + 30]))
            t = float(m.group(1))
        fr = []
        w = None
        for line in lines[i + 2:i + 2 + n]:
            if w is None:
                p1 = line.find(".", 20)
                p2 = line.find(".", p1 + 1) if p1 >= 0 else -1
                if p1 < 0 or p2 < 0:
                    raise LayoutError("gro-no-decimal-points", repr(line[:60]))
                w = p2 - p1
            if len(line) < 20 + 3 * w:
                raise LayoutError("gro-atom-line-short", repr(line[:70]))
            if len(line.rstrip()) > 20 + 3 * w and len(line.rstrip()) != 20 + 6 * w:
                raise LayoutError("gro-atom-line-width", f"{len(line.rstrip())} characters, position fields of width {w} end at {20 + 3 * w}")
            fr.append([_strict_real(line[20 + j * w:20 + (j + 1) * w], "gro position field") for j in range(3)])
        # free format reals, read the way sscanf("%lf%lf%lf...") does (GROMACS itself writes '%10.5f' fields that may touch)
        bl, pos, tok = lines[i + 2 + n], 0, []
        while True:
            m = _C_FLOAT.match(bl, pos)
            if m is None:
                break
            tok.append(float(m.group(1)))
            pos = m.end()
        if len(tok) not in (3, 9) or bl[pos:].strip():
            raise LayoutError("gro-box-line", repr(bl[:95]))
        bv = tok + [0.0] * (9 - len(tok))
        B.append([[bv[0], bv[3], bv[4]], [bv[5], bv[1], bv[6]], [bv[7], bv[8], bv[2]]])
        X.append(fr)
        T.append(t)
        widths.append(w)
        i += 3 + n
    if not X:
        raise LayoutError("empty")
    if len({len(x) for x in X}) != 1:
        raise LayoutError("gro-natoms-varies")
    time = None if any(t is None for t in T) else np.array(T, dtype=np.float64)
    return _result(xyz=np.array(X, dtype=np.float64), lunit="nanometers", time=time, vectors=np.array(B, dtype=np.float64),
                   extra=dict(n_frames=len(X), n_atoms=len(X[0]), field_width=widths))


# ------------------------------------------------------------------------------------------------ pdb
def parse_pdb(path):
    lines = _strip_trailing_empty(_lines(path))
    cryst = []
    models, cur, in_model, n_model_rec, n_ter = [], None, False, 0, 0
    bf, occ, serials = [], [], []
    curb = None
    for line in lines:
        rec = line[:6]
        if rec == "CRYST1":
            if len(line) < 54:
                raise LayoutError("pdb-cryst1-short", repr(line))
            cryst.append([_strict_real(line[6:15], "CRYST1 a"), _strict_real(line[15:24], "CRYST1 b"), _strict_real(line[24:33], "CRYST1 c"),
                          _strict_real(line[33:40], "CRYST1 alpha"), _strict_real(line[40:47], "CRYST1 beta"), _strict_real(line[47:54], "CRYST1 gamma")])
        elif rec == "MODEL ":
            if in_model:
                raise LayoutError("pdb-nested-model")
            in_model = True
            n_model_rec += 1
            cur, curb = [], []
        elif rec == "ENDMDL":
            if not in_model:
                raise LayoutError("pdb-endmdl-without-model")
            models.append(cur)
            bf.append(curb)
            cur, curb, in_model = None, None, False
        elif rec in ("ATOM  ", "HETATM"):
            if len(line) < 54:
                raise LayoutError("pdb-atom-line-short", repr(line))
            if len(line) != 80:
                raise LayoutError("pdb-atom-line-width", f"{len(line)} characters")
            if cur is None:
                if models:
                    raise LayoutError("pdb-atoms-after-endmdl-outside-model")
                cur, curb = [], []
            cur.append([_strict_real(line[30:38], "x 31-38"), _strict_real(line[38:46], "y 39-46"), _strict_real(line[46:54], "z 47-54")])
            curb.append(_strict_real(line[60:66], "tempFactor 61-66"))
            if len(models) == 0:
                occ.append(_strict_real(line[54:60], "occupancy 55-60"))
                serials.append(line[6:11])
        elif rec[:3] == "TER":
            n_ter += 1
    if cur is not None and not in_model:
        models.append(cur)
        bf.append(curb)
    elif in_model:
        raise LayoutError("pdb-model-not-closed")
    if not models:
        raise LayoutError("empty")
    if len({len(m) for m in models}) != 1:
        raise LayoutError("pdb-natoms-varies", str([len(m) for m in models][:6]))
    lengths = angles = None
    if cryst:
        c = np.array(cryst, dtype=np.float64)
        lengths, angles = c[:, :3], c[:, 3:]
    return _result(xyz=np.array(models, dtype=np.float64), lunit="angstroms", lengths=lengths, angles=angles,
                   extra=dict(n_frames=len(models), n_atoms=len(models[0]), n_cryst1=len(cryst), n_model_records=n_model_rec,
                              n_ter=n_ter, bfactors=np.array(bf, dtype=np.float64), occupancy=occ))


# ------------------------------------------------------------------------------------------------ lammpstrj
def parse_lammpstrj(path):
    lines = _strip_trailing_empty(_lines(path))
    i, X, L, A, steps = 0, [], [], [], []
    while i < len(lines):
        if not lines[i].startswith("ITEM: TIMESTEP"):
            raise LayoutError("lammps-expected-timestep", repr(lines[i][:40]))
        try:
            steps.append(int(lines[i + 1]))
            if not lines[i + 2].startswith("ITEM: NUMBER OF ATOMS"):
                raise LayoutError("lammps-expected-number-of-atoms", repr(lines[i + 2][:40]))
            n = int(lines[i + 3])
            hb = lines[i + 4].split()
            if hb[:3] != ["ITEM:", "BOX", "BOUNDS"]:
                raise LayoutError("lammps-expected-box-bounds", repr(lines[i + 4][:60]))
            tri = hb[3:6] == ["xy", "xz", "yz"]
            rows = [[float(x) for x in lines[i + 5 + k].split()] for k in range(3)]
        except (IndexError, ValueError) as e:
            raise LayoutError("lammps-header", repr(e))
        if tri:
            if any(len(r) != 3 for r in rows):
                raise LayoutError("lammps-triclinic-bounds", str(rows))
            (xlb, xhb, xy), (ylb, yhb, xz), (zlb, zhb, yz) = rows
            xlo = xlb - min(0.0, xy, xz, xy + xz)
            xhi = xhb - max(0.0, xy, xz, xy + xz)
            ylo = ylb - min(0.0, yz)
            yhi = yhb - max(0.0, yz)
            lx, ly, lz = xhi - xlo, yhi - ylo, zhb - zlb
            a = lx
            bb = math.sqrt(ly * ly + xy * xy)
            c = math.sqrt(lz * lz + xz * xz + yz * yz)
            try:
                al = math.degrees(math.acos((xy * xz + ly * yz) / (bb * c)))
                be = math.degrees(math.acos(xz / c))
                ga = math.degrees(math.acos(xy / bb))
            except (ValueError, ZeroDivisionError):
                raise LayoutError("lammps-box-not-a-cell", str(rows))
            L.append([a, bb, c])
            A.append([al, be, ga])
        else:
            if any(len(r) != 2 for r in rows):
                raise LayoutError("lammps-orthogonal-bounds", str(rows))
            L.append([rows[k][1] - rows[k][0] for k in range(3)])
            A.append([90.0, 90.0, 90.0])
        hdr = lines[i + 8].split()
        if hdr[:2] != ["ITEM:", "ATOMS"]:
            raise LayoutError("lammps-expected-atoms", repr(lines[i + 8][:60]))
        cols = {h: k for k, h in enumerate(hdr[2:])}
        for trio in (("x", "y", "z"), ("xu", "yu", "zu")):
            if all(t in cols for t in trio):
                break
        else:
            raise LayoutError("lammps-no-unscaled-coordinates", str(hdr))
        if "id" not in cols:
            raise LayoutError("lammps-no-id-column")
        if i + 9 + n > len(lines):
            raise LayoutError("truncated")
        fr = np.full((n, 3), np.nan)
        for line in lines[i + 9:i + 9 + n]:
            tok = line.split()
            try:
                idx = int(tok[cols["id"]])
                fr[idx - 1] = [float(tok[cols[t]]) for t in trio]
            except (ValueError, IndexError):
                raise LayoutError("lammps-atom-line", repr(line[:60]))
        if np.isnan(fr).any():
            raise LayoutError("lammps-missing-atom-ids")
        X.append(fr)
        i += 9 + n
    if not X:
        raise LayoutError("empty")
    if len({x.shape for x in X}) != 1:
        raise LayoutError("lammps-natoms-varies")
    return _result(xyz=np.array(X), lunit="angstroms", lengths=np.array(L), angles=np.array(A),
                   extra=dict(n_frames=len(X), n_atoms=X[0].shape[0], steps=steps))


# ------------------------------------------------------------------------------------------------ HDF5 / NetCDF
_LUNITS = {"nanometers": "nanometers", "nanometer": "nanometers", "nm": "nanometers",
           "angstroms": "angstroms", "angstrom": "angstroms"}
_TUNITS = {"picoseconds": 1.0, "picosecond": 1.0, "ps": 1.0, "femtoseconds": 1e-3, "femtosecond": 1e-3, "nanoseconds": 1e3, "nanosecond": 1e3}
_AUNITS = {"degrees": 1.0, "degree": 1.0, "radians": 180.0 / math.pi, "radian": 180.0 / math.pi}


def _s(x):
    if isinstance(x, bytes):
        return x.decode()
    return str(x)


def parse_h5(path):
    import tables
    with tables.open_file(str(path), "r") as h:
        root = h.root
        if "coordinates" not in root:
            raise LayoutError("h5-no-coordinates")

        def field(name):
            if name not in root:
                return None, None
            node = getattr(root, name)
            if "units" not in node.attrs:
                raise LayoutError("h5-no-units-attribute", name)
            return np.array(node.read(), dtype=np.float64), _s(node.attrs["units"])
        xyz, ux = field("coordinates")
        t, ut = field("time")
        L, ul = field("cell_lengths")
        A, ua = field("cell_angles")
        conv = _s(root._v_attrs.conventions) if "conventions" in root._v_attrs else None
    if ux not in _LUNITS:
        raise LayoutError("h5-unknown-length-unit", ux)
    lunit = _LUNITS[ux]
    if L is not None:
        if ul not in _LUNITS:
            raise LayoutError("h5-unknown-length-unit", ul)
        if _LUNITS[ul] != lunit:
            L = L * (10.0 if lunit == "angstroms" else 0.1)
    if t is not None:
        if ut not in _TUNITS:
            raise LayoutError("h5-unknown-time-unit", ut)
        t = t * _TUNITS[ut]
    if A is not None:
        if ua not in _AUNITS:
            raise LayoutError("h5-unknown-angle-unit", ua)
        A = A * _AUNITS[ua]
    return _result(xyz=xyz, lunit=lunit, time=t, lengths=L, angles=A,
                   extra=dict(n_frames=xyz.shape[0], n_atoms=xyz.shape[1], conventions=conv, units=dict(coordinates=ux, time=ut, cell_lengths=ul, cell_angles=ua)))


def _ncvar(ds, name, kinds):
    if name not in ds.variables:
        return None, None
    v = ds.variables[name]
    v.set_auto_maskandscale(False)
    a = np.array(v[...], dtype=np.float64)
    if "scale_factor" in v.ncattrs():
        a = a * float(v.getncattr("scale_factor"))
    if "units" not in v.ncattrs():
        raise LayoutError("nc-no-units-attribute", name)
    u = _s(v.getncattr("units"))
    if u not in kinds:
        raise LayoutError("nc-unknown-unit", f"{name}: {u}")
    return a, u


def parse_nc(path, restart=False):
    import netCDF4
    ds = netCDF4.Dataset(str(path), "r")
    try:
        conv = _s(ds.getncattr("Conventions")) if "Conventions" in ds.ncattrs() else None
        want = "AMBERRESTART" if restart else "AMBER"
        if conv is None or want not in conv.replace(",", " ").split():
            raise LayoutError("nc-conventions", f"{conv!r}, expected {want}")
        xyz, ux = _ncvar(ds, "coordinates", _LUNITS)
        if xyz is None:
            raise LayoutError("nc-no-coordinates")
        dims = ds.variables["coordinates"].dimensions
        if dims != (("atom", "spatial") if restart else ("frame", "atom", "spatial")):
            raise LayoutError("nc-coordinates-dimensions", str(dims))
        t, ut = _ncvar(ds, "time", _TUNITS)
        L, ul = _ncvar(ds, "cell_lengths", _LUNITS)
        A, ua = _ncvar(ds, "cell_angles", _AUNITS)
    finally:
        ds.close()
    lunit = _LUNITS[ux]
    if restart:
        xyz = xyz[None]
        t = None if t is None else np.atleast_1d(t).reshape(-1)[:1]
        L = None if L is None else L.reshape(1, 3)
        A = None if A is None else A.reshape(1, 3)
    if L is not None and _LUNITS[ul] != lunit:
        L = L * (10.0 if lunit == "angstroms" else 0.1)
    if t is not None:
        t = t * _TUNITS[ut]
    if A is not None:
        A = A * _AUNITS[ua]
    return _result(xyz=xyz, lunit=lunit, time=t, lengths=L, angles=A,
                   extra=dict(n_frames=xyz.shape[0], n_atoms=xyz.shape[1], conventions=conv, units=dict(coordinates=ux, time=ut, cell_lengths=ul, cell_angles=ua)))


def parse(fmt, path, n_atoms=None, has_box=None):
    """fmt is the canonical format name (aliases resolved by the caller)."""
    if fmt == "xtc":
        return parse_xtc(path)
    if fmt == "trr":
        return parse_trr(path)
    if fmt == "dcd":
        return parse_dcd(path)
    if fmt == "mdcrd":
        return parse_mdcrd(path, n_atoms, has_box)
    if fmt == "rst7":
        return parse_rst7(path)
    if fmt in ("xyz", "xyz.gz"):
        return parse_xyz(path)
    if fmt == "gro":
        return parse_gro(path)
    if fmt in ("pdb", "pdb.gz"):
        return parse_pdb(path)
    if fmt == "lammpstrj":
        return parse_lammpstrj(path)
    if fmt == "h5":
        return parse_h5(path)
    if fmt == "nc":
        return parse_nc(path)
    if fmt == "ncrst":
        return parse_nc(path, restart=True)
    raise KeyError(fmt)
