"""Reference interpreter for the mdtraj atom-selection language (C12).

Written from docs/atom_selection.rst (keyword table, literals, operators, implicit equality, range queries) and the
docstrings of mdtraj/core/selection.py.  It shares no code with mdtraj: own tokenizer, own recursive-descent parser,
own evaluation over a table of atom attributes collected by walking topology.chains -> residues -> atoms.

Grammar (conventional precedence: comparison binds tightest, then not, then and, then or):

    expr     := and_expr (('or' | '||') and_expr)*
    and_expr := not_expr (('and' | '&&') not_expr)*
    not_expr := ('not' | '!') not_expr | cmp_expr
    cmp_expr := operand [ (cmpop | '=~') operand ]
    operand  := '(' expr ')' | KEYWORD literal 'to' literal | KEYWORD literal+ | KEYWORD | literal
    cmpop    := < <= == != >= >  |  lt le eq ne ge gt
    literal  := number | 'quoted' | "quoted" | bareword

Three-valued classification of a string:
    ok          meaning fixed by the documentation          -> Reference value exists
    ambiguous   `not` directly applied to an unparenthesised explicit comparison (the documentation prints no
                precedence table for that)                    -> tree exists, no reference value
    undocumented  uses something the documentation does not define (negative numbers, chained comparisons, a
                non-boolean keyword as truth value, keyword-vs-keyword comparison, type-mismatched comparands, ...)
    malformed   must be rejected: empty, unbalanced/empty parentheses, dangling/doubled operators, `to` without
                bounds, bare literal used as a truth value, comparison of two literals
"""
from __future__ import annotations

import re

# ----------------------------------------------------------------------------------------------- documented tables
# alias -> (canonical, type)      (docs/atom_selection.rst table; segment_id/segname from selection.py + Atom docstring)
_KW_ROWS = [
    (("all", "everything"), "all", "bool"),
    (("none", "nothing"), "none", "bool"),
    (("backbone", "is_backbone"), "backbone", "bool"),
    (("sidechain", "is_sidechain"), "sidechain", "bool"),
    (("protein", "is_protein"), "protein", "bool"),
    (("water", "is_water", "waters"), "water", "bool"),
    (("name",), "name", "str"),
    (("index",), "index", "int"),
    (("n_bonds",), "n_bonds", "int"),
    (("type", "element", "symbol"), "type", "str"),
    (("mass",), "mass", "float"),
    (("residue", "resSeq"), "residue", "int"),
    (("resid", "resi"), "resid", "int"),
    (("resname", "resn"), "resname", "str"),
    (("rescode", "code", "resc"), "rescode", "str"),
    (("chainid",), "chainid", "int"),
    (("segment_id", "segname"), "segment_id", "str"),
]
KEYWORDS = {}
ALIASES = {}
for _al, _canon, _ty in _KW_ROWS:
    ALIASES[_canon] = list(_al)
    for _a in _al:
        KEYWORDS[_a] = (_canon, _ty)

CMP_CANON = {"<": "lt", "lt": "lt", "<=": "le", "le": "le", "==": "eq", "eq": "eq", "!=": "ne", "ne": "ne",
             ">=": "ge", "ge": "ge", ">": "gt", "gt": "gt"}
CMP_SYN = {"<": "lt", "lt": "<", "<=": "le", "le": "<=", "==": "eq", "eq": "==", "!=": "ne", "ne": "!=",
           ">=": "ge", "ge": ">=", ">": "gt", "gt": ">"}
BOOL_SYN = {"and": "&&", "&&": "and", "or": "||", "||": "or", "not": "!", "!": "not"}
WORD_OPS = {"and": "AND", "or": "OR", "not": "NOT", "to": "TO"}
WORD_OPS.update({k: "CMP" for k in ("lt", "le", "eq", "ne", "ge", "gt")})
SYM_OPS = [("&&", "AND"), ("||", "OR"), ("<=", "CMP"), (">=", "CMP"), ("==", "CMP"), ("!=", "CMP"), ("=~", "RE"),
           ("<", "CMP"), (">", "CMP"), ("!", "NOT"), ("(", "LP"), (")", "RP")]
RESERVED = set(KEYWORDS) | set(WORD_OPS) | {"True", "False", "None"}
BARE_RE = re.compile(r"[A-Za-z][A-Za-z0-9]*\Z")
_NUM_RE = re.compile(r"(?:[0-9]+\.?[0-9]*|\.[0-9]+)")
_WORD_RE = re.compile(r"[A-Za-z_][A-Za-z0-9_]*")


# characters that no documented token contains (outside quotes); '-', '+', '*' are left "undocumented" (signed
# numbers / globbing could be read into them)
ILLEGAL_CHARS = set("&|=;,:[]{}@#$%^~?`")
# backslash sequences inside a quoted literal whose value is the same whether the quotes are read as a python string
# literal (unknown escape: backslash kept) or verbatim -- the regular-expression classes and escaped metacharacters
SAFE_ESCAPED = set("dwsDWS.+*?()[]$^|{}")


def escapes_are_safe(body):
    i = 0
    while True:
        i = body.find("\\", i)
        if i < 0:
            return True
        if i + 1 >= len(body) or body[i + 1] not in SAFE_ESCAPED:
            return False
        i += 2


class Malformed(Exception):
    def __init__(self, cls, msg=""):
        super().__init__(cls + (": " + msg if msg else ""))
        self.cls = cls


class Undocumented(Exception):
    pass


class Undefined(Exception):
    """Evaluation met a value for which the documented operation has no meaning (e.g. regex on a missing code)."""


class Tok:
    __slots__ = ("kind", "text", "start", "end", "value")

    def __init__(self, kind, text, start, end, value=None):
        self.kind, self.text, self.start, self.end, self.value = kind, text, start, end, value

    def __repr__(self):
        return f"{self.kind}:{self.text}"


LITERAL_KINDS = ("NUM", "STR", "WORD")


def tokenize(s):
    toks = []
    i, n = 0, len(s)
    while i < n:
        c = s[i]
        if c in " \t\r\n":
            i += 1
            continue
        for sym, kind in SYM_OPS:
            if s.startswith(sym, i):
                toks.append(Tok(kind, sym, i, i + len(sym)))
                i += len(sym)
                break
        else:
            if c in "'\"":
                j = s.find(c, i + 1)
                if j < 0:
                    # no documented token starts with a quote that is never closed (a backslash before it could be
                    # meant as an escape: left undocumented)
                    if "\\" in s:
                        raise Undocumented("unterminated quote")
                    raise Malformed("unterminated-quote")
                body = s[i + 1:j]
                if "\n" in body or not escapes_are_safe(body):
                    raise Undocumented("escape sequence or newline inside a quoted literal")
                toks.append(Tok("STR", s[i:j + 1], i, j + 1, body))
                i = j + 1
            elif c.isdigit() or c == ".":
                m = _NUM_RE.match(s, i)
                if not m:
                    raise Undocumented("lone '.'")
                txt = m.group(0)
                j = m.end()
                if j < n and (s[j].isalnum() or s[j] in "._"):
                    raise Undocumented("number directly followed by letters/dots (e.g. 1HB, 1e5, 1.2.3)")
                if len(txt) > 1 and txt[0] == "0" and txt[1].isdigit():
                    raise Undocumented("number with leading zeros")
                val = float(txt) if "." in txt else int(txt)
                toks.append(Tok("NUM", txt, i, j, val))
                i = j
            elif c.isalpha() or c == "_":
                m = _WORD_RE.match(s, i)
                txt = m.group(0)
                j = m.end()
                if txt in WORD_OPS:
                    toks.append(Tok(WORD_OPS[txt], txt, i, j))
                elif txt in KEYWORDS:
                    toks.append(Tok("KW", txt, i, j, KEYWORDS[txt]))
                elif txt in ("True", "False", "None"):
                    raise Undocumented("python constant name")
                elif "_" in txt:
                    raise Undocumented("bare word with underscore")
                else:
                    toks.append(Tok("WORD", txt, i, j, txt))
                i = j
            elif c in ILLEGAL_CHARS:
                # not part of any documented token (the documented operators made of these characters were tried
                # first: && || == != =~): the string is not an expression of the language
                raise Malformed("illegal-character", repr(c))
            else:
                raise Undocumented(f"character {c!r} outside the documented lexicon")
    return toks


class Node:
    __slots__ = ("kind", "kids", "lo", "hi", "ops", "tok", "lits", "paren")

    def __init__(self, kind, lo, hi, kids=(), ops=(), tok=None, lits=()):
        self.kind = kind        # or and not cmp regex paren kw lit implicit inlist range
        self.kids = list(kids)
        self.lo, self.hi = lo, hi  # inclusive token index range
        self.ops = list(ops)    # token indices of the operator(s)
        self.tok = tok          # token index of the keyword / literal
        self.lits = list(lits)  # token indices of literal arguments

    def walk(self):
        yield self
        for k in self.kids:
            yield from k.walk()


BOOL_KINDS = ("or", "and", "not", "cmp", "regex", "paren", "kw", "implicit", "inlist", "range")


class _Parser:
    def __init__(self, toks):
        self.t = toks
        self.i = 0

    def peek(self):
        return self.t[self.i] if self.i < len(self.t) else None

    def prev_is_operator(self):
        return self.i > 0 and self.t[self.i - 1].kind in ("AND", "OR", "NOT", "CMP", "RE")

    def parse(self):
        if not self.t:
            raise Malformed("empty")
        n = self.p_or()
        tk = self.peek()
        if tk is not None:
            if tk.kind == "RP":
                raise Malformed("unbalanced-parentheses", "unmatched ')'")
            raise Undocumented("two terms without a connective")
        return n

    def p_or(self):
        kids, ops = [self.p_and()], []
        while self.peek() is not None and self.peek().kind == "OR":
            ops.append(self.i)
            self.i += 1
            kids.append(self.p_and())
        if not ops:
            return kids[0]
        return Node("or", kids[0].lo, kids[-1].hi, kids, ops)

    def p_and(self):
        kids, ops = [self.p_not()], []
        while self.peek() is not None and self.peek().kind == "AND":
            ops.append(self.i)
            self.i += 1
            kids.append(self.p_not())
        if not ops:
            return kids[0]
        return Node("and", kids[0].lo, kids[-1].hi, kids, ops)

    def p_not(self):
        tk = self.peek()
        if tk is not None and tk.kind == "NOT":
            at = self.i
            self.i += 1
            kid = self.p_not()
            return Node("not", at, kid.hi, [kid], [at])
        return self.p_cmp()

    def p_cmp(self):
        left = self.p_operand()
        tk = self.peek()
        if tk is not None and tk.kind in ("CMP", "RE"):
            at = self.i
            self.i += 1
            right = self.p_operand()
            node = Node("regex" if tk.kind == "RE" else "cmp", left.lo, right.hi, [left, right], [at])
            nx = self.peek()
            if nx is not None and nx.kind in ("CMP", "RE"):
                raise Undocumented("chained comparison")
            return node
        return left

    def p_operand(self):
        tk = self.peek()
        if tk is None:
            if self.i > 0 and self.t[self.i - 1].kind == "LP":
                raise Malformed("unbalanced-parentheses", "unclosed '('")
            raise Malformed("dangling-operator", "operand missing at end of input")
        if tk.kind == "LP":
            at = self.i
            self.i += 1
            nx = self.peek()
            if nx is not None and nx.kind == "RP":
                raise Malformed("empty-parentheses")
            kid = self.p_or()
            nx = self.peek()
            if nx is None or nx.kind != "RP":
                if nx is None:
                    raise Malformed("unbalanced-parentheses", "unclosed '('")
                raise Undocumented("two terms without a connective")
            self.i += 1
            return Node("paren", at, self.i - 1, [kid])
        if tk.kind == "RP":
            if self.prev_is_operator():
                raise Malformed("dangling-operator", "operand missing before ')'")
            raise Malformed("unbalanced-parentheses", "unmatched ')'")
        if tk.kind in ("AND", "OR", "CMP", "RE"):
            if self.prev_is_operator():
                raise Malformed("doubled-operator", f"{self.t[self.i - 1].text} {tk.text}")
            raise Malformed("dangling-operator", f"{tk.text} without left operand")
        if tk.kind == "NOT":
            # e.g. "index < not 5": a truth operator where a comparand is expected
            raise Undocumented("not inside a comparison")
        if tk.kind == "TO":
            raise Undocumented("'to' where an operand is expected")
        if tk.kind == "KW":
            at = self.i
            self.i += 1
            lits = []
            while self.peek() is not None and self.peek().kind in LITERAL_KINDS:
                lits.append(self.i)
                self.i += 1
            nx = self.peek()
            canon, ty = tk.value
            if nx is not None and nx.kind == "TO":
                if ty not in ("int", "float"):
                    raise Undocumented("range on a non-numeric keyword")
                if len(lits) > 1:
                    raise Undocumented("list followed by 'to'")
                if len(lits) == 0:
                    raise Malformed("range-missing-bound", "no lower bound")
                self.i += 1
                hi = self.peek()
                if hi is None or hi.kind not in LITERAL_KINDS:
                    raise Malformed("range-missing-bound", "no upper bound")
                lits.append(self.i)
                self.i += 1
                nx = self.peek()
                if nx is not None and (nx.kind in LITERAL_KINDS or nx.kind == "TO"):
                    raise Undocumented("tokens after a complete range")
                return Node("range", at, self.i - 1, tok=at, lits=lits)
            if not lits:
                return Node("kw", at, at, tok=at)
            return Node("implicit" if len(lits) == 1 else "inlist", at, self.i - 1, tok=at, lits=lits)
        # literal
        at = self.i
        self.i += 1
        nx = self.peek()
        if nx is not None and (nx.kind in LITERAL_KINDS or nx.kind == "TO"):
            raise Undocumented("adjacent literals without a keyword")
        return Node("lit", at, at, tok=at)


def _lit_type(tk):
    return "num" if tk.kind == "NUM" else "str"


def _kw_class(ty):
    return "num" if ty in ("int", "float") else ty


def not_reading_is_open(c, toks):
    """`not A cmp B` can be read as not (A cmp B) or as (not A) cmp B.  The documentation prints no precedence table, but it
    types every keyword: when A is a non-boolean keyword (or a literal) the second reading applies a boolean connective
    to a non-boolean value, which the language gives no meaning — only one well-typed reading is left and the
    expression is judged.  It stays open (ambiguous, not judged) only when A is itself a boolean keyword."""
    if c.kind not in ("cmp", "regex"):
        return False
    left = c.kids[0]
    if left.kind == "kw":
        return toks[left.tok].value[1] == "bool"
    if left.kind == "lit":
        return False
    return True


def _check(node, toks, truth, flags):
    """Type/"well-formedness" rules of the documented language.  Collects problems in flags."""
    k = node.kind
    if k in ("or", "and"):
        for c in node.kids:
            _check(c, toks, True, flags)
    elif k == "not":
        c = node.kids[0]
        if not_reading_is_open(c, toks):
            flags["ambiguous"] = True
        _check(c, toks, True, flags)
    elif k == "paren":
        if not truth:
            flags["undoc"].append("parenthesised operand of a comparison")
        _check(node.kids[0], toks, True, flags)
    elif k == "kw":
        canon, ty = toks[node.tok].value
        if truth and ty != "bool":
            flags["undoc"].append("non-boolean keyword used as truth value")
    elif k == "lit":
        if truth:
            flags["malformed"].append("bare-literal")
    elif k in ("implicit", "inlist", "range"):
        if not truth:
            flags["undoc"].append("keyword-literal group as comparand")
        canon, ty = toks[node.tok].value
        if ty == "bool":
            flags["undoc"].append("boolean keyword followed by a literal")
        else:
            for li in node.lits:
                if _lit_type(toks[li]) != _kw_class(ty):
                    flags["undoc"].append("literal type differs from keyword type")
    elif k in ("cmp", "regex"):
        a, b = node.kids
        for c in (a, b):
            if c.kind not in ("kw", "lit"):
                _check(c, toks, False, flags)
        if a.kind == "lit" and b.kind == "lit":
            flags["malformed"].append("literal-only-comparison")
            return
        if a.kind not in ("kw", "lit") or b.kind not in ("kw", "lit"):
            return
        if a.kind == "kw" and b.kind == "kw":
            flags["undoc"].append("keyword compared with keyword")
            return
        kw, lit = (a, b) if a.kind == "kw" else (b, a)
        canon, ty = toks[kw.tok].value
        lt = _lit_type(toks[lit.tok])
        if ty == "bool":
            flags["undoc"].append("boolean keyword in a comparison")
        elif k == "regex":
            if a.kind != "kw":
                flags["undoc"].append("regex with the pattern on the left")
            elif ty != "str" or lt != "str":
                flags["undoc"].append("regex on a non-string")
            else:
                try:
                    re.compile(toks[lit.tok].value)
                except re.error:
                    flags["undoc"].append("invalid regular expression")
        else:
            op = CMP_CANON[toks[node.ops[0]].text]
            if lt != _kw_class(ty):
                flags["undoc"].append("literal type differs from keyword type")
            elif ty == "str" and op not in ("eq", "ne"):
                flags["undoc"].append("ordering comparison on strings")


class Parsed:
    """status in ok / ambiguous / undocumented / malformed; toks, tree present when the syntax could be parsed."""

    def __init__(self, s):
        self.s = s
        self.toks = None
        self.tree = None
        self.reason = ""
        try:
            self.toks = tokenize(s)
        except Undocumented as e:
            self.status, self.reason = "undocumented", str(e)
            return
        except Malformed as e:
            self.status, self.reason = "malformed", e.cls
            return
        try:
            self.tree = _Parser(self.toks).parse()
        except Malformed as e:
            self.status, self.reason = "malformed", e.cls
            return
        except Undocumented as e:
            self.status, self.reason = "undocumented", str(e)
            return
        flags = dict(undoc=[], malformed=[], ambiguous=False)
        _check(self.tree, self.toks, True, flags)
        if flags["malformed"]:
            self.status, self.reason = "malformed", flags["malformed"][0]
        elif flags["undoc"]:
            self.status, self.reason = "undocumented", flags["undoc"][0]
        elif flags["ambiguous"]:
            self.status, self.reason = "ambiguous", "not applied to an unparenthesised comparison"
        else:
            self.status = "ok"

    def text(self, node):
        return self.s[self.toks[node.lo].start:self.toks[node.hi].end]


# ---------------------------------------------------------------------------------------------------- atom table
_STD_AA = {"ALA", "ARG", "ASN", "ASP", "CYS", "GLN", "GLU", "GLY", "HIS", "ILE", "LEU", "LYS", "MET", "PHE", "PRO",
           "SER", "THR", "TRP", "TYR", "VAL"}


class AtomTable:
    """Column store of the documented atom attributes, gathered by an own walk over the chain/residue/atom tree:
    index / resid / chainid are positions in that walk, n_bonds is counted from topology.bonds."""

    def __init__(self, top):
        cols = {k: [] for k in ALIASES}
        atoms = []
        ai = ri = 0
        for ci, chain in enumerate(top.chains):
            for res in chain.residues:
                for atom in res.atoms:
                    atoms.append(atom)
                    cols["all"].append(True)
                    cols["none"].append(False)
                    cols["backbone"].append(bool(atom.is_backbone))
                    cols["sidechain"].append(bool(atom.is_sidechain))
                    cols["protein"].append(bool(res.is_protein))
                    cols["water"].append(bool(res.is_water))
                    cols["name"].append(atom.name)
                    cols["index"].append(ai)
                    cols["type"].append(atom.element.symbol)
                    cols["mass"].append(atom.element.mass)
                    cols["residue"].append(res.resSeq)
                    cols["resid"].append(ri)
                    cols["resname"].append(res.name)
                    cols["rescode"].append(res.code)
                    cols["chainid"].append(ci)
                    cols["segment_id"].append(res.segment_id)
                    ai += 1
                ri += 1
        pos = {id(a): i for i, a in enumerate(atoms)}
        nb = [0] * len(atoms)
        for b in top.bonds:
            a1, a2 = b[0], b[1]
            nb[pos[id(a1)]] += 1
            nb[pos[id(a2)]] += 1
        cols["n_bonds"] = nb
        self.cols = cols
        self.n = len(atoms)
        self.walk_matches_index = all(a.index == i for i, a in enumerate(atoms))

    def keyword_meaning_problems(self):
        """Cross-check of the boolean keyword columns against the documented wording on the confident subset."""
        bad = []
        c = self.cols
        for i in range(self.n):
            rn, an = c["resname"][i], c["name"][i]
            if rn in _STD_AA:
                if not c["protein"][i]:
                    bad.append(("protein", i))
                if an in ("N", "CA", "C", "O") and (not c["backbone"][i] or c["sidechain"][i]):
                    bad.append(("backbone", i))
                if an in ("CB", "CG", "CD", "SG", "OG") and (not c["sidechain"][i] or c["backbone"][i]):
                    bad.append(("sidechain", i))
                if c["water"][i]:
                    bad.append(("water", i))
            elif rn == "HOH":
                if not c["water"][i] or c["protein"][i] or c["backbone"][i] or c["sidechain"][i]:
                    bad.append(("water", i))
            elif rn in ("NA", "CL", "ZN", "K"):
                if c["water"][i] or c["protein"][i] or c["backbone"][i] or c["sidechain"][i]:
                    bad.append(("ion", i))
        return bad


_PY_CMP = {"lt": lambda a, b: a < b, "le": lambda a, b: a <= b, "eq": lambda a, b: a == b,
           "ne": lambda a, b: a != b, "ge": lambda a, b: a >= b, "gt": lambda a, b: a > b}


def evaluate(p, table):
    """List of the selected atom indices (increasing) for a Parsed with status ok."""
    mask = _eval(p.tree, p.toks, table)
    return [i for i, m in enumerate(mask) if m]


def _operand_values(node, toks, table):
    tk = toks[node.tok]
    if node.kind == "kw":
        return table.cols[tk.value[0]]
    return [tk.value] * table.n


def _eval(node, toks, table):
    k = node.kind
    n = table.n
    if k == "or":
        out = [False] * n
        for c in node.kids:
            m = _eval(c, toks, table)
            out = [a or b for a, b in zip(out, m)]
        return out
    if k == "and":
        out = [True] * n
        for c in node.kids:
            m = _eval(c, toks, table)
            out = [a and b for a, b in zip(out, m)]
        return out
    if k == "not":
        return [not a for a in _eval(node.kids[0], toks, table)]
    if k == "paren":
        return _eval(node.kids[0], toks, table)
    if k == "kw":
        return [bool(v) for v in table.cols[toks[node.tok].value[0]]]
    if k == "implicit" or k == "inlist":
        col = table.cols[toks[node.tok].value[0]]
        vals = [toks[i].value for i in node.lits]
        return [any(v == x for x in vals) for v in col]
    if k == "range":
        col = table.cols[toks[node.tok].value[0]]
        lo, hi = toks[node.lits[0]].value, toks[node.lits[1]].value
        return [lo <= v <= hi for v in col]
    if k == "cmp":
        f = _PY_CMP[CMP_CANON[toks[node.ops[0]].text]]
        a = _operand_values(node.kids[0], toks, table)
        b = _operand_values(node.kids[1], toks, table)
        out = []
        for x, y in zip(a, b):
            try:
                out.append(bool(f(x, y)))
            except TypeError:
                raise Undefined("comparison between incomparable values")
        return out
    if k == "regex":
        col = _operand_values(node.kids[0], toks, table)
        pat = re.compile(toks[node.kids[1].tok].value)
        out = []
        for v in col:
            if not isinstance(v, str):
                raise Undefined("regular expression applied to a missing (non-string) attribute value")
            out.append(pat.match(v) is not None)
        return out
    raise AssertionError(k)


# ------------------------------------------------------------------------------------------- string transformations
def _wordish(ch):
    return ch.isalnum() or ch in "_."


def rebuild(p, repl=None, wraps=()):
    """Re-render p.s keeping the original inter-token whitespace; repl: {token index: new text};
    wraps: iterable of (lo, hi) token ranges to enclose in parentheses."""
    repl = repl or {}
    opens, closes = {}, {}
    for lo, hi in wraps:
        opens[lo] = opens.get(lo, 0) + 1
        closes[hi] = closes.get(hi, 0) + 1
    out = [p.s[:p.toks[0].start]] if p.toks else [p.s]
    prev_word_op = False
    for i, tk in enumerate(p.toks):
        body = repl.get(i, tk.text)
        txt = "(" * opens.get(i, 0) + body + ")" * closes.get(i, 0)
        if i > 0:
            gap = p.s[p.toks[i - 1].end:tk.start]
            prev = out[-1]
            if gap == "" and prev and _wordish(prev[-1]) and _wordish(txt[0]):
                gap = " "
            # a symbolic operator respelled as a word (! -> not, < -> lt) is set off by blanks on both sides
            if gap == "" and (prev_word_op or (i in repl and body.isalpha())):
                gap = " "
            out.append(gap)
        prev_word_op = i in repl and body.isalpha()
        out.append(txt)
    if p.toks:
        out.append(p.s[p.toks[-1].end:])
    return "".join(out)


def quote_forms(value, as_number=False):
    """Documented equivalent spellings of a string literal."""
    forms = []
    if BARE_RE.match(value) and value not in RESERVED:
        forms.append(value)
    if "\n" in value or not escapes_are_safe(value):
        return forms
    if "'" not in value:
        forms.append("'" + value + "'")
    if '"' not in value:
        forms.append('"' + value + '"')
    return forms


def token_synonyms(p, i, regex_pattern=False):
    """Other documented spellings of token i (same meaning)."""
    tk = p.toks[i]
    if tk.kind in ("AND", "OR", "NOT"):
        return [BOOL_SYN[tk.text]]
    if tk.kind == "CMP":
        return [CMP_SYN[tk.text]]
    if tk.kind == "KW":
        return [a for a in ALIASES[tk.value[0]] if a != tk.text]
    if tk.kind in ("STR", "WORD"):
        return [f for f in quote_forms(tk.value) if f != tk.text]
    return []


def boolean_nodes(p):
    """Complete boolean sub-expressions (candidates for redundant parentheses), excluding comparands."""
    out = []

    def rec(node, truth):
        if truth and node.kind in BOOL_KINDS:
            out.append(node)
        if node.kind in ("cmp", "regex"):
            return
        for c in node.kids:
            rec(c, True)
    rec(p.tree, True)
    return out


def contains_ambiguous_not(node):
    for x in node.walk():
        if x.kind == "not" and x.kids[0].kind in ("cmp", "regex"):
            return True
    return False


def capture_pairs(p, root_only=False):
    """(connective spelling, comparison spelling, child node) for every unparenthesised explicit comparison that is
    a direct operand of and/or -- read with `not` binding tightly, the way a comparand-capturing parser would."""
    pairs = []
    for node in ([p.tree] if root_only else p.tree.walk()):
        if node.kind == "not" and node.kids[0].kind == "not":
            # `! not x`: the two spellings of negation are different operators to a spelling-ordered parser
            a, b = p.toks[node.ops[0]].text, p.toks[node.kids[0].ops[0]].text
            if a != b:
                pairs.append((a, b, node.kids[0]))
        if node.kind not in ("and", "or"):
            continue
        for ci, c in enumerate(node.kids):
            cc = c
            while cc.kind == "not":
                cc = cc.kids[0]
            if cc.kind not in ("cmp", "regex"):
                continue
            cmp_sp = p.toks[cc.ops[0]].text
            adj = []
            if ci > 0:
                adj.append(p.toks[node.ops[ci - 1]].text)
            if ci < len(node.ops):
                adj.append(p.toks[node.ops[ci]].text)
            for b in adj:
                pairs.append((b, cmp_sp, cc))
    return pairs


def paren_depth(p):
    d = m = 0
    for tk in p.toks or ():
        if tk.kind == "LP":
            d += 1
            m = max(m, d)
        elif tk.kind == "RP":
            d -= 1
    return m


def compact(p, only=None):
    """Remove optional whitespace (where removal cannot merge two tokens); only = junction index i (between token
    i-1 and i) or None for all."""
    out = []
    for i, tk in enumerate(p.toks):
        if i > 0:
            gap = p.s[p.toks[i - 1].end:tk.start]
            a, b = p.toks[i - 1].text, tk.text
            removable = not (_wordish(a[-1]) and _wordish(b[0]))
            # a symbolic operator followed by another symbol could fuse into a different operator ("! =", "< =")
            if removable and not a[-1].isalnum() and not b[0].isalnum() and a[-1] not in "()'\"" and b[0] not in "()'\"":
                removable = False
            if removable and a[-1] in "'\"" and b[0] in "'\"":
                removable = False  # two adjacent quoted strings would read as an escaped quote
            if removable and (only is None or only == i):
                gap = ""
            out.append(gap)
        out.append(tk.text)
    return "".join(out)


def widen(p):
    out = []
    seps = ["  ", "\t", " \t ", "   "]
    for i, tk in enumerate(p.toks):
        if i > 0:
            out.append(seps[i % len(seps)])
        out.append(tk.text)
    return " " + "".join(out) + " \n"


def widen_nl(p):
    """Whitespace between tokens widened with line breaks (LF, CRLF) and tabs; the documented language is
    token-based, a line break is optional whitespace like a blank."""
    out = []
    seps = ["\n", " \r\n", "\t\n ", "\n\n", " "]
    for i, tk in enumerate(p.toks):
        if i > 0:
            out.append(seps[i % len(seps)])
        out.append(tk.text)
    return "\n" + "".join(out) + "\r\n"


# ------------------------------------------------------------------------------ documented meaning, wider name tables
# Residue.is_water documents its name list by reference: "Residue names according to VMD"
# (http://www.ks.uiuc.edu/Research/vmd/vmd-1.3/ug/node133.html: "water: residues named H2O HHO OHH HOH OH2 SOL WAT
#  TIP TIP2 TIP3 TIP4")
VMD_WATER = ("H2O", "HHO", "OHH", "HOH", "OH2", "SOL", "WAT", "TIP", "TIP2", "TIP3", "TIP4")
# residues "found in proteins" beyond the 20 standard ones, with the one-letter code of the wwPDB chemical component
# dictionary (parent residue); caps (no code judged)
KNOWN_MODIFIED = {"MSE": "M", "SEP": "S", "TPO": "T", "PTR": "Y", "HYP": "P", "SEC": "U", "PYL": "O", "ASX": "B",
                  "GLX": "Z", "UNK": "X", "CYM": "C", "HIP": "H", "LYN": "K"}
KNOWN_CAPS = ("ACE", "NME")
STD_CODES = {"ALA": "A", "ARG": "R", "ASN": "N", "ASP": "D", "CYS": "C", "GLN": "Q", "GLU": "E", "GLY": "G",
             "HIS": "H", "ILE": "I", "LEU": "L", "LYS": "K", "MET": "M", "PHE": "F", "PRO": "P", "SER": "S",
             "THR": "T", "TRP": "W", "TYR": "Y", "VAL": "V"}
# names that are certainly neither protein nor water
KNOWN_OTHER = ("NA", "CL", "ZN", "K", "MG", "NA+", "CL-", "Cl-", "LIG", "A", "C", "G", "U", "DA", "DC", "DG", "DT")
# standard atomic weights (IUPAC abridged); `mass` is documented as "Element atomic mass (daltons)"
ATOMIC_WEIGHT = {"H": 1.008, "Li": 6.94, "C": 12.011, "N": 14.007, "O": 15.999, "F": 18.998, "Na": 22.990,
                 "Mg": 24.305, "P": 30.974, "S": 32.06, "Cl": 35.45, "K": 39.098, "Ca": 40.078, "Fe": 55.845,
                 "Cu": 63.546, "Zn": 65.38, "Se": 78.971, "Br": 79.904, "I": 126.904}
_SIDE_NAMES = ("CB", "CG", "CD", "SG", "OG", "CG1", "CG2", "OD1", "OD2", "NZ", "SD", "CE", "SE", "OG1", "P", "O1P")


def keyword_meaning_problems_wide(table):
    """(what, atom index) for atoms whose boolean / code / mass columns contradict the documented wording on residue
    names for which the wording leaves no doubt.  Complements AtomTable.keyword_meaning_problems (standard residues,
    HOH, four ions)."""
    bad = []
    c = table.cols
    for i in range(table.n):
        rn, an = c["resname"][i], c["name"][i]
        prot = rn in STD_CODES or rn in KNOWN_MODIFIED or rn in KNOWN_CAPS
        if rn in VMD_WATER:
            if not c["water"][i]:
                bad.append(("water:" + rn, i))
            if c["protein"][i] or c["backbone"][i] or c["sidechain"][i]:
                bad.append(("water-flagged-protein:" + rn, i))
            if c["rescode"][i] is not None:
                bad.append(("rescode-on-water:" + rn, i))
        elif prot:
            if not c["protein"][i]:
                bad.append(("protein:" + rn, i))
            if c["water"][i]:
                bad.append(("protein-flagged-water:" + rn, i))
            if an in ("N", "CA", "C", "O") and (not c["backbone"][i] or c["sidechain"][i]):
                bad.append(("backbone:" + an, i))
            if an in _SIDE_NAMES and (not c["sidechain"][i] or c["backbone"][i]):
                bad.append(("sidechain:" + an, i))
            want = STD_CODES.get(rn, KNOWN_MODIFIED.get(rn))
            if want is not None and c["rescode"][i] != want:
                bad.append(("rescode:" + rn, i))
        elif rn in KNOWN_OTHER:
            if c["water"][i] or c["protein"][i] or c["backbone"][i] or c["sidechain"][i]:
                bad.append(("other-flagged:" + rn, i))
            if c["rescode"][i] is not None:
                bad.append(("rescode-on-other:" + rn, i))
        w = ATOMIC_WEIGHT.get(c["type"][i])
        if w is not None and not abs(c["mass"][i] - w) <= 2e-3 * w:
            bad.append(("mass:" + c["type"][i], i))
    return bad


def atom_group(table, option):
    """Documented meaning of Topology.select_atom_indices(option) over the attribute table."""
    c = table.cols
    n = table.n
    if option == "all":
        return list(range(n))
    if option == "alpha":
        return [i for i in range(n) if c["protein"][i] and c["name"][i] == "CA"]
    if option == "minimal":
        return [i for i in range(n) if c["protein"][i] and c["name"][i] in ("CA", "CB", "C", "N", "O")]
    if option == "heavy":
        return [i for i in range(n) if c["protein"][i] and c["type"][i] != "H"]
    if option == "water":
        return [i for i in range(n) if c["water"][i] and c["type"][i] == "O"]
    raise KeyError(option)
