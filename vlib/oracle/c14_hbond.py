"""float64 reference implementations of the three hydrogen-bond criteria of C14, written from the docstrings of
md.baker_hubbard / md.wernet_nilsson / md.kabsch_sander (and, for Kabsch-Sander, the published DSSP conventions the
design fixes).  Nothing here calls mdtraj.geometry: only the Topology *data* (atoms, residues, bonds) is read.

Every elementary decision is returned three-valued: +1 = criterion met with margin, -1 = criterion not met with
margin, 0 = inside the ambiguity band (undecidable for a float32 implementation)."""
from __future__ import annotations

from fractions import Fraction

import numpy as np

from vlib.oracle import geom

EPS32 = geom.EPS32

# Residue.is_water documents "Residue names according to VMD" (vmd-1.3 ug node133)
WATER_NAMES = frozenset(["H2O", "HHO", "OHH", "HOH", "OH2", "SOL", "WAT", "TIP", "TIP2", "TIP3", "TIP4"])
# the twenty standard amino acids (+ the usual protonation variants); anything else is "not known to be protein"
STANDARD_AA = frozenset(["ALA", "ARG", "ASN", "ASP", "CYS", "GLN", "GLU", "GLY", "HIS", "ILE", "LEU", "LYS", "MET",
                         "PHE", "PRO", "SER", "THR", "TRP", "TYR", "VAL", "HID", "HIE", "HIP", "CYX", "ASH", "GLH",
                         "LYN"])
BACKBONE_NAMES = frozenset(["N", "CA", "C", "O", "H", "HA"])
# backbone atoms at chain termini / alternative namings: whether they count as "sidechain" is not documented
TERMINAL_AMBIGUOUS = frozenset(["OXT", "OT1", "OT2", "O1", "O2", "H1", "H2", "H3", "HN", "HN1", "HN2", "HN3", "HA2", "HA3",
                                "HA1", "1H", "2H", "3H", "1HA", "2HA"])

KS_COUPLING = 0.42 * 0.2 * 33.2  # kcal/mol * nm, the constant of the kabsch_sander docstring (r in nm)
KS_CUTOFF = -0.5
KS_CA = 0.9
KS_CLAMP = -9.9
KS_RMIN = 0.05  # DSSP's "minimal distance" 0.5 A below which the energy is replaced by -9.9


class Tables:
    """Plain arrays describing a topology (read through its public data attributes only)."""

    def __init__(self, top):
        atoms = list(top.atoms)
        self.n_atoms = len(atoms)
        self.symbol = np.array([a.element.symbol if a.element is not None else "" for a in atoms], dtype=object)
        self.name = np.array([a.name for a in atoms], dtype=object)
        self.resindex = np.array([a.residue.index for a in atoms], dtype=np.int64)
        residues = list(top.residues)
        self.n_residues = len(residues)
        self.resname = np.array([r.name for r in residues], dtype=object)
        self.reschain = np.array([r.chain.index for r in residues], dtype=np.int64)
        self.bonds = np.array([(b[0].index, b[1].index) for b in top.bonds], dtype=np.int64).reshape(-1, 2)
        self.res_atoms = [[] for _ in residues]
        for a in atoms:
            self.res_atoms[a.residue.index].append(a.index)
        self.is_water_atom = np.array([self.resname[r] in WATER_NAMES for r in self.resindex], dtype=bool)


# ---------------------------------------------------------------------------------------------- triplets
def sidechain_class(tab):
    """+1 sidechain atom of a standard protein residue, -1 certainly not (backbone N/CA/C/O/H/HA of a protein residue or
    an atom of a water / obviously non-protein residue), 0 undocumented (terminal names, non-standard residue names)."""
    out = np.zeros(tab.n_atoms, dtype=np.int8)
    for i in range(tab.n_atoms):
        rn = tab.resname[tab.resindex[i]]
        nm = tab.name[i]
        if rn in STANDARD_AA:
            if nm in BACKBONE_NAMES:
                out[i] = -1
            elif nm in TERMINAL_AMBIGUOUS:
                out[i] = 0
            else:
                out[i] = 1
        elif rn in WATER_NAMES:
            out[i] = -1
        else:
            out[i] = 0  # caps, ligands, modified residues: "protein residue" is a matter of the residue table
    return out


def bond_triplets(tab, exclude_water, sidechain_only):
    """All (donor, hydrogen, acceptor) candidates of the docstrings: donors are N-H and O-H pairs bonded in the
    topology, acceptors are N and O atoms, both restricted by the two filters, donor != acceptor.
    Returns (triplets [n,3] int64, undocumented [n] bool) -- undocumented: some atom's sidechain status is not fixed
    by the documentation (only with sidechain_only)."""
    sym = tab.symbol
    sc = sidechain_class(tab) if sidechain_only else None

    def allowed(i):
        if exclude_water and tab.is_water_atom[i]:
            return -1
        if sidechain_only:
            return int(sc[i])
        return 1

    donors = []  # (d, h, status)
    for a, b in tab.bonds:
        for d, h in ((a, b), (b, a)):
            if sym[d] in ("N", "O") and sym[h] == "H":
                s = min(allowed(d), allowed(h))
                if s >= 0:
                    donors.append((int(d), int(h), s))
    acc = []
    for i in range(tab.n_atoms):
        if sym[i] in ("N", "O"):
            s = allowed(i)
            if s >= 0:
                acc.append((i, s))
    if not donors or not acc:
        return np.zeros((0, 3), np.int64), np.zeros(0, bool)
    dn = np.array(donors, dtype=np.int64)
    ac = np.array(acc, dtype=np.int64)
    D = np.repeat(dn, len(ac), axis=0)
    A = np.tile(ac, (len(dn), 1))
    keep = D[:, 0] != A[:, 0]
    trip = np.stack([D[:, 0], D[:, 1], A[:, 0]], axis=1)[keep]
    undocumented = (np.minimum(D[:, 2], A[:, 1]) == 0)[keep]
    return trip, undocumented


# ---------------------------------------------------------------------------------------------- geometry
def rounded_image(v, B, Binv):
    """v - round(v B^-1) B: the minimum image whenever the true minimum-image distance is below w_min/2."""
    return v - np.round(v @ Binv) @ B


def widths(B):
    vol = abs(np.linalg.det(B))
    return np.array([vol / np.linalg.norm(np.cross(B[(i + 1) % 3], B[(i + 2) % 3])) for i in range(3)])


def pair_vectors(x, i, j, B):
    """x[j]-x[i] (float64), minimum image in lattice B (rows) when B is given.  Returns (vectors, lengths, exact)
    where exact[k] says the vector is certainly the minimum image (length < w_min/2) -- all True without a cell."""
    v = x[j] - x[i]
    if B is None:
        return v, np.linalg.norm(v, axis=-1), np.ones(len(v), bool)
    Binv = np.linalg.inv(B)
    v = rounded_image(v, B, Binv)
    d = np.linalg.norm(v, axis=-1)
    return v, d, d < widths(B).min() / 2


def dist_band(M):
    """ambiguity band on a distance (nm): the 1e-5 of the statement, or the float32 rounding of the code under
    observation on coordinates of magnitude M (sqrt(3) components x 4 roundings x half-ulp 2^-24 of displacements of
    up to 2M), whichever is larger."""
    return max(1e-5, 14 * EPS32 * M)


def cos_band(a, b, c, dd):
    """bound on the error of the law-of-cosines cosine (a^2+b^2-c^2)/(2ab) evaluated in float32 from three distances
    each uncertain by dd: first-order propagation |dcos/da|+|dcos/db|+|dcos/dc| plus 8 float32 roundings of the terms."""
    ab = np.maximum(a * b, 1e-12)
    cosv = (a * a + b * b - c * c) / (2 * ab)
    g = np.abs(1.0 / b - cosv / np.maximum(a, 1e-6)) + np.abs(1.0 / a - cosv / np.maximum(b, 1e-6)) + c / ab
    return g * dd + 8 * EPS32 * (a * a + b * b + c * c) / (2 * ab) + 4 * EPS32


def three(margin, band):
    """+1 / -1 / 0 from a signed margin (positive = criterion met) and a band"""
    out = np.zeros(margin.shape, dtype=np.int8)
    out[margin > band] = 1
    out[margin < -band] = -1
    return out


def baker_hubbard_frames(xyz64, Bs, trip, distance_cutoff, angle_cutoff_deg, M):
    """Per frame three-valued presence of every triplet.  presence = d(H,A) < cutoff AND angle(D,H,A) > angle_cutoff,
    the angle being the one at H between H->D and H->A (minimum-image vectors when Bs[f] is a lattice).
    Returns state[nf, nt] int8 and the number of angle evaluations."""
    nf = xyz64.shape[0]
    nt = len(trip)
    state = np.full((nf, nt), -1, dtype=np.int8)
    dd = dist_band(M)
    acut = np.radians(float(angle_cutoff_deg))
    n_angle = 0
    for f in range(nf):
        x = xyz64[f]
        B = None if Bs is None else Bs[f]
        vha, dha, ex = pair_vectors(x, trip[:, 1], trip[:, 2], B)
        sd = three(distance_cutoff - dha, dd)
        if B is not None:
            # a rounded vector that is not certainly minimal is at least w_min/2 long, and so is the true minimum
            # image; inside the domain (cutoff + band < w_min/2) it is "absent" either way.  Outside: undecidable.
            half = widths(B).min() / 2
            if not distance_cutoff + dd < half:
                sd[~ex] = 0
        cand = np.where(sd >= 0)[0]
        st = np.full(nt, -1, dtype=np.int8)
        if len(cand):
            t = trip[cand]
            vhd, dhd, ex2 = pair_vectors(x, t[:, 1], t[:, 0], B)
            va = vha[cand]
            da = dha[cand]
            if B is not None:
                # exact re-derivation of the two legs by the image search of geom.min_image
                va2, da2 = geom.min_image(va, B)
                vhd2, dhd2 = geom.min_image(vhd, B)
                bad = (np.abs(da2 - da) > 1e-9) | (np.abs(dhd2 - dhd) > 1e-9)
                va, da, vhd, dhd = va2, da2, vhd2, dhd2
            ang = geom.angle_vec(vhd, va)
            n_angle += len(cand)
            dda = np.linalg.norm(va - vhd, axis=-1)  # donor-acceptor separation implied by the two legs
            cb = cos_band(dhd, da, dda, dd)
            m_ang = ang - acut
            m_cos = np.cos(acut) - np.cos(ang)
            sa = three(m_ang, 1e-5)
            sa[np.abs(m_cos) <= cb] = 0
            s = np.minimum(sd[cand], sa)  # AND of three-valued: -1 dominates, then 0
            neg = (sd[cand] < 0) | (sa < 0)
            s[neg] = -1
            if B is not None:
                # the triangle D-H-A must be the same whichever two legs are taken as minimum images: guaranteed when
                # |HD| + |HA| < w_min/2; otherwise "the angle under periodic boundaries" is not defined by the docs
                undef = ~(dhd + da < widths(B).min() / 2 - dd)
                s[undef | bad] = 0  # candidates passed (or may pass) the distance test: only the angle could refute
            st[cand] = s
        state[f] = st
    return state, n_angle


def frequency_decision(state, freq):
    """reported iff (number of frames present)/n_frames > freq.  +1 / -1 / 0 (0: frames in the band could flip it).
    A count with n/n_frames equal to freq up to float64 rounding is 'not more than freq'."""
    nf = state.shape[0]
    lo = (state > 0).sum(axis=0)
    hi = (state >= 0).sum(axis=0)
    fq = Fraction(float(freq))

    def more(n):
        r = Fraction(int(n), nf)
        if abs(float(r) - float(freq)) <= 4e-16 * max(1.0, abs(float(freq))):
            return False
        return r > fq

    table = np.array([more(n) for n in range(nf + 1)], dtype=bool)
    a, b = table[lo], table[hi]
    out = np.zeros(state.shape[1], dtype=np.int8)
    out[a & b] = 1
    out[~a & ~b] = -1
    return out, lo, hi


def wernet_nilsson_frames(xyz64, Bs, trip, M):
    """Per frame three-valued presence: r_DA < 0.33 nm - 0.000044 nm/deg^2 * delta^2, delta = angle at the donor between
    D->H and D->A in degrees."""
    nf = xyz64.shape[0]
    nt = len(trip)
    state = np.full((nf, nt), -1, dtype=np.int8)
    dd = dist_band(M)
    n_angle = 0
    for f in range(nf):
        x = xyz64[f]
        B = None if Bs is None else Bs[f]
        vda, dda, ex = pair_vectors(x, trip[:, 0], trip[:, 2], B)
        pre = three(0.33 - dda, dd)  # necessary condition (delta^2 >= 0)
        if B is not None:
            half = widths(B).min() / 2
            if not 0.33 + dd < half:
                pre[~ex] = 0
        cand = np.where(pre >= 0)[0]
        st = np.full(nt, -1, dtype=np.int8)
        if len(cand):
            t = trip[cand]
            vdh, ddh, _ = pair_vectors(x, t[:, 0], t[:, 1], B)
            va, da = vda[cand], dda[cand]
            bad = np.zeros(len(cand), bool)
            if B is not None:
                va2, da2 = geom.min_image(va, B)
                vdh2, ddh2 = geom.min_image(vdh, B)
                bad = (np.abs(da2 - da) > 1e-9) | (np.abs(ddh2 - ddh) > 1e-9)
                va, da, vdh, ddh = va2, da2, vdh2, ddh2
            ang = geom.angle_vec(vdh, va)
            n_angle += len(cand)
            dha = np.linalg.norm(va - vdh, axis=-1)
            cb = cos_band(da, ddh, dha, dd)
            deg = np.degrees(ang)
            margin = 0.33 - 0.000044 * deg * deg - da
            # d(delta_deg^2) = (180/pi)^2 * 2 * theta/sin(theta) * dcos ; theta/sin(theta) <= 2.2 for theta <= 2 rad, and
            # beyond 2 rad (115 deg) the cone is closed by more than 0.25 nm
            unc = dd + 0.000044 * (180 / np.pi) ** 2 * 2 * 2.2 * cb
            s = three(margin, np.maximum(1e-5, unc))
            s[(ang > 2.0) & (margin < -0.1)] = -1
            neg = s < 0
            if B is not None:
                undef = ~(ddh + da < widths(B).min() / 2 - dd)
                s[undef | bad] = 0
            s[(pre[cand] == 0) & ~neg] = 0
            st[cand] = s
        state[f] = st
    return state, n_angle


# ---------------------------------------------------------------------------------------------- Kabsch-Sander
class KSTables:
    def __init__(self, tab):
        n = tab.n_residues
        self.n = n
        idx = -np.ones((n, 4), dtype=np.int64)  # N, CA, C, O (first atom of that name in the residue)
        for r in range(n):
            for ai in tab.res_atoms[r]:
                nm = tab.name[ai]
                for k, want in enumerate(("N", "CA", "C", "O")):
                    if nm == want and idx[r, k] < 0:
                        idx[r, k] = ai
        self.idx = idx
        self.complete = (idx >= 0).all(axis=1)
        self.none = (idx < 0).all(axis=1)
        self.has_ca = idx[:, 1] >= 0
        self.proline = np.array([rn == "PRO" for rn in tab.resname], dtype=bool)
        self.chain = tab.reschain
        # H position of the donor is documented (design: N + 0.1 nm * unit(C-O of the preceding residue; first residue H = N)
        # only when there IS a preceding residue with C and O in the same chain, or the residue is the very first one
        prev_ok = np.zeros(n, bool)
        prev_ok[1:] = (idx[:-1, 2] >= 0) & (idx[:-1, 3] >= 0)
        same_chain = np.zeros(n, bool)
        same_chain[1:] = self.chain[1:] == self.chain[:-1]
        self.h_from_prev = prev_ok & same_chain
        self.h_is_n = np.zeros(n, bool)
        self.h_is_n[0] = True
        self.h_documented = self.h_from_prev | self.h_is_n
        self.prev_lacks_c_or_o = np.zeros(n, bool)
        self.prev_lacks_c_or_o[1:] = ~prev_ok[1:]


def ks_reference(x, kst, M):
    """One frame.  Returns dict donor -> dict(expected=[(acceptor, E)] best two (or None when undecidable),
    reason=..., cand={acceptor: (E, state)}) for every residue that can be a donor under the documentation, plus
    the set of residues whose role is undocumented."""
    n = kst.n
    idx = kst.idx
    comp = np.where(kst.complete)[0]
    out = {}
    if len(comp) < 2:
        return out, 0, 0
    N = x[idx[comp, 0]]
    CA = x[idx[comp, 1]]
    C = x[idx[comp, 2]]
    O = x[idx[comp, 3]]
    H = N.copy()
    for k, r in enumerate(comp):
        if kst.h_from_prev[r]:
            pc = x[idx[r - 1, 2]]
            po = x[idx[r - 1, 3]]
            v = pc - po
            H[k] = N[k] + 0.1 * v / np.linalg.norm(v)
    dca = np.linalg.norm(CA[:, None, :] - CA[None, :, :], axis=-1)
    band_ca = dist_band(M)
    near = dca < KS_CA + band_ca
    np.fill_diagonal(near, False)
    n_pairs = 0
    n_supp = 0
    wide = (dca >= KS_CA + band_ca) & (dca < KS_CA + 0.6)
    for kd, r in enumerate(comp):
        if kst.proline[r] or not kst.h_documented[r]:
            continue
        for k in np.where(wide[kd])[0]:
            # observability of the prefilter: pairs it suppresses although their energy is below the threshold
            if comp[k] == r - 1:
                continue
            rs = np.array([np.linalg.norm(O[k] - N[kd]), np.linalg.norm(C[k] - H[kd]), np.linalg.norm(O[k] - H[kd]),
                           np.linalg.norm(C[k] - N[kd])])
            if rs.min() > KS_RMIN and KS_COUPLING * (1 / rs[0] + 1 / rs[1] - 1 / rs[2] - 1 / rs[3]) < KS_CUTOFF - 1e-3:
                n_supp += 1
        ka = np.where(near[kd])[0]
        ka = ka[comp[ka] != r - 1]  # NH of residue i+1 and CO of residue i are the peptide bond itself
        cand = {}
        for k in ka:
            rON = np.linalg.norm(O[k] - N[kd])
            rCH = np.linalg.norm(C[k] - H[kd])
            rOH = np.linalg.norm(O[k] - H[kd])
            rCN = np.linalg.norm(C[k] - N[kd])
            rs = np.array([rON, rCH, rOH, rCN])
            n_pairs += 1
            if not np.all(np.isfinite(rs)) or rs.min() < KS_RMIN + band_ca:
                cand[int(comp[k])] = (float("nan"), 0, 0.0)
                continue
            E = KS_COUPLING * (1 / rON + 1 / rCH - 1 / rOH - 1 / rCN)
            # float32 evaluation: each distance uncertain by 4 eps M (H is stored rounded), each term by 4 roundings
            tol = KS_COUPLING * (np.sum(1 / rs ** 2) * 4 * EPS32 * max(M, 1.0) + 8 * EPS32 * np.sum(1 / rs))
            bandE = 1e-4 + tol
            Ec = max(E, KS_CLAMP)
            s = 1 if Ec < KS_CUTOFF - bandE else (-1 if Ec > KS_CUTOFF + bandE else 0)
            if abs(dca[kd, k] - KS_CA) <= band_ca and s >= 0:
                s = 0
            if E < KS_CLAMP + bandE and E > KS_CLAMP - bandE:
                tol = max(tol, abs(E - KS_CLAMP))
            cand[int(comp[k])] = (float(Ec), s, float(tol))
        sure = sorted([(e, a) for a, (e, s, _) in cand.items() if s > 0])
        amb = [a for a, (e, s, _) in cand.items() if s == 0]
        expected, reason = None, None
        if amb and len(sure) < 2:
            reason = "an acceptor within the band of -0.5 kcal/mol, of the CA prefilter or below the minimal distance"
        elif amb and len(sure) >= 2:
            # ambiguous ones sit at about -0.5 (or are undefined): they matter only if they could beat the second best
            worst = sure[1][0]
            if any((not np.isfinite(cand[a][0])) or cand[a][0] < worst + 1e-3 for a in amb):
                reason = "an undecidable acceptor could rank among the best two"
        if reason is None:
            if len(sure) > 2:
                gap = sure[2][0] - sure[1][0]
                if gap <= 1e-4 + cand[sure[1][1]][2] + cand[sure[2][1]][2]:
                    reason = "second and third best energies tie within the band"
            if reason is None:
                expected = [(a, e, cand[a][2]) for e, a in sure[:2]]
        out[int(r)] = dict(expected=expected, reason=reason, n_cand=len(cand), n_sure=len(sure))
    return out, n_pairs, n_supp
