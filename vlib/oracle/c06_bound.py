"""C06 oracle side: float64 optimal-superposition msd with its spectrum, and the analysed comparison bound.

Nothing here imports mdtraj.  `analyse(a32, b32)` takes the *float32 inputs exactly as mdtraj sees them*
(the rows are the paired atoms, already gathered through the caller's index lists), centres them in
float64 and returns the minimal mean-square deviation over proper rotations (SVD Kabsch,
vlib.oracle.geom.kabsch_msd), the optimal rotation, and the spectrum of the 4x4 quaternion key matrix K,
which is known in closed form from the signed singular values s1 >= s2 >= |s3| of the 3x3 inner-product
matrix (s3 carries the sign of its determinant):

    lam = (s1+s2+s3, s1-s2-s3, -s1+s2-s3, -s1-s2+s3),   msd* = (G_A + G_B - 2 lam_1) / N .

Bound (compare on msd, not on rmsd: no square-root blow-up at zero)
--------------------------------------------------------------------
mdtraj's kernel (theobald_rmsd.cpp) centres in float32 (means accumulated in double), accumulates the nine
inner products in float32 over four SIMD lanes, forms the coefficients C2, C1, C0 of the characteristic
polynomial P(x) = x^4 + C2 x^2 + C1 x + C0 of K in float32, solves the quartic in double and returns
(G_A + G_B - 2 lam)/N.  Error sources, each turned into a term of the bound:

 (a) rounding of the inner products, of the traces and of the final float32 result: a perturbation of K
     of norm <= eps32 * c * sqrt(G_A G_B); eigenvalues of a symmetric matrix move by at most that much
     whatever the gaps are, so msd moves by  eps32 * (C0 + C1*N) * (G_A + G_B)/N  (the N term is the
     float32 accumulation over N/4 additions per lane; it was observed to grow much slower than linearly).
 (b) rounding of the polynomial coefficients: P is perturbed by dP <= CP * eps32 * S^4 with S = max|lam|
     (17 fourth-order products in detK).  The largest root then moves by x with
         x (x+g2)(x+g3)(x+g4) = dP,      g_k = lam_1 - lam_k  (float64, from the oracle),
     hence x <= x_up = min( dP/(g2 g3 g4), sqrt(dP/(g3 g4)), cbrt(dP/g4), dP^(1/4) ).
     This is the conditioning factor of DESIGN section 3-C06: it is ~ CP*eps32*S/8 when the spectrum is
     well separated and grows to ~ sqrt(CP*eps32)*S/2 when the two largest eigenvalues coincide (planar /
     3-4 atom inputs, mirror images of structures with two equal principal moments), where the quartic
     root is intrinsically a square-root function of the coefficients.  msd moves by 2 x_up / N.
 (c) the float32 mean: every centred atom carries the same offset delta <= eps32 * D (D = largest
     coordinate magnitude); because the exactly centred coordinates sum to zero, this only enters at second
     order:  <= 3 (eps32 D)^2 per structure pair.  (The subtraction x - mean itself is exact: both are
     float32 of the same binade scale and their difference has fewer significant bits.)

    bound = MARGIN * [ eps32 (C0 + C1 N) (G_A+G_B)/N + (2/N) x_up(CP eps32 S^4; g) ] + CD (eps32 D)^2

In the notation of DESIGN ("eps32 (c0 + c1 N) kappa ((G_A+G_B)/N + D^2)") this is c0 = MARGIN*C0 = 32,
c1 = MARGIN*C1 = 1/64 and kappa = 1 + (2/N) x_up / (eps32 (C0 + C1 N)(G_A+G_B)/N) >= 1 computed from the float64
spectrum; it is never larger than the DESIGN form (a + b*k <= (a+b)*k for k >= 1) and replaces the first-order
D^2 term by the second-order one derived in (c), which is what lets a float32-accumulated centroid at a
300 nm offset be seen.

Observation that froze the constants (unchanged tree, 24 000 structure pairs: N in 3..67, 100, 1000, 4000;
shapes random / near-planar / exactly planar / anisotropic / two equal moments / near-collinear (sigma2/sigma1
~ 1e-2); relations unrelated / 1e-4, 1e-2, 1e-1 perturbations / identical / mirror / perturbed mirror;
scales 0.03..3 nm; offsets 0..300 nm):
  * spectrum well separated (g2 > S/2): |rmsd^2 - msd*| / (eps32 (G_A+G_B)/N) <= 3.5 for N <= 67, 4.1 at N=100,
    4.4 at N=1000, 6.1 at N=4000   -> C0 = 4, C1 = 1/512 cover it (4.1 ... 11.8);
  * all pairs: the CP needed on top of that never exceeded 15.3, uniformly over g2/S from 1e-7 to 1
    -> CP = 16;  no dependence on D was visible (term (c) is ~1e-9 nm^2 at 300 nm) -> CD = 32 (10x the derivation);
  * MARGIN = 8 multiplies the whole observed-level model, so the margin is 8x in the linear *and* in the
    square-root regime of (b).
A dropped or double-counted atom, swapped traces, a wrong SIMD remainder or an improper rotation shifts msd by
~ (G_A+G_B)/N, i.e. 1e5..1e7 times eps32 (G_A+G_B)/N, far outside the bound also at kappa ~ 1e3.

Domain: >= 3 atoms, neither structure collinear.  `analyse` reports sigma2/sigma1 of both centred structures; the
caller skips a pair when either ratio is below COLLINEAR (1e-3): such inputs are outside the property.
"""
from __future__ import annotations

import numpy as np

from vlib.oracle import geom

EPS32 = geom.EPS32
MARGIN = 8.0
C0 = 4.0
C1 = 1.0 / 512.0
CP = 16.0
CD = 32.0
COLLINEAR = 1e-3
# superpose: per-atom position error of centring + float32 rotation matrix + float32 rotation arithmetic + adding the
# reference centroid, in units of eps32 * (R_s + M_f)   (R_s: largest distance of an atom from the centroid of the
# alignment atoms, M_f: largest final coordinate).  Derivation: centring rounds by eps32*|c|; the float32 rotation
# matrix built from a float32-normalised quaternion is orthogonal to ~8 eps32; three products and two sums per
# component give 3*sqrt(3) eps32 |c|; adding the reference centroid rounds by eps32*|final|: <= eps32 (14.2 R_s + M_f)
# per atom, twice that for a distance.  Observed on the unchanged tree (24 000 superpositions): distance change
# <= 4.8 eps32 (R_s + M_f).  Frozen: 40 (8x the observation, above the worst-case derivation of 28.4 R_s + 2 M_f).
DIST_C = 40.0
# the C kernel refuses to build a rotation when its (unnormalised) quaternion has squared norm < 1e-11 *absolute*;
# that quaternion is column 0 of adj(K - lam I) = prod_k(lam_k - lam_1) * w * v_1, so its squared norm is
# (g2 g3 g4 w)^2 with w = cos(theta/2) of the optimal rotation.
QSQR_KERNEL_THRESHOLD = 1e-11
# ... and the kernel holds that squared norm in a float32: it overflows to inf above 3.4e38, the normalised quaternion
# becomes 0 and the "rotation" is the zero matrix (G ~ N R_g^2 of a few 1e6 nm^2)
QSQR_FLOAT32_OVERFLOW = 1e38
HALF_TURN_W = 0.05


def x_up(dP, g2, g3, g4):
    """Upper bound of the shift of the largest root of a quartic whose value is perturbed by dP (see module docstring)."""
    with np.errstate(divide="ignore", invalid="ignore", over="ignore"):
        c = [np.where(g2 * g3 * g4 > 0, dP / (g2 * g3 * g4), np.inf),
             np.where(g3 * g4 > 0, np.sqrt(dP / (g3 * g4)), np.inf),
             np.where(g4 > 0, np.cbrt(dP / g4), np.inf),
             dP ** 0.25]
    return np.minimum(np.minimum(c[0], c[1]), np.minimum(c[2], c[3]))


class Pair:
    """Float64 analysis of one (target conformation, reference conformation) pair."""
    __slots__ = ("n", "msd", "R", "lam", "g", "S", "Ga", "Gb", "w", "col_a", "col_b", "qsqr", "planar", "det_sign")

    def bound(self, D=0.0):
        n = self.n
        acc = EPS32 * (C0 + C1 * n) * (self.Ga + self.Gb) / n
        eig = 2.0 / n * float(x_up(CP * EPS32 * self.S ** 4, self.g[0], self.g[1], self.g[2]))
        return MARGIN * (acc + eig) + CD * (EPS32 * D) ** 2

    def kappa(self):
        n = self.n
        acc = EPS32 * (C0 + C1 * n) * (self.Ga + self.Gb) / n
        eig = 2.0 / n * float(x_up(CP * EPS32 * self.S ** 4, self.g[0], self.g[1], self.g[2]))
        return 1.0 + eig / acc if acc > 0 else 1.0

    @property
    def in_domain(self):
        return self.n >= 3 and self.col_a >= COLLINEAR and self.col_b >= COLLINEAR


def _sigma_ratio(c):
    ev = np.linalg.eigvalsh(c.T @ c)
    if ev[2] <= 0:
        return 0.0
    return float(np.sqrt(max(ev[1], 0.0) / ev[2]))


def analyse(a32, b32):
    a = np.asarray(a32, np.float64)
    b = np.asarray(b32, np.float64)
    p = Pair()
    p.n = len(a)
    msd, R, S, d, Ga, Gb = geom.kabsch_msd(a, b)
    s1, s2, s3 = S[0], S[1], S[2] * d
    lam = np.array([s1 + s2 + s3, s1 - s2 - s3, -s1 + s2 - s3, -s1 - s2 + s3])
    p.msd, p.R, p.lam, p.Ga, p.Gb = float(msd), R, lam, float(Ga), float(Gb)
    p.g = np.maximum(lam[0] - lam[1:], 0.0)
    p.S = float(max(abs(lam[0]), abs(lam[3])))
    p.w = float(np.sqrt(max(0.0, 1.0 + np.trace(R))) / 2.0)  # scalar part of the optimal unit quaternion
    p.col_a = _sigma_ratio(a - a.mean(0))
    p.col_b = _sigma_ratio(b - b.mean(0))
    p.qsqr = float((p.g[0] * p.g[1] * p.g[2] * p.w) ** 2)
    p.det_sign = float(d)
    return p


def nofit_msd(x, y):
    """Plain mean square deviation, no fitting, float64."""
    d = np.asarray(x, np.float64) - np.asarray(y, np.float64)
    return float((d * d).sum() / len(d))


def rigid_fit(before, after):
    """float64: how well is `after` a proper rigid image of `before`?  returns (rms residual, applied rotation)."""
    before = np.asarray(before, np.float64)
    after = np.asarray(after, np.float64)
    if before.shape != after.shape or not (np.isfinite(before).all() and np.isfinite(after).all()):
        return float("inf"), np.eye(3)
    msd, R, S, d, Ga, Gb = geom.kabsch_msd(before, after)
    # explicit residual with the optimal proper rotation (the trace formula cancels to only sqrt(eps64) accuracy)
    r = (before - before.mean(0)) @ R - (after - after.mean(0))
    return float(np.sqrt((r * r).sum() / len(r))), R


def rmsf_oracle(X32, ref32):
    """Per-atom root-mean-square fluctuation about the mean of the optimally superposed (float64 Kabsch) frames."""
    X = np.asarray(X32, np.float64)
    b = np.asarray(ref32, np.float64)
    b = b - b.mean(0)
    out = np.empty_like(X)
    for i, x in enumerate(X):
        a = x - x.mean(0)
        _, R, *_ = geom.kabsch_msd(a, b)
        out[i] = a @ R
    m = out.mean(0)
    return ((out - m) ** 2).sum(-1).mean(0)  # squared
