"""Reference model of DSSP secondary-structure assignment (property C15).

Written from the published rules -- Kabsch & Sander, Biopolymers 22 (1983) 2577, section "Pattern recognition" -- and
the description of the DSSP-2.2.0 program that mdtraj's docstring names as its basis ("prefer pi helices" variant).
It is declarative (sets of residues per pattern), float64, and never calls mdtraj.

Input (one frame)
  hb        set of pairs (a, d): "Hbond(a, d)" in the notation of the paper = the C=O of residue a accepts the N-H of
            residue d.  This is exactly entry [a, d] of the matrix md.kabsch_sander reports (row = C=O, column = N-H).
  complete  bool[n_res]: residue has N, CA, C and O (only these residues can be i or j of any pattern)
  chain     int[n_res]: chain index of the residue
  ca        float64[n_res, 3]: C-alpha positions (rows of incomplete residues are ignored)

Rules (K&S notation)
  chain segments   maximal runs of consecutive complete residues of one chain.  A pattern must lie inside one
                   segment: an n-turn i..i+n, the two triples i-1,i,i+1 / j-1,j,j+1 of a bridge, the five residues
                   i-2..i+2 of a bend.  (Option na_breaks=False gives the laxer reading in which an incomplete residue
                   only has no H-bonds and no CA of its own but does not interrupt the chain; option extra_breaks adds
                   breaks from a peptide-bond-length criterion.)
  n-turn(i)        Hbond(i, i+n), n = 3, 4, 5
  minimal helix    n-turn(i-1) and n-turn(i)  =>  residues i .. i+n-1
  bridge(i, j)     |i-j| >= 3 (non-overlapping triples);
                   parallel      [Hbond(i-1,j) and Hbond(j,i+1)] or [Hbond(j-1,i) and Hbond(i,j+1)]
                   antiparallel  [Hbond(i,j) and Hbond(j,i)]     or [Hbond(i-1,j+1) and Hbond(j-1,i+1)]
  ladder           maximal run of consecutive bridges of one type: (i,j),(i+1,j+1).. or (i,j),(i+1,j-1)..
  bulge link       two ladders of one type, the second starting after the first on strand 1 with a gap of g1 residues,
                   and following it on strand 2 (in the direction of the ladder type) with a gap of g2 residues:
                   linked when 0 <= g1, 0 <= g2 and (max(g1,g2) <= 4 and min(g1,g2) <= 1); linked ladders form one
                   ladder whose strands include the gap residues
  E / B            every residue of the strands of a (linked) ladder of >= 2 bridges is E; of a single bridge, B
  priorities       H (alpha, n=4) overrides everything; E over B; a 3-10 minimal helix becomes G only if none of its
                   three residues is already H, E or B; a pi minimal helix becomes I only if none of its five residues
                   is E, B or G (it replaces H: "prefer pi helices")
  T                residue not assigned so far that lies inside an n-turn: i+1 .. i+n-1 of n-turn(i)
  S                residue not assigned so far with kappa(i) = angle(CA(i)-CA(i-2), CA(i+2)-CA(i)) > 70 degrees
  ' '              everything else; incomplete residues are reported as 'NA'

Options that select between readings the publication does not fix (the caller skips residues on which they matter):
  both_type     'parallel' | 'antiparallel': type of a pair that satisfies both bridge patterns
  eb_priority   'E' | 'B': code of a residue that is in a ladder of >= 2 bridges and also in an isolated bridge
  shared_gap    False | True: allow g2 == -1 (the two ladders share one residue on strand 2) in a bulge link
  link_mode     'max' | 'min': when a ladder could be bulge-linked to two ladders on the same side (the outcome of a
                sequential program then depends on its visiting order) make all such links / none of them
Ladders whose second strands overlap (g2 < -1) are never bulge-linked: there is no gap.
"""
from __future__ import annotations

import math
from collections import Counter

import numpy as np

BEND_DEG = 70.0
FULL_ALPHABET = ("H", "B", "E", "G", "I", "T", "S", " ")
SIMPLIFIED = {"H": "H", "G": "H", "I": "H", "E": "E", "B": "E", "T": "C", "S": "C", " ": "C", "NA": "NA"}


def segments(complete, chain, na_breaks=True, extra_breaks=()):
    """segment id per residue (-1: residue cannot belong to any pattern on its own).

    na_breaks=True : runs of consecutive complete residues of one chain (incomplete residues get -1)
    na_breaks=False: runs of consecutive residues of one chain, complete or not
    extra_breaks   : iterable of r meaning "break between r and r+1" """
    n = len(complete)
    seg = np.full(n, -1, dtype=np.int64)
    extra = set(int(r) for r in extra_breaks)
    cur = -1
    prev_ok = False
    for r in range(n):
        member = bool(complete[r]) or not na_breaks
        if not member:
            prev_ok = False
            continue
        if not (prev_ok and chain[r] == chain[r - 1] and (r - 1) not in extra):
            cur += 1
        seg[r] = cur
        prev_ok = True
    return seg


def kappa_deg(ca, i):
    u = ca[i] - ca[i - 2]
    v = ca[i + 2] - ca[i]
    nu = math.sqrt(float(u @ u))
    nv = math.sqrt(float(v @ v))
    if not (nu > 0 and nv > 0) or not math.isfinite(nu * nv):
        return float("nan")
    cr = np.cross(u, v)
    return math.degrees(math.atan2(math.sqrt(float(cr @ cr)), float(u @ v)))


class Result:
    __slots__ = ("codes", "branches", "bend_margin", "info")

    def __init__(self, codes, branches, bend_margin, info):
        self.codes = codes            # list[str] length n_res, 'NA' for incomplete residues
        self.branches = branches      # Counter of rule branches that fired
        self.bend_margin = bend_margin  # dict residue -> |kappa-70| for residues whose code hinges on the bend test
        self.info = info              # dict with bridges, ladders (for witnesses)


def assign(hb, complete, chain, ca, na_breaks=True, extra_breaks=(), both_type="parallel", eb_priority="E",
           shared_gap=False, link_mode="max"):
    n = len(complete)
    complete = np.asarray(complete, bool)
    chain = np.asarray(chain)
    br = Counter()
    seg = segments(complete, chain, na_breaks, extra_breaks)

    def same(a, b):
        return 0 <= a < n and 0 <= b < n and seg[a] >= 0 and seg[a] == seg[b]

    hb = set((int(a), int(d)) for a, d in hb)

    # ---- n-turns -------------------------------------------------------------------------------------------------
    turn = {3: set(), 4: set(), 5: set()}
    for (a, d) in hb:
        k = d - a
        if k in (3, 4, 5):
            if complete[a] and complete[d] and same(a, d):
                turn[k].add(a)
                br["turn%d" % k] += 1
            else:
                br["turn%d-rejected:not-one-chain-segment" % k] += 1

    def minimal(k):
        return sorted(i for i in turn[k] if (i - 1) in turn[k])

    # ---- bridges -------------------------------------------------------------------------------------------------
    par, anti = set(), set()

    def add(store, x, y, name):
        i, j = (x, y) if x < y else (y, x)
        if i == j:
            return
        if j - i < 3:
            br["bridge-rejected:|i-j|<3"] += 1
            return
        if not (0 <= i and j < n and complete[i] and complete[j]):
            br["bridge-rejected:incomplete-residue"] += 1
            return
        if not (same(i - 1, i + 1) and same(j - 1, j + 1)):
            br["bridge-rejected:triple-not-in-one-chain-segment"] += 1
            return
        if (i, j) not in store:
            store.add((i, j))
            br[name] += 1

    for (a, d) in hb:
        if (d, a + 2) in hb:          # Hbond(x-1, y) and Hbond(y, x+1) with x = a+1, y = d
            add(par, a + 1, d, "bridge:parallel")
        if (d, a) in hb:              # Hbond(x, y) and Hbond(y, x)
            add(anti, a, d, "bridge:antiparallel:Hbond(i,j)&Hbond(j,i)")
        if (d - 2, a + 2) in hb:      # Hbond(x-1, y+1) and Hbond(y-1, x+1) with x = a+1, y = d-1
            add(anti, a + 1, d - 1, "bridge:antiparallel:Hbond(i-1,j+1)&Hbond(j-1,i+1)")
    both = par & anti
    if both:
        br["bridge:both-types"] += len(both)
        if both_type == "parallel":
            anti -= both
        else:
            par -= both

    # ---- ladders -------------------------------------------------------------------------------------------------
    ladders = []  # dict(type, i0, i1, j0, j1, nb)   strand 1 = [i0,i1], strand 2 = [j0,j1] (j0 <= j1)
    for typ, store, step in (("P", par, 1), ("A", anti, -1)):
        for (i, j) in sorted(store):
            if (i - 1, j - step) in store:
                continue  # not the first bridge of its run
            k = 0
            while (i + k + 1, j + step * (k + 1)) in store:
                k += 1
            jj = (j, j + step * k)
            ladders.append(dict(type=typ, i0=i, i1=i + k, j0=min(jj), j1=max(jj), nb=k + 1))
            br["ladder:%s:%s" % ("parallel" if typ == "P" else "antiparallel", "single-bridge" if k == 0 else "run")] += 1

    # ---- bulge links ---------------------------------------------------------------------------------------------
    parent = list(range(len(ladders)))

    def find(x):
        while parent[x] != x:
            parent[x] = parent[parent[x]]
            x = parent[x]
        return x

    def hull(x, y=None):
        ls = [ladders[x]] + ([ladders[y]] if y is not None else [])
        out = set(range(min(l["i0"] for l in ls), max(l["i1"] for l in ls) + 1))
        out.update(range(min(l["j0"] for l in ls), max(l["j1"] for l in ls) + 1))
        return out

    links = []
    overlap_residues = set()
    for x, A in enumerate(ladders):
        for y, B in enumerate(ladders):
            if x == y or A["type"] != B["type"]:
                continue
            g1 = B["i0"] - A["i1"] - 1
            if g1 < 0:
                continue
            g2 = (B["j0"] - A["j1"] - 1) if A["type"] == "P" else (A["j0"] - B["j1"] - 1)
            lo2 = 0 if not shared_gap else -1
            if g2 < lo2:
                if g1 <= 4:
                    if g2 == -1:
                        br["bulge-rejected:shared-residue-on-strand-2"] += 1
                    else:
                        # the second strands overlap: there is no gap, hence no bulge; remembered for witnesses
                        br["bulge-rejected:overlapping-second-strands"] += 1
                        overlap_residues |= hull(x, y)
                continue
            if not (max(g1, g2) <= 4 and min(g1, g2) <= 1):
                continue
            if not (same(min(A["i0"], B["i0"]), max(A["i1"], B["i1"])) and
                    same(min(A["j0"], B["j0"]), max(A["j1"], B["j1"]))):
                br["bulge-rejected:not-in-one-chain-segment"] += 1
                continue
            links.append((x, y, g1, g2))
            br["bulge:%s:gaps(%d,%d)" % ("parallel" if A["type"] == "P" else "antiparallel", min(g1, g2), max(g1, g2))] += 1
    # a ladder that could be linked to two ladders on the same side: which links are made depends on the order in
    # which a program visits the ladders -- the rules do not say.  link_mode 'max' makes all links, 'min' none of
    # the links that touch such a ladder.
    outdeg, indeg = Counter(x for x, y, _, _ in links), Counter(y for x, y, _, _ in links)
    ambiguous = set(x for x, c in outdeg.items() if c > 1) | set(y for y, c in indeg.items() if c > 1)
    ambiguous_residues = set()
    if ambiguous:
        br["bulge:ambiguous-link-order"] += len(ambiguous)
    for (x, y, g1, g2) in links:
        if x in ambiguous or y in ambiguous:
            ambiguous_residues |= hull(x, y)
            if link_mode == "min":
                continue
        parent[find(x)] = find(y)
    comps = {}
    for x in range(len(ladders)):
        comps.setdefault(find(x), []).append(x)

    E, B = set(), set()
    linked = []
    for members in comps.values():
        ls = [ladders[m] for m in members]
        nb = sum(l["nb"] for l in ls)
        s1 = range(min(l["i0"] for l in ls), max(l["i1"] for l in ls) + 1)
        s2 = range(min(l["j0"] for l in ls), max(l["j1"] for l in ls) + 1)
        linked.append(dict(type=ls[0]["type"], nb=nb, s1=(s1[0], s1[-1]), s2=(s2[0], s2[-1]), parts=len(ls)))
        (E if nb >= 2 else B).update(s1)
        (E if nb >= 2 else B).update(s2)
    if E & B:
        br["E-and-B-on-one-residue"] += len(E & B)
    if eb_priority == "E":
        B -= E
    else:
        E -= B

    # ---- assignment with priorities ------------------------------------------------------------------------------
    code = [" "] * n
    for r in E:
        code[r] = "E"
    for r in B:
        code[r] = "B"
    for i in minimal(4):
        br["helix:alpha"] += 1
        for r in range(i, i + 4):
            if code[r] in "EB":
                br["helix:alpha-overrides-" + code[r]] += 1
            code[r] = "H"
    after_h = list(code)
    for i in minimal(3):
        rs = range(i, i + 3)
        if all(after_h[r] == " " for r in rs):
            br["helix:3-10"] += 1
            for r in rs:
                code[r] = "G"
        else:
            blockers = "".join(sorted(set(after_h[r] for r in rs) - {" "}))
            br["helix:3-10-blocked-by-" + blockers] += 1
    after_g = list(code)
    for i in minimal(5):
        rs = range(i, i + 5)
        if all(after_g[r] in " H" for r in rs):
            br["helix:pi"] += 1
            if any(after_g[r] == "H" for r in rs):
                br["helix:pi-replaces-alpha"] += 1
            for r in rs:
                code[r] = "I"
        else:
            blockers = "".join(sorted(set(after_g[r] for r in rs) - {" ", "H"}))
            br["helix:pi-blocked-by-" + blockers] += 1

    inside = set()
    for k in (3, 4, 5):
        for i in turn[k]:
            inside.update(range(i + 1, i + k))
    bend_margin = {}
    for r in range(n):
        if not complete[r]:
            code[r] = "NA"
            continue
        if code[r] != " ":
            continue
        if r in inside:
            code[r] = "T"
            br["T"] += 1
            continue
        if r - 2 >= 0 and r + 2 < n and complete[r - 2] and complete[r + 2] and same(r - 2, r + 2):
            kap = kappa_deg(ca, r)
            bend_margin[r] = abs(kap - BEND_DEG) if kap == kap else 0.0
            if kap > BEND_DEG:
                code[r] = "S"
                br["S"] += 1
            else:
                br["loop:kappa<=70"] += 1
        else:
            br["loop:no-kappa(chain-end-or-break)"] += 1
    if overlap_residues:
        # witness region: the (linked) ladders that contain such a pair, gap residues included, widened by 4 residues
        # (G/I minimal helices are all-or-nothing, so a strand residue that loses or gains E/B changes helix codes up
        # to 4 residues away)
        for L in linked:
            h = set(range(L["s1"][0], L["s1"][1] + 1)) | set(range(L["s2"][0], L["s2"][1] + 1))
            if h & overlap_residues:
                overlap_residues |= h
        overlap_residues = set(q for r in overlap_residues for q in range(r - 4, r + 5))
    return Result(code, br, bend_margin, dict(par=par, anti=anti, ladders=ladders, linked=linked, links=links,
                                                turn=turn, seg=seg, overlap_residues=overlap_residues,
                                                ambiguous_residues=ambiguous_residues))


def simplified(codes):
    return [SIMPLIFIED[c] for c in codes]
