"""C04 oracle: topology fingerprints, pure-python models of the transformations, structural invariants, PDB text parser.

Nothing in here calls an mdtraj transformation. `fingerprint` and `invariants` only *read* public attributes of the
real objects (chains -> residues -> atoms traversal, bond tuples); every expectation is computed on plain tuples/lists.

Fingerprint F(top):
    atoms    [(name, element symbol, serial, residue position)]      in traversal order
    residues [(name, resSeq, segment_id, chain position)]
    chains   [(chain_id,)]
    bonds    sorted [(i, j, type name, order)]    i<j = the `.index` of the two atom objects the bond holds
"""
from __future__ import annotations

import os
import xml.etree.ElementTree as etree

import numpy as np

# --------------------------------------------------------------------------------------------- fingerprint


def _num(v):
    if isinstance(v, (np.integer,)):
        return int(v)
    if isinstance(v, (np.floating,)):
        v = float(v)
    if isinstance(v, float):
        if v != v:
            return None  # a data frame marks a missing serial (None) as NaN: both mean "no value"
        if v == int(v):
            return int(v)
    return v


def _s(v):
    return None if v is None else str(v)


def fingerprint(top):
    chains, residues, atoms = [], [], []
    for ci, ch in enumerate(top.chains):
        chains.append((_s(ch.chain_id),))
        for res in ch.residues:
            ri = len(residues)
            residues.append((_s(res.name), _num(res.resSeq), _s(res.segment_id), ci))
            for a in res.atoms:
                el = a.element
                atoms.append((_s(a.name), None if el is None else str(el.symbol), _num(a.serial), ri))
    bonds = []
    for b in top.bonds:
        i, j = int(b[0].index), int(b[1].index)
        bonds.append((min(i, j), max(i, j), None if b.type is None else repr(b.type), _num(b.order)))
    bonds.sort(key=lambda t: (t[0], t[1], str(t[2]), str(t[3])))
    return dict(atoms=atoms, residues=residues, chains=chains, bonds=bonds)


def fp_copy(F):
    return dict(atoms=list(F["atoms"]), residues=list(F["residues"]), chains=list(F["chains"]), bonds=list(F["bonds"]))


def _sortb(bonds):
    return sorted(bonds, key=lambda t: (t[0], t[1], str(t[2]), str(t[3])))


# --------------------------------------------------------------------------------------------- models


def restrict(F, idx):
    """subset: keep atoms in idx (order of the topology), drop emptied residues/chains, renumber, keep bonds with both
    ends kept.  Returns (F', old residue position of each new residue)."""
    keep = sorted(set(int(i) for i in idx))
    new_of = {o: n for n, o in enumerate(keep)}
    res_old = []
    for o in keep:
        ri = F["atoms"][o][3]
        if not res_old or res_old[-1] != ri:
            if ri in res_old:
                raise AssertionError("fingerprint residues are not contiguous")
            res_old.append(ri)
    chain_old = []
    for ri in res_old:
        ci = F["residues"][ri][3]
        if not chain_old or chain_old[-1] != ci:
            chain_old.append(ci)
    rmap = {o: n for n, o in enumerate(res_old)}
    cmap = {o: n for n, o in enumerate(chain_old)}
    atoms = [F["atoms"][o][:3] + (rmap[F["atoms"][o][3]],) for o in keep]
    residues = [F["residues"][o][:3] + (cmap[F["residues"][o][3]],) for o in res_old]
    chains = [F["chains"][o] for o in chain_old]
    bonds = _sortb([(new_of[i], new_of[j], t, o) for (i, j, t, o) in F["bonds"] if i in new_of and j in new_of])
    return dict(atoms=atoms, residues=residues, chains=chains, bonds=bonds), res_old


def concat(F1, F2, keep_resSeq=True):
    """join: concatenation; with keep_resSeq=False the joined residues continue from the resSeq of the residue of
    the last atom of the first topology (documented: 'continue from the last resSeq of this topology')."""
    na, nr, nc = len(F1["atoms"]), len(F1["residues"]), len(F1["chains"])
    atoms = list(F1["atoms"]) + [a[:3] + (a[3] + nr,) for a in F2["atoms"]]
    residues = list(F1["residues"])
    if keep_resSeq:
        residues += [r[:3] + (r[3] + nc,) for r in F2["residues"]]
    else:
        last = F1["residues"][F1["atoms"][-1][3]][1]
        for k, r in enumerate(F2["residues"]):
            residues.append((r[0], last + 1 + k, r[2], r[3] + nc))
    chains = list(F1["chains"]) + list(F2["chains"])
    bonds = _sortb(list(F1["bonds"]) + [(i + na, j + na, t, o) for (i, j, t, o) in F2["bonds"]])
    return dict(atoms=atoms, residues=residues, chains=chains, bonds=bonds)


def residue_start(F, ri):
    return sum(1 for a in F["atoms"] if a[3] < ri)


def residue_len(F, ri):
    return sum(1 for a in F["atoms"] if a[3] == ri)


def m_insert_atom(F, index, name, sym, serial, ri):
    G = fp_copy(F)
    G["atoms"].insert(index, (name, sym, serial, ri))
    G["bonds"] = _sortb([(i + (i >= index), j + (j >= index), t, o) for (i, j, t, o) in F["bonds"]])
    return G


def m_delete_atom(F, index):
    """returns (F', bonded) ; bonds touching the deleted atom are dropped in the model (mdtraj leaves them dangling:
    the caller does not compare bonds in that case)."""
    G = fp_copy(F)
    del G["atoms"][index]
    bonded = any(i == index or j == index for (i, j, _, _) in F["bonds"])
    G["bonds"] = _sortb([(i - (i > index), j - (j > index), t, o) for (i, j, t, o) in F["bonds"] if index not in (i, j)])
    return G, bonded


def m_add_bond(F, i, j, t, o):
    G = fp_copy(F)
    G["bonds"] = _sortb(G["bonds"] + [(min(i, j), max(i, j), t, o)])
    return G


# --------------------------------------------------------------------------------------------- comparison

ALL_FIELDS = ["atoms.name", "atoms.element", "atoms.serial", "atoms.residue", "residues.name", "residues.resSeq",
              "residues.segment_id", "residues.chain", "chains.chain_id", "bonds.pairs", "bonds.type", "bonds.order"]
_COL = {"atoms.name": ("atoms", 0), "atoms.element": ("atoms", 1), "atoms.serial": ("atoms", 2), "atoms.residue": ("atoms", 3),
        "residues.name": ("residues", 0), "residues.resSeq": ("residues", 1), "residues.segment_id": ("residues", 2),
        "residues.chain": ("residues", 3), "chains.chain_id": ("chains", 0)}


def compare(Fe, Fa, fields=None, tx=None):
    """-> (list of (field, first index, expected, actual), number of fields compared).
    fields: iterable of field names to compare (default all); tx: {field: f(value)->value} applied to both sides, or
    {field: (f_expected, f_actual)}; a transform returning the sentinel SKIP removes that item from the comparison."""
    fields = list(ALL_FIELDS if fields is None else fields)
    tx = tx or {}
    diffs, ncmp = [], 0
    counts_ok = {}
    for level in ("atoms", "residues", "chains"):
        ncmp += 1
        counts_ok[level] = len(Fe[level]) == len(Fa[level])
        if not counts_ok[level]:
            diffs.append((level + ".count", None, len(Fe[level]), len(Fa[level])))
    for f in fields:
        if f in _COL:
            level, col = _COL[f]
            if not counts_ok[level]:
                continue
            ncmp += 1
            fe = fa = tx.get(f)
            if isinstance(fe, tuple):
                fe, fa = fe
            for k, (e, a) in enumerate(zip(Fe[level], Fa[level])):
                ev = e[col] if fe is None else fe(e[col])
                av = a[col] if fa is None else fa(a[col])
                if ev is SKIP or av is SKIP:
                    continue
                if ev != av:
                    diffs.append((f, k, ev, av))
                    break
    if any(f.startswith("bonds.") for f in fields) and counts_ok["atoms"]:
        pe = sorted((i, j) for (i, j, _, _) in Fe["bonds"])
        pa = sorted((i, j) for (i, j, _, _) in Fa["bonds"])
        if "bonds.pairs" in fields:
            ncmp += 1
            if pe != pa:
                se, sa = set(pe), set(pa)
                miss, extra = sorted(se - sa), sorted(sa - se)
                diffs.append(("bonds.pairs", None, dict(missing=miss[:4], n_missing=len(miss), n_expected=len(pe)),
                              dict(extra=extra[:4], n_extra=len(extra), n_actual=len(pa))))
        if pe == pa:
            for f, col in (("bonds.type", 2), ("bonds.order", 3)):
                if f in fields:
                    ncmp += 1
                    ve = sorted((b[0], b[1], str(b[col])) for b in Fe["bonds"])
                    va = sorted((b[0], b[1], str(b[col])) for b in Fa["bonds"])
                    if ve != va:
                        k = next(k for k in range(len(ve)) if ve[k] != va[k])
                        diffs.append((f, k, ve[k], va[k]))
    return diffs, ncmp


class _Skip:
    def __repr__(self):
        return "SKIP"


SKIP = _Skip()


def differing_fields(Fa, Fb):
    d, _ = compare(Fa, Fb)
    return sorted({x[0] for x in d})


# --------------------------------------------------------------------------------------------- invariants

INVARIANTS = ["numAtoms-counter", "atom-index-is-position", "partition-in-order", "residue-chain-index-contiguous",
              "backpointers", "bond-ends-are-own-atoms"]


def invariants(top):
    """-> {invariant name: None if it holds else a short message}.  Reads private lists on purpose: the invariants are
    about the consistency of Topology._atoms/_residues/_chains/_bonds/_numAtoms/_numResidues with one another."""
    out = {}
    atoms_l = top._atoms
    n = len(atoms_l)
    msg = None
    if top._numAtoms != n:
        msg = f"_numAtoms={top._numAtoms} but len(_atoms)={n}"
    elif top._numResidues != len(top._residues):
        msg = f"_numResidues={top._numResidues} but len(_residues)={len(top._residues)}"
    elif top.n_atoms != n or top.n_residues != len(top._residues):
        msg = "n_atoms/n_residues disagree with the lists"
    out["numAtoms-counter"] = msg
    msg = None
    for k, a in enumerate(atoms_l):
        if a is None or a.index != k:
            msg = f"_atoms[{k}].index == {getattr(a, 'index', None)}"
            break
    out["atom-index-is-position"] = msg
    # chains -> residues -> atoms traversal is exactly _atoms / _residues, in order, same objects
    msg = None
    trav_atoms, trav_res = [], []
    for ch in top._chains:
        for r in ch._residues:
            trav_res.append(r)
            trav_atoms.extend(r._atoms)
    if len(trav_atoms) != n:
        msg = f"traversal yields {len(trav_atoms)} atoms, _atoms holds {n}"
    else:
        for k in range(n):
            if trav_atoms[k] is not atoms_l[k]:
                msg = f"traversal atom {k} is not _atoms[{k}]"
                break
    if msg is None:
        if len(trav_res) != len(top._residues):
            msg = f"traversal yields {len(trav_res)} residues, _residues holds {len(top._residues)}"
        else:
            for k, r in enumerate(trav_res):
                if r is not top._residues[k]:
                    msg = f"traversal residue {k} is not _residues[{k}]"
                    break
    out["partition-in-order"] = msg
    msg = None
    for k, ch in enumerate(top._chains):
        if ch.index != k:
            msg = f"chain at position {k} has index {ch.index}"
            break
    if msg is None:
        for k, r in enumerate(trav_res):
            if r.index != k:
                msg = f"residue at position {k} has index {r.index}"
                break
    out["residue-chain-index-contiguous"] = msg
    msg = None
    for ch in top._chains:
        if ch.topology is not top:
            msg = f"chain {ch.index}.topology is another object"
            break
        for r in ch._residues:
            if r.chain is not ch:
                msg = f"residue {r.index}.chain is not its chain"
                break
            for a in r._atoms:
                if a.residue is not r:
                    msg = f"atom {a.index}.residue is not its residue"
                    break
            if msg:
                break
        if msg:
            break
    out["backpointers"] = msg
    msg = None
    for k, b in enumerate(top._bonds):
        for a in (b[0], b[1]):
            i = a.index
            if not (isinstance(i, (int, np.integer)) and 0 <= i < n and atoms_l[i] is a):
                msg = f"bond {k} end with index {i} is not this topology's _atoms[{i}] object"
                break
        if msg:
            break
    out["bond-ends-are-own-atoms"] = msg
    return out


# --------------------------------------------------------------------------------------------- PDB text

# residues whose internal connectivity is implied by the PDB format (no CONECT): the 20 amino acids, the nucleotides, water
PDB_STANDARD = {"ALA", "ASN", "CYS", "GLU", "HIS", "LEU", "MET", "PRO", "THR", "TYR", "ARG", "ASP", "GLN", "GLY", "ILE",
                "LYS", "PHE", "SER", "TRP", "VAL", "A", "G", "C", "U", "I", "DA", "DG", "DC", "DT", "DI", "HOH"}


def conect_documented(F):
    """bonds the PDB format expresses with CONECT: an end in a non-standard residue, or a CYS SG - CYS SG bridge"""
    out = []
    for (i, j, _, _) in F["bonds"]:
        ai, aj = F["atoms"][i], F["atoms"][j]
        ri, rj = F["residues"][ai[3]][0], F["residues"][aj[3]][0]
        if ri not in PDB_STANDARD or rj not in PDB_STANDARD:
            out.append((i, j))
        elif ai[0] == "SG" and aj[0] == "SG" and ri == "CYS" and rj == "CYS":
            out.append((i, j))
    return sorted(set(out))


def parse_pdb_text(text):
    """First model only.  -> dict(records=[('ATOM', serial, name, resName, chain, resSeq, segid, element) | ('TER', serial)],
    conect=[[serial,...]])  -- fixed columns of the wwPDB 3.x format."""
    records, conect = [], []
    in_first = True
    seen_model = False
    for line in text.splitlines():
        rec = line[:6]
        if rec.startswith("MODEL"):
            if seen_model:
                in_first = False
            seen_model = True
        elif rec in ("ATOM  ", "HETATM") and in_first:
            records.append(("ATOM", int(line[6:11]), line[12:16].strip(), line[17:20].strip(), line[21:22],
                            int(line[22:26]), line[72:76].strip(), line[76:78].strip()))
        elif rec.startswith("TER") and in_first:
            s = line[6:11].strip()
            records.append(("TER", int(s) if s else None))
        elif rec == "CONECT":
            body = line[6:].rstrip()
            nums = [body[k:k + 5] for k in range(0, len(body), 5)]
            conect.append([int(x) for x in nums if x.strip()])
    return dict(records=records, conect=conect)


_TEMPLATES = {}


def template_residue_names(mdtraj_dir):
    """names in formats/pdb/data/residues.xml: residues for which the PDB *reader* adds template bonds by itself"""
    if mdtraj_dir not in _TEMPLATES:
        tree = etree.parse(os.path.join(mdtraj_dir, "formats", "pdb", "data", "residues.xml"))
        _TEMPLATES[mdtraj_dir] = {r.attrib["name"] for r in tree.getroot().findall("Residue")}
    return _TEMPLATES[mdtraj_dir]


# --------------------------------------------------------------------------------------------- wider alphabet (appended)
# builders used on a transformed topology, bond-creating methods, read-only queries


def m_add_chain(F, chain_id):
    G = fp_copy(F)
    G["chains"].append((chain_id,))
    return G


def m_add_residue(F, name, resSeq, segment_id):
    """add_residue(name, LAST chain, resSeq, segment_id); resSeq None -> 'the residue's sequential (0 based) index' (documented)"""
    G = fp_copy(F)
    G["residues"].append((name, len(F["residues"]) if resSeq is None else resSeq, segment_id, len(F["chains"]) - 1))
    return G


def m_add_atom(F, name, sym, serial):
    """add_atom(name, element, LAST residue, serial)"""
    G = fp_copy(F)
    G["atoms"].append((name, sym, serial, len(F["residues"]) - 1))
    return G


def components(F):
    """connected components of the bond graph: set of frozensets of atom positions (find_molecules)"""
    n = len(F["atoms"])
    parent = list(range(n))

    def find(i):
        while parent[i] != i:
            parent[i] = parent[parent[i]]
            i = parent[i]
        return i
    for (i, j, _, _) in F["bonds"]:
        ri, rj = find(i), find(j)
        if ri != rj:
            parent[ri] = rj
    comp = {}
    for i in range(n):
        comp.setdefault(find(i), set()).add(i)
    return {frozenset(c) for c in comp.values()}


def unique_pairs(a, b):
    """select_pairs: unique unordered pairs {x, y}, x in a, y in b, x != y"""
    return {frozenset((int(x), int(y))) for x in a for y in b if int(x) != int(y)}


_BOND_TEMPLATES = {}


def standard_bond_templates(mdtraj_dir):
    """{residue name: [(from, to)]} of formats/pdb/data/residues.xml ('-X' = atom X of the previous residue of the chain)"""
    if mdtraj_dir not in _BOND_TEMPLATES:
        tree = etree.parse(os.path.join(mdtraj_dir, "formats", "pdb", "data", "residues.xml"))
        _BOND_TEMPLATES[mdtraj_dir] = {r.attrib["name"]: [(b.attrib["from"], b.attrib["to"]) for b in r.findall("Bond")]
                                       for r in tree.getroot().findall("Residue")}
    return _BOND_TEMPLATES[mdtraj_dir]


def m_standard_bonds(F, templates):
    """create_standard_bonds: for every residue whose name has a template, every template bond whose two atom names are
    present (in the residue, or for '-X' in the previous residue of the same chain).  -> (set of (i, j) pairs, unambiguous)
    unambiguous = no residue involved carries an atom name twice (then 'the atom with that name' is well defined)."""
    by_res = {}
    for i, a in enumerate(F["atoms"]):
        by_res.setdefault(a[3], []).append(i)
    pairs, unambiguous = set(), True
    for ri, res in enumerate(F["residues"]):
        tpl = templates.get(res[0])
        if not tpl:
            continue
        prev = ri - 1 if ri > 0 and F["residues"][ri - 1][3] == res[3] else None
        for (fr, to) in tpl:
            ends = []
            for nm in (fr, to):
                rr = ri
                if nm.startswith("-"):
                    if prev is None:
                        ends = None
                        break
                    rr, nm = prev, nm[1:]
                hits = [i for i in by_res.get(rr, []) if F["atoms"][i][0] == nm]
                if not hits:
                    ends = None
                    break
                if len(hits) > 1:
                    unambiguous = False
                ends.append(hits[-1])
            if ends and ends[0] != ends[1]:
                pairs.add((min(ends), max(ends)))
    return pairs, unambiguous


def m_disulfide(F, positions, cutoff=0.3):
    """create_disulfide_bonds(positions): SG-SG pairs of CYS residues that have an SG and no HG, closer than 0.3 nm.
    -> (pairs, margin_ok): margin_ok False when some distance is within 1e-6 of the cutoff (undecidable)"""
    sgs = []
    by_res = {}
    for i, a in enumerate(F["atoms"]):
        by_res.setdefault(a[3], []).append(i)
    for ri, res in enumerate(F["residues"]):
        if res[0] != "CYS":
            continue
        names = [F["atoms"][i][0] for i in by_res.get(ri, [])]
        if "SG" in names and "HG" not in names:
            sgs.append(by_res[ri][names.index("SG")])
    pairs, ok = set(), True
    for x in range(len(sgs)):
        for y in range(x):
            d = float(np.linalg.norm(np.asarray(positions[sgs[x]], float) - np.asarray(positions[sgs[y]], float)))
            if abs(d - cutoff) < 1e-6:
                ok = False
            if d < cutoff:
                pairs.add((min(sgs[x], sgs[y]), max(sgs[x], sgs[y])))
    return pairs, ok
