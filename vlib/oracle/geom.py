"""float64 reference geometry, written from definitions (never imports mdtraj code paths)."""
from __future__ import annotations

import itertools

import numpy as np

EPS32 = 2.0 ** -24


def image_range(B, reach):
    """Number of images R per lattice axis such that every lattice vector within `reach` of the origin
    has |n_i| <= R_i.  Uses the reciprocal basis: |n_i| = |r . b*_i| <= |r| |b*_i|."""
    Binv = np.linalg.inv(B)  # columns are reciprocal vectors (for row-vector convention r = n @ B)
    norms = np.linalg.norm(Binv, axis=0)
    return np.ceil(reach * norms + 1e-9).astype(int)


def reduce_basis(B):
    """Pairwise (Gauss) reduction of the lattice basis rows of B; returns B' spanning the same lattice."""
    B = np.array(B, dtype=np.float64)
    for _ in range(100):
        changed = False
        order = np.argsort(np.einsum("ij,ij->i", B, B))
        B = B[order]
        for i in range(3):
            for j in range(i):
                k = np.round(B[i] @ B[j] / (B[j] @ B[j]))
                if k != 0:
                    B[i] = B[i] - k * B[j]
                    changed = True
        if not changed:
            break
    return B


def min_image(d, B, search=2):
    """Brute-force minimum image of displacement(s) d (..,3) in the lattice with rows B (3,3), float64.

    The lattice basis is first reduced (same lattice), the displacement is brought next to the origin by
    rounding its fractional coordinates, then all (2*search+1)^3 neighbouring images are compared.
    Returns (vmin, dmin)."""
    d = np.asarray(d, dtype=np.float64)
    Br = reduce_basis(B)
    shape = d.shape[:-1]
    d2 = d.reshape(-1, 3)
    frac = d2 @ np.linalg.inv(Br)
    base = d2 - np.round(frac) @ Br
    best = base.copy()
    bestd = np.einsum("ij,ij->i", base, base)
    rng_ = range(-search, search + 1)
    for n in itertools.product(rng_, rng_, rng_):
        if n == (0, 0, 0):
            continue
        cand = base + np.array(n, dtype=np.float64) @ Br
        cd = np.einsum("ij,ij->i", cand, cand)
        m = cd < bestd
        if m.any():
            best[m] = cand[m]
            bestd[m] = cd[m]
    return best.reshape(shape + (3,)), np.sqrt(bestd).reshape(shape)


def min_image_exhaustive(d, B, R):
    """Plain exhaustive search over n in [-R,R]^3 of the *given* basis (slow; used to validate min_image)."""
    d = np.asarray(d, np.float64).reshape(-1, 3)
    bestd = np.full(len(d), np.inf)
    for n in itertools.product(range(-R, R + 1), repeat=3):
        cand = d + np.array(n, dtype=np.float64) @ B
        bestd = np.minimum(bestd, np.einsum("ij,ij->i", cand, cand))
    return np.sqrt(bestd)


def lattice_residual(v, B):
    """Distance of v (..,3) from the lattice spanned by rows of B, in fractional units (max norm)."""
    f = np.asarray(v, np.float64) @ np.linalg.inv(np.asarray(B, np.float64))
    return np.abs(f - np.round(f)).max(axis=-1)


def angle64(a, b, c):
    """angle at b, in [0,pi]; inputs (..,3) float64 bond vectors are built by the caller"""
    u = a - b
    v = c - b
    return angle_vec(u, v)


def angle_vec(u, v):
    cr = np.linalg.norm(np.cross(u, v), axis=-1)
    dt = np.einsum("...i,...i->...", u, v)
    return np.arctan2(cr, dt)


def dihedral_vec(b1, b2, b3):
    """IUPAC signed torsion from three consecutive bond vectors."""
    c1 = np.cross(b1, b2)
    c2 = np.cross(b2, b3)
    p1 = np.einsum("...i,...i->...", b1, c2) * np.linalg.norm(b2, axis=-1)
    p2 = np.einsum("...i,...i->...", c1, c2)
    return np.arctan2(p1, p2)


def kabsch_msd(A, Bm):
    """Minimal mean-square deviation over proper rotations+translations (float64). Returns msd, R, key-matrix gap."""
    A = np.asarray(A, np.float64)
    Bm = np.asarray(Bm, np.float64)
    a = A - A.mean(0)
    b = Bm - Bm.mean(0)
    H = a.T @ b
    U, S, Vt = np.linalg.svd(H)
    d = np.sign(np.linalg.det(U @ Vt))
    if d == 0:
        d = 1.0
    Sd = S.copy()
    Sd[-1] *= d
    Ga = (a * a).sum()
    Gb = (b * b).sum()
    msd = max((Ga + Gb - 2 * Sd.sum()) / len(A), 0.0)
    D = np.diag([1, 1, d])
    R = U @ D @ Vt  # a @ R ~ b
    return msd, R, S, d, Ga, Gb


def cdist_pairs(xyz, pairs):
    xyz = np.asarray(xyz, np.float64)
    return np.linalg.norm(xyz[pairs[:, 1]] - xyz[pairs[:, 0]], axis=-1)


def min_image_batch(d, B, search=2):
    """min_image for many frames at once: d (F,P,3) displacements, B (F,3,3) lattices (rows a,b,c).  Same algorithm as
    min_image (per-frame reduced basis, rounding, (2*search+1)^3 images), vectorised over frames.  Returns (vmin, dmin)."""
    d = np.asarray(d, dtype=np.float64)
    Br = np.stack([reduce_basis(b) for b in np.asarray(B, dtype=np.float64)])
    frac = np.einsum("fpi,fij->fpj", d, np.linalg.inv(Br))
    base = d - np.einsum("fpi,fij->fpj", np.round(frac), Br)
    best = base.copy()
    bestd = np.einsum("fpi,fpi->fp", base, base)
    rng_ = range(-search, search + 1)
    for n in itertools.product(rng_, rng_, rng_):
        if n == (0, 0, 0):
            continue
        cand = base + (np.array(n, dtype=np.float64) @ Br)[:, None, :]
        cd = np.einsum("fpi,fpi->fp", cand, cand)
        m = cd < bestd
        if m.any():
            best[m] = cand[m]
            bestd[m] = cd[m]
    return best, np.sqrt(bestd)
