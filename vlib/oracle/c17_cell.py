"""C17 oracle: float64 unit-cell algebra written from the crystallographic definitions.

Nothing here imports mdtraj.  Conventions (rows of B are a, b, c):
    alpha = angle(b, c), beta = angle(c, a), gamma = angle(a, b)            (degrees)
    V     = a . (b x c) = abc * sqrt(1 - ca^2 - cb^2 - cg^2 + 2 ca cb cg)
"""
from __future__ import annotations

import numpy as np

EPS32 = 2.0 ** -24
DEG = 180.0 / np.pi


def gram_D(angles_deg):
    """D = 1 - ca^2 - cb^2 - cg^2 + 2 ca cb cg  (= (V/abc)^2), vectorised over leading axes."""
    A = np.radians(np.asarray(angles_deg, np.float64))
    ca, cb, cg = np.cos(A[..., 0]), np.cos(A[..., 1]), np.cos(A[..., 2])
    return 1.0 - ca * ca - cb * cb - cg * cg + 2.0 * ca * cb * cg


def closed_volume(lengths, angles_deg):
    L = np.asarray(lengths, np.float64)
    D = gram_D(angles_deg)
    return L[..., 0] * L[..., 1] * L[..., 2] * np.sqrt(np.clip(D, 0.0, None))


def vectors64(lengths, angles_deg):
    """(n,3),(n,3) -> (n,3,3) standard orientation, built from the definitions above (float64)."""
    L = np.atleast_2d(np.asarray(lengths, np.float64))
    A = np.radians(np.atleast_2d(np.asarray(angles_deg, np.float64)))
    n = len(L)
    B = np.zeros((n, 3, 3))
    ca, cb, cg, sg = np.cos(A[:, 0]), np.cos(A[:, 1]), np.cos(A[:, 2]), np.sin(A[:, 2])
    B[:, 0, 0] = L[:, 0]
    B[:, 1, 0] = L[:, 1] * cg
    B[:, 1, 1] = L[:, 1] * sg
    B[:, 2, 0] = L[:, 2] * cb
    B[:, 2, 1] = L[:, 2] * (ca - cb * cg) / sg
    B[:, 2, 2] = np.sqrt(np.clip(L[:, 2] ** 2 - B[:, 2, 0] ** 2 - B[:, 2, 1] ** 2, 0.0, None))
    return B


def angle_between(u, v):
    """well-conditioned angle in degrees (atan2 of |u x v| and u.v)"""
    u = np.asarray(u, np.float64)
    v = np.asarray(v, np.float64)
    cr = np.linalg.norm(np.cross(u, v), axis=-1)
    dt = np.einsum("...i,...i->...", u, v)
    return np.degrees(np.arctan2(cr, dt))


def describe(B):
    """(n,3,3) -> lengths (n,3), angles (n,3) [alpha,beta,gamma], triple product (n,)  — all float64"""
    B = np.asarray(B, np.float64)
    a, b, c = B[:, 0], B[:, 1], B[:, 2]
    L = np.stack([np.linalg.norm(a, axis=1), np.linalg.norm(b, axis=1), np.linalg.norm(c, axis=1)], axis=1)
    A = np.stack([angle_between(b, c), angle_between(c, a), angle_between(a, b)], axis=1)
    vol = np.einsum("ni,ni->n", a, np.cross(b, c))
    return L, A, vol


def sin_deg(x):
    return np.sin(np.radians(np.asarray(x, np.float64)))


def angle_tol32(angles_deg, nconv=1.0):
    """Bound (degrees) on the error of an angle that went through `nconv` float32 lengths/angles<->vectors
    conversions.  degree->radian conversion in float32: |theta| * 2 eps32 <= 8 eps32 rad (not amplified);
    cos/sin/products/quotient in float32: <= ~32 eps32 absolute error on the cosine, amplified by 1/sin(theta)
    when the angle is recovered."""
    s = np.clip(sin_deg(angles_deg), 1e-6, None)
    return nconv * (8 * EPS32 * DEG + 32 * EPS32 * DEG / s)


def volume_reltol32(angles_deg, extra=0.0):
    """Relative bound on a volume computed through float32 box vectors.

    c_z^2 = c^2 - c_x^2 - c_y^2 is formed by cancellation.  With q = c_z^2/c^2 = D/sin^2(gamma), the float32
    evaluation of c_z^2/c^2 carries an absolute error <= ~(20 + 20/sin(gamma)) eps32 (each cosine <= 6 eps32 including
    the float32 degree->radian conversion, c_y additionally divided by sin(gamma)), hence
        rel(c_z) <= (20 + 20/sin g) eps32 / (2 q) = 10 (sin^2 g + sin g) eps32 / D <= 20 sin(g) eps32 / D.
    The bound used is twice that, 40 eps32 sin(gamma) / D, plus `extra` eps32 / D for errors already present in the
    stored angles (set-from-vectors path: each angle <= 32 eps32/sin, dD/dangle <= 4 sin) plus 16 eps32 for the
    float32 determinant."""
    D = np.clip(gram_D(angles_deg), 1e-300, None)
    sg = sin_deg(np.asarray(angles_deg)[..., 2])
    return (40.0 * sg + extra) * EPS32 / D + 16 * EPS32
