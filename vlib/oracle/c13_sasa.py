"""C13 oracle: float64 Shrake-Rupley on the documented golden-section-spiral point set.

Written from the shrake_rupley docstring (points on the sphere of radius r_vdw + probe around each nucleus, a
point is accessible when it is not within the expanded radius of any other atom, area = 4*pi*R^2 * accessible
fraction) and the golden-section-spiral definition  y_k = (2k+1)/n - 1,  phi_k = k*pi*(3-sqrt 5),
p_k = (cos(phi_k) sqrt(1-y_k^2), y_k, sin(phi_k) sqrt(1-y_k^2)).  Nothing here calls mdtraj.

Every point/neighbour decision carries its float64 margin  m = dist(point, centre_j) - R_j.  A point is
  robustly buried      if m < -band for SOME neighbour,
  robustly accessible  if m > +band for ALL neighbours,
  ambiguous            otherwise,
so the reference is an integer interval [lo, hi] of admissible accessible-point counts per atom.

band (per point k of atom i) = 1e-5 nm (the band the property states)
      + position uncertainty of the float32 evaluation of the documented formula, derived with u = 2^-24:
          azimuth   |dphi_k| <= 2u*phi_k   (float32 constant pi(3-sqrt5), float32 product k*inc)
          height    |dy_k|   <= 5u,  |dr_k| <= 6u/r_k + u
          => R_i*(r_k*2u*phi_k + 6u/r_k + 8u), doubled for safety
      + 8u*(max|coordinate| + R_i + R_j) for float32 coordinates, float32 radii (r+probe) and the float32
        squared-distance comparison.
For n <= 100 the derived part is < 5e-6 nm, at n = 960 it reaches 6e-5 nm for the last points of the spiral."""
from __future__ import annotations

import math

import numpy as np

U32 = 2.0 ** -24
EPS32 = 2.0 ** -23
BAND0 = 1e-5

# the documented radii table (mdtraj/geometry/sasa.py, Bondi / Mantina vdW radii, Shannon ionic radii for
# Li Na K Cs Be Mg Ca Ba Cl, 0.2 nm where unknown) frozen at the pinned commit, nm
RADII = {
    "H": 0.120, "He": 0.140, "Li": 0.076, "Be": 0.059, "B": 0.192, "C": 0.170, "N": 0.155, "O": 0.152,
    "F": 0.147, "Ne": 0.154, "Na": 0.102, "Mg": 0.086, "Al": 0.184, "Si": 0.210, "P": 0.180, "S": 0.180,
    "Cl": 0.181, "Ar": 0.188, "K": 0.138, "Ca": 0.114, "Sc": 0.211, "Ti": 0.200, "V": 0.200, "Cr": 0.200,
    "Mn": 0.200, "Fe": 0.200, "Co": 0.200, "Ni": 0.163, "Cu": 0.140, "Zn": 0.139, "Ga": 0.187, "Ge": 0.211,
    "As": 0.185, "Se": 0.190, "Br": 0.185, "Kr": 0.202, "Rb": 0.303, "Sr": 0.249, "Y": 0.200, "Zr": 0.200,
    "Nb": 0.200, "Mo": 0.200, "Tc": 0.200, "Ru": 0.200, "Rh": 0.200, "Pd": 0.163, "Ag": 0.172, "Cd": 0.158,
    "In": 0.193, "Sn": 0.217, "Sb": 0.206, "Te": 0.206, "I": 0.198, "Xe": 0.216, "Cs": 0.167, "Ba": 0.149,
    "La": 0.200, "Ce": 0.200, "Pr": 0.200, "Nd": 0.200, "Pm": 0.200, "Sm": 0.200, "Eu": 0.200, "Gd": 0.200,
    "Tb": 0.200, "Dy": 0.200, "Ho": 0.200, "Er": 0.200, "Tm": 0.200, "Yb": 0.200, "Lu": 0.200, "Hf": 0.200,
    "Ta": 0.200, "W": 0.200, "Re": 0.200, "Os": 0.200, "Ir": 0.200, "Pt": 0.175, "Au": 0.166, "Hg": 0.155,
    "Tl": 0.196, "Pb": 0.202, "Bi": 0.207, "Po": 0.197, "At": 0.202, "Rn": 0.220, "Fr": 0.348, "Ra": 0.283,
    "Ac": 0.200, "Th": 0.200, "Pa": 0.200, "U": 0.186, "Np": 0.200, "Pu": 0.200, "Am": 0.200, "Cm": 0.200,
    "Bk": 0.200, "Cf": 0.200, "Es": 0.200, "Fm": 0.200, "Md": 0.200, "No": 0.200, "Lr": 0.200, "Rf": 0.200,
    "Db": 0.200, "Sg": 0.200, "Bh": 0.200, "Hs": 0.200, "Mt": 0.200, "Ds": 0.200, "Rg": 0.200, "Cn": 0.200,
    "Uut": 0.200, "Fl": 0.200, "Uup": 0.200, "Lv": 0.200, "Uus": 0.200, "Uuo": 0.200,
}


def expanded_radii(symbols, probe, change_radii=None):
    """R_i = r(symbol_i) + probe in float64; KeyError for a symbol with no documented radius."""
    tab = dict(RADII)
    if change_radii:
        tab.update({k: float(v) for k, v in change_radii.items()})
    return np.array([tab[s] for s in symbols], dtype=np.float64) + float(probe)


_PTS = {}


def golden_spiral(n):
    """(points[n,3], phi[n], r_xy[n]) of the documented point set, float64."""
    if n not in _PTS:
        k = np.arange(n, dtype=np.float64)
        y = (2.0 * k + 1.0) / n - 1.0
        r = np.sqrt(np.maximum(1.0 - y * y, 0.0))
        phi = k * (math.pi * (3.0 - math.sqrt(5.0)))
        _PTS[n] = (np.stack([np.cos(phi) * r, y, np.sin(phi) * r], axis=1), phi, r)
    return _PTS[n]


def point_position_uncertainty(n):
    """per-point bound (in units of R) on |float32-evaluated point - documented point|"""
    _, phi, r = golden_spiral(n)
    rr = np.maximum(r, 1e-6)
    return 2.0 * (rr * 2.0 * U32 * phi + 6.0 * U32 / rr + 8.0 * U32)


def reference_counts(xyz, R, n_points, selected=None, band0=BAND0):
    """xyz: (n_atoms,3) (float32 values as given to mdtraj), R: expanded radii (float64).
    Returns lo, hi (int arrays, n_atoms; -1 for unselected atoms): admissible accessible-point counts."""
    x = np.asarray(xyz, dtype=np.float64)
    R = np.asarray(R, dtype=np.float64)
    na = len(x)
    P, _, _ = golden_spiral(n_points)
    unc = point_position_uncertainty(n_points)
    M = float(np.abs(x).max()) if na else 0.0
    Rmax = float(R.max()) if na else 0.0
    lo = np.full(na, -1, dtype=np.int64)
    hi = np.full(na, -1, dtype=np.int64)
    sel = range(na) if selected is None else [int(i) for i in selected]
    for i in sel:
        band = band0 + R[i] * unc + 8.0 * U32 * (M + R[i] + Rmax)  # (n_points,)
        d_c = np.sqrt(((x - x[i]) ** 2).sum(axis=1))
        nb = np.where(d_c < R[i] + R + 2.0 * band.max())[0]
        nb = nb[nb != i]
        if len(nb) == 0:
            lo[i] = hi[i] = n_points
            continue
        pts = x[i] + R[i] * P
        d = np.sqrt(((pts[:, None, :] - x[nb][None, :, :]) ** 2).sum(axis=2))  # (n_points, n_nb)
        m = d - R[nb][None, :]
        buried = (m < -band[:, None]).any(axis=1)
        free = (m > band[:, None]).all(axis=1)
        lo[i] = int(free.sum())
        hi[i] = int(n_points - buried.sum())
    return lo, hi


def area_per_point(R, n_points):
    return 4.0 * math.pi * np.asarray(R, dtype=np.float64) ** 2 / n_points


def two_sphere_area(R1, R2, d):
    """analytic area of sphere 1 (radius R1) outside sphere 2 (radius R2), centres d apart"""
    full = 4.0 * math.pi * R1 * R1
    if d >= R1 + R2:
        return full
    if d <= R2 - R1:
        return 0.0
    if d <= R1 - R2:
        return full
    h = R1 - (d * d + R1 * R1 - R2 * R2) / (2.0 * d)
    return full - 2.0 * math.pi * R1 * h


def cap_boundary_points(n_points, axis, R1, R2, d):
    """number of points of the documented set whose angular distance to the circle where sphere 2 cuts sphere 1 is
    within one point spacing sqrt(4*pi/n); axis = unit vector from centre 1 to centre 2. None if no cut circle."""
    if d >= R1 + R2 or d <= abs(R1 - R2):
        return None
    P, _, _ = golden_spiral(n_points)
    ca = (d * d + R1 * R1 - R2 * R2) / (2.0 * d * R1)
    alpha = math.acos(max(-1.0, min(1.0, ca)))
    th = np.arccos(np.clip(P @ np.asarray(axis, dtype=np.float64), -1.0, 1.0))
    return int((np.abs(th - alpha) <= math.sqrt(4.0 * math.pi / n_points)).sum())


def static_chunk_starts(n_iter, n_threads):
    """first iteration of every non-empty chunk of `#pragma omp for` with the default (static, unchunked)
    schedule: thread t gets q+1 iterations if t < n_iter % T else q, contiguous, in thread order."""
    T = max(1, int(n_threads))
    q, r = divmod(int(n_iter), T)
    starts = []
    for t in range(T):
        cnt = q + 1 if t < r else q
        s0 = t * (q + 1) if t < r else t * q + r
        if cnt > 0:
            starts.append(s0)
    return starts
