"""C16 oracles: float64 closed forms of the derived descriptors, written from the docstrings / cited definitions.

Nothing here imports an mdtraj code path that it judges.  Topology facts are handed in as plain labels
(atom name, element symbol, residue name, chain index) read off the public topology objects.

Sources of the formulas
  contacts     contact.py docstring: min over the atom pairs a scheme designates; soft-min d = beta / log sum_i exp(beta/d_i)
  com / cog    sum m_i r_i / sum m_i ; mean r_i
  rg           root mean (mass-weighted) square distance from the (mass-weighted) centre (definition of "radius of gyration")
  gyration     S_ab = 1/N sum_i r_ia r_ib about the centre of geometry (shape.py docstring + the NIST page it cites)
  shape        b = l3 - (l1+l2)/2 ; c = l2 - l1 ; kappa^2 = 3/2 sum l_i^2 / (sum l_i)^2 - 1/2 with l1<=l2<=l3 the
               principal moments (eigenvalues of S) -- the docstrings write the same with lambda_i^2 for l_i
  inertia      I_ab = sum_i m_i (r_i^2 d_ab - r_ia r_ib) about the centre of mass (order.py docstring)
  density      sum m / V in dalton nm^-3 converted to kg m^-3 (1 Da nm^-3 = 1.66053906660 kg m^-3)
  dipole       mu = sum_i q_i r_i with r_i the minimum-image position relative to atom 0 built residue-wise as documented
  dielectric   1 + (<M.M> - <M>.<M>) / (3 eps0 V kB T)   (comment/equation cited in the docstring)
  kappa_T      (<V^2> - <V>^2) / (kB T <V>) in bar^-1       (equation cited in the docstring)
  rdf          g(r_b) = n_b / (N_pairs * sum_f 1/V_f * 4/3 pi (e_{b+1}^3 - e_b^3)), e = linspace(r0, r1, n_bins+1), r_b bin centres
  drid         per atom: mean, sqrt(2nd central moment), cbrt(3rd central moment) of 1/d_ij over the other selected atoms
               that are not bonded to it (docstring + Zhou & Caflisch definition; population moments, divisor n)
  nematic      Q_ab = 1/(2N) sum_i (3 e_ia e_ib - d_ab), S2 = largest eigenvalue; director = eigenvector of the smallest
               eigenvalue of the inertia tensor
  karplus      J = A cos^2(phi + phi0) + B cos(phi + phi0) + C with the coefficient sets documented in scalar_couplings.py
"""
from __future__ import annotations

import re

import numpy as np

from vlib.oracle import geom

EPS32 = geom.EPS32

# ---------------------------------------------------------------------------------------------- contacts
STANDARD_AA = frozenset("ALA ARG ASN ASP CYS GLN GLU GLY HIS ILE LEU LYS MET PHE PRO SER THR TRP TYR VAL".split())
KNOWN_NONPROTEIN = frozenset("HOH WAT SOL TIP3 NA CL K ZN MG LIG GOL XS6 NH4 BEZ SO4 PO4".split())
BACKBONE = frozenset(["N", "CA", "C", "O", "H", "HA"])  # backbone heavy atoms plus the hydrogens on N and CA
_SC_HEAVY = re.compile(r"^[CNOS][BGDEZH]\d*$")  # CB, CG1, OD2, NE, NZ, OH, NH1, SG, SD, CH2 ...
_SC_HYD = re.compile(r"^H[BGDEZH]\d*$")  # HB2, HG11, HD1, HE21, HZ3, HH12, HH, HG ...
SCHEMES = ["ca", "closest", "closest-heavy", "sidechain", "sidechain-heavy"]


def residue_table(top):
    """plain labels of a topology: list of dict(name, chain, atoms=[(index, name, symbol)])"""
    out = []
    for r in top.residues:
        out.append(dict(name=r.name, chain=r.chain.index,
                        atoms=[(a.index, a.name, (a.element.symbol if a.element is not None else "")) for a in r.atoms]))
    return out


def residue_class(res):
    if res["name"] in STANDARD_AA:
        return "protein"
    if res["name"] in KNOWN_NONPROTEIN:
        return "nonprotein"
    return "unknown"


def sidechain_class(resname, atomname):
    """'yes' / 'no' / 'ambiguous' for an atom of a standard amino-acid residue."""
    if atomname in BACKBONE:
        return "no"
    if resname == "GLY" and atomname in ("HA2", "HA3", "HA1"):
        return "yes"  # "the sidechain hydrogen" of glycine (text of the function's own warning)
    if _SC_HEAVY.match(atomname) or _SC_HYD.match(atomname):
        return "yes"
    return "ambiguous"  # OXT, H1/H2/H3, HXT, unknown names: terminal / non-standard atoms


def scheme_atoms(res, scheme):
    """Atom index sets of a residue under a scheme.

    Returns (sure, maybe, status): `sure` atoms certainly designated, `maybe` atoms whose membership the documentation
    leaves open (terminal atoms for the sidechain schemes), status 'ok' or a reason why the residue is undecidable."""
    atoms = res["atoms"]
    if scheme == "ca":
        ca = [i for i, n, s in atoms if n == "CA"]
        return ca, [], "ok"
    if scheme == "closest":
        return [i for i, n, s in atoms], [], "ok"
    if scheme == "closest-heavy":
        return [i for i, n, s in atoms if s != "H"], [], "ok"
    cls = residue_class(res)
    if cls == "unknown":
        return [], [], "residue name neither a standard amino acid nor a known non-protein"
    if cls == "nonprotein":
        return [], [], "ok"  # no sidechain: empty set
    sure, maybe = [], []
    gly_h = scheme == "sidechain-heavy" and res["name"] == "GLY"  # documented (warning) special case: hydrogens used
    for i, n, s in atoms:
        c = sidechain_class(res["name"], n)
        if c == "no":
            continue
        if scheme == "sidechain-heavy" and s == "H" and not gly_h:
            continue
        (sure if c == "yes" else maybe).append(i)
    return sure, maybe, "ok"


def has_ca(res):
    return any(n == "CA" for i, n, s in res["atoms"])


def expected_all_pairs(table, ignore_nonprotein):
    """contacts='all': every pair i<j separated by two or more residues (j - i >= 3); with ignore_nonprotein only residues
    containing an alpha carbon.  Returns (same_chain_pairs, inter_chain_pairs): the docstring does not say whether
    residues of different chains count as 'separated by two or more residues', so the second set is an ambiguity band."""
    same, inter = [], []
    n = len(table)
    for i in range(n):
        if ignore_nonprotein and not has_ca(table[i]):
            continue
        for j in range(i + 3, n):
            if ignore_nonprotein and not has_ca(table[j]):
                continue
            (same if table[i]["chain"] == table[j]["chain"] else inter).append((i, j))
    return same, inter


def batched_pair_distances(X, cols, cell):
    """cols: list of (A, B) index lists; returns list of float64 arrays of the len(A)*len(B) distances (min image if cell)."""
    I, J, sizes = [], [], []
    for A, Bs in cols:
        A = np.asarray(A, int)
        Bs = np.asarray(Bs, int)
        ii = np.repeat(A, len(Bs))
        jj = np.tile(Bs, len(A))
        I.append(ii)
        J.append(jj)
        sizes.append(len(ii))
    if not sizes or sum(sizes) == 0:
        return [np.zeros(0) for _ in cols]
    I = np.concatenate(I)
    J = np.concatenate(J)
    raw = X[J] - X[I]
    if cell is None:
        d = np.linalg.norm(raw, axis=1)
    else:
        d = geom.min_image(raw, cell)[1]
    out, k = [], 0
    for s in sizes:
        out.append(d[k:k + s])
        k += s
    return out


def soft_min(d, beta):
    """beta / log sum_i exp(beta / d_i), evaluated stably in float64.  Returns (value, logS)."""
    x = beta / d
    m = x.max()
    logS = m + np.log(np.exp(x - m).sum())
    return beta / logS, logS


# ---------------------------------------------------------------------------------------------- centres, size, shape
ATOMIC_WEIGHT = {"H": 1.008, "C": 12.011, "N": 14.007, "O": 15.999, "S": 32.06, "P": 30.974, "Na": 22.990, "Cl": 35.45,
                 "Fe": 55.845, "K": 39.098, "Zn": 65.38, "Mg": 24.305, "VS": 0.0}


def center_of_mass(X, m):
    return (m[:, None] * X).sum(0) / m.sum()


def rg(X, m=None):
    """sqrt( sum w_i |r_i - c|^2 ), w = m / sum m, c = sum w_i r_i  (equal weights when m is None)."""
    w = np.full(len(X), 1.0 / len(X)) if m is None else m / m.sum()
    c = (w[:, None] * X).sum(0)
    return float(np.sqrt((w * ((X - c) ** 2).sum(1)).sum()))


def rg_mass_weights_about_centroid(X, m):
    """NOT the definition: mass weights but distances from the unweighted mean position (used only to name a mechanism)."""
    w = m / m.sum()
    c = X.mean(0)
    return float(np.sqrt((w * ((X - c) ** 2).sum(1)).sum()))


def gyration_tensor(X):
    Y = X - X.mean(0)
    return Y.T @ Y / len(X)


def inertia_tensor(X, m):
    Y = X - center_of_mass(X, m)
    r2 = (Y * Y).sum(1)
    return (m * r2).sum() * np.eye(3) - (m[:, None, None] * Y[:, :, None] * Y[:, None, :]).sum(0)


def shape_descriptors(lam):
    l1, l2, l3 = np.sort(lam)
    b = l3 - 0.5 * (l1 + l2)
    c = l2 - l1
    s = l1 + l2 + l3
    k2 = 1.5 * (l1 * l1 + l2 * l2 + l3 * l3) / (s * s) - 0.5 if s > 0 else float("nan")
    return b, c, k2


# ---------------------------------------------------------------------------------------------- thermodynamics
DALTON_PER_NM3_IN_KG_PER_M3 = 1.66053906660  # CODATA 2018 atomic mass constant 1.66053906660e-27 kg / 1e-27 m^3
KB = 1.380649e-23  # J/K
EPS0 = 8.8541878128e-12  # F/m
E_CHARGE = 1.602176634e-19  # C


def cell_volume(B):
    return abs(float(np.linalg.det(B)))


def density(mass_total, B):
    return mass_total / cell_volume(B) * DALTON_PER_NM3_IN_KG_PER_M3


def dipole(X, q, first_of_residue, cell):
    """sum_i q_i [ mic(x_i - x_first(i)) + mic(x_first(i) - x_0) ]  in e nm (position relative to atom 0, built residue-wise)."""
    fi = np.asarray(first_of_residue, int)
    loc = X - X[fi]
    mol = X[fi] - X[0]
    if cell is not None:
        loc = geom.min_image(loc, cell)[0]
        mol = geom.min_image(mol, cell)[0]
    return (q[:, None] * (loc + mol)).sum(0), loc, mol


def static_dielectric(M, V, T):
    """M (n_frames,3) in e nm, V (n_frames) in nm^3."""
    var = (M * M).sum(1).mean() - (M.mean(0) ** 2).sum()
    return 1.0 + var * (E_CHARGE * 1e-9) ** 2 / (3.0 * EPS0 * V.mean() * 1e-27 * KB * T)


def kappa_T(V, T, ddof):
    """(<V^2>-<V>^2)/(kB T <V>) in 1/bar; V in nm^3."""
    return np.var(V, ddof=ddof) / V.mean() * 1e-27 / (KB * T) * 1e5


# ---------------------------------------------------------------------------------------------- rdf
def rdf_edges(r0, r1, n_bins):
    return np.linspace(r0, r1, n_bins + 1)


def rdf_norm(edges, n_pairs, sum_inv_V):
    shell = 4.0 / 3.0 * np.pi * (edges[1:] ** 3 - edges[:-1] ** 3)
    return n_pairs * sum_inv_V * shell


def histogram_bounds(d, edges, tau):
    """Counts per bin with an ambiguity band: lo = distances certainly inside the bin, hi = lo + distances within tau of
    one of its edges (they may fall on either side after float32 rounding).  Last bin is closed on the right."""
    d = np.asarray(d, float).ravel()
    nb = len(edges) - 1
    lo = np.zeros(nb, int)
    hi = np.zeros(nb, int)
    idx = np.searchsorted(edges, d, side="right") - 1  # bin b: edges[b] <= d < edges[b+1]
    idx[d == edges[-1]] = nb - 1
    near = np.abs(d[:, None] - edges[None, :]) <= tau  # (nd, nb+1)
    amb = near.any(1)
    for b in range(nb):
        inside = (idx == b) & ~amb
        lo[b] = inside.sum()
        touch = amb & (near[:, b] | near[:, b + 1] | (idx == b))
        hi[b] = lo[b] + touch.sum()
    return lo, hi, int(amb.sum())


# ---------------------------------------------------------------------------------------------- drid
def drid(X, atom_indices, bonded):
    """X (n_atoms,3) float64; bonded: dict atom -> set of bonded atoms.  Returns (n_sel,3) moments, (n_sel,) raw third
    central moments, partner counts, and max 1/d per atom (for tolerances)."""
    sel = list(atom_indices)
    selset = set(sel)
    out = np.full((len(sel), 3), np.nan)
    m3s = np.full(len(sel), np.nan)
    npart = np.zeros(len(sel), int)
    rmax = np.zeros(len(sel))
    for k, i in enumerate(sel):
        partners = sorted(selset - {i} - bonded.get(i, set()))
        npart[k] = len(partners)
        if not partners:
            continue
        d = np.linalg.norm(X[partners] - X[i], axis=1)
        if d.min() <= 0:
            continue
        r = 1.0 / d
        mu = r.mean()
        m2 = ((r - mu) ** 2).mean()
        m3 = ((r - mu) ** 3).mean()
        out[k] = (mu, np.sqrt(m2), np.cbrt(m3))
        m3s[k] = m3
        rmax[k] = r.max()
    return out, m3s, npart, rmax


# ---------------------------------------------------------------------------------------------- order
def q_tensor(dirs):
    e = dirs / np.linalg.norm(dirs, axis=1)[:, None]
    return (3.0 * e[:, :, None] * e[:, None, :] - np.eye(3)).sum(0) / (2.0 * len(e))


def nematic_s2(dirs):
    return float(np.linalg.eigvalsh(q_tensor(dirs)).max())


# ---------------------------------------------------------------------------------------------- karplus
DEG = np.pi / 180.0
KARPLUS = {
    "HN_HA": {"Ruterjans1999": (7.90, -1.05, 0.65, -60 * DEG), "Bax2007": (8.4, -1.36, 0.33, -60 * DEG),
              "Bax1997": (7.09, -1.42, 1.55, -60 * DEG)},
    "HN_C": {"Bax2007": (4.36, -1.08, -0.01, 180 * DEG)},
    "HN_CB": {"Bax2007": (3.71, -0.59, 0.08, 60 * DEG)},
}


def karplus(phi, A, B, C, phi0):
    c = np.cos(phi + phi0)
    return A * c * c + B * c + C


def karplus_slope(A, B):
    return 2 * abs(A) + abs(B)  # |dJ/dphi| <= |A sin(2x)| + |B sin x|
