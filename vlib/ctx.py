"""Per-case recording context handed to property modules: three-valued results + observation counters."""
from __future__ import annotations

import hashlib
import json

import numpy as np


def jsonable(o, depth=0):
    if isinstance(o, dict):
        return {str(k): jsonable(v, depth + 1) for k, v in o.items()}
    if isinstance(o, (list, tuple, set, frozenset)):
        return [jsonable(v, depth + 1) for v in o]
    if isinstance(o, np.ndarray):
        if o.size > 64:
            return {"shape": list(o.shape), "dtype": str(o.dtype), "head": jsonable(o.ravel()[:16].tolist())}
        return jsonable(o.tolist(), depth + 1)
    if isinstance(o, (np.integer,)):
        return int(o)
    if isinstance(o, (np.floating,)):
        return float(o)
    if isinstance(o, (np.bool_,)):
        return bool(o)
    if isinstance(o, float):
        if o != o or o in (float("inf"), float("-inf")):
            return repr(o)
        return o
    if isinstance(o, (int, str, bool)) or o is None:
        return o
    if isinstance(o, bytes):
        return o[:64].hex()
    return repr(o)[:300]


def case_hash(case):
    return hashlib.sha256(json.dumps(jsonable(case), sort_keys=True).encode()).hexdigest()[:16]


class Ctx:
    """Collects the outcome of one case.

    ok(check)                 -- the monitor `check` observed an execution and it conformed
    violation(check,key,what) -- refuted; `key` is the mechanism identifier used for known findings
    skip(check,reason)        -- not decided (ambiguity band, legitimately refused input, out of domain)
    observe(name,value)       -- what the monitors saw (formats, team sizes, branches...) for the evidence
    """

    def __init__(self, prop, case):
        self.prop = prop
        self.case = case
        self.ok_counts = {}
        self.skips = {}
        self.violations = []
        self.observed = {}
        self.notes = []

    def ok(self, check, n=1):
        self.ok_counts[check] = self.ok_counts.get(check, 0) + n

    def skip(self, check, reason, n=1):
        k = f"{check}: {reason}"
        self.skips[k] = self.skips.get(k, 0) + n

    def violation(self, check, key, what, **detail):
        if not key.startswith(self.prop + "/"):
            key = f"{self.prop}/{key}"
        if len(self.violations) < 40:
            self.violations.append(dict(check=check, key=key, what=str(what)[:600], detail=jsonable(detail)))
        else:
            self.violations[-1].setdefault("more", 0)
            self.violations[-1]["more"] += 1

    def observe(self, name, value=None, n=1):
        d = self.observed.setdefault(name, {})
        v = "" if value is None else str(value)
        d[v] = d.get(v, 0) + n

    def check(self, cond, check, key, what, **detail):
        if cond:
            self.ok(check)
        else:
            self.violation(check, key, what, **detail)
        return bool(cond)

    def note(self, s):
        if len(self.notes) < 5:
            self.notes.append(str(s)[:300])

    def record(self):
        return dict(case=jsonable(self.case), hash=case_hash(self.case), ok=self.ok_counts, skips=self.skips,
                    violations=self.violations, observed=self.observed, notes=self.notes)
