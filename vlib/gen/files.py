"""Trajectory files with self-identifying frames, for the file-format properties (C02, C18, C19, C20, C01).

Frame f, atom a carries coordinates (nm) that identify (f, a) after any format's quantisation:
   x = (f % 40) + a/64      y = -((f % 40)/2 + a/64)     z = ((f*7) % 13) + a/32
all exactly representable in float32 with steps >= 1/64 nm (xtc quantum is 1e-3 nm)."""
from __future__ import annotations

import os

import numpy as np

# ext -> capabilities.  unit = factor from nm to the file's native length unit as returned by fileobj.read()
FORMATS = {
    "h5":        dict(time=True, cell=True, self_top=True, unit=1.0, needs_cell=False, ortho_only=False),
    "xtc":       dict(time=True, cell=True, self_top=False, unit=1.0, needs_cell=False, ortho_only=False),
    "trr":       dict(time=True, cell=True, self_top=False, unit=1.0, needs_cell=False, ortho_only=False),
    "dcd":       dict(time=False, cell=True, self_top=False, unit=10.0, needs_cell=False, ortho_only=False),
    "nc":        dict(time=True, cell=True, self_top=False, unit=10.0, needs_cell=False, ortho_only=False),
    "mdcrd":     dict(time=False, cell=True, self_top=False, unit=10.0, needs_cell=False, ortho_only=True),
    "xyz":       dict(time=False, cell=False, self_top=False, unit=10.0, needs_cell=False, ortho_only=False),
    "xyz.gz":    dict(time=False, cell=False, self_top=False, unit=10.0, needs_cell=False, ortho_only=False),
    "lammpstrj": dict(time=False, cell=True, self_top=False, unit=10.0, needs_cell=True, ortho_only=False),
    "gro":       dict(time=True, cell=True, self_top=True, unit=1.0, needs_cell=False, ortho_only=False),
    "pdb":       dict(time=False, cell=True, self_top=True, unit=10.0, needs_cell=False, ortho_only=False),
    "pdb.gz":    dict(time=False, cell=True, self_top=True, unit=10.0, needs_cell=False, ortho_only=False),
    "dtr":       dict(time=True, cell=True, self_top=False, unit=10.0, needs_cell=False, ortho_only=False),
}
SEEKABLE = ["h5", "xtc", "trr", "dcd", "nc", "mdcrd", "xyz", "xyz.gz", "lammpstrj", "dtr"]


def ident_xyz(n_frames, n_atoms, f0=0):
    f = (np.arange(n_frames) + f0).astype(np.float64)[:, None]
    a = np.arange(n_atoms).astype(np.float64)[None, :]
    x = (f % 40) + a / 64.0
    y = -((f % 40) / 2.0 + a / 64.0)
    z = ((f * 7) % 13) + a / 32.0
    return np.stack([x + 0 * a, y + 0 * a, z + 0 * a], axis=-1).astype(np.float32)


def identify(xyz_nm):
    """Recover (frame mod 40, atom) from coordinates in nm: returns arrays f (n,) and a (n, n_atoms)."""
    x = np.asarray(xyz_nm, np.float64)
    a = np.round((x[..., 0] - np.floor(x[..., 0] + 1e-3 / 2 + 1e-9)) * 64)
    f = np.floor(x[..., 0] + 1e-3)
    return f, a


def ident_traj(n_frames, n_atoms, cell="ortho", f0=0, times=True, top=None):
    import mdtraj as md
    from vlib.gen import common
    top = top if top is not None else ident_top(n_atoms)
    t = md.Trajectory(ident_xyz(n_frames, n_atoms, f0), top)
    if times:
        fr = np.arange(n_frames) + f0
        t.time = (fr * 2.0 + (fr % 3) * 0.5).astype(np.float32)  # non-uniform, identifies the frame
    if cell == "ortho":
        fr = (np.arange(n_frames) + f0)[:, None]
        t.unitcell_lengths = (np.array([[60.0, 61.0, 62.0]]) + fr * 0.125).astype(np.float32)
        t.unitcell_angles = np.full((n_frames, 3), 90.0, np.float32)
    elif cell == "tric":
        fr = (np.arange(n_frames) + f0)[:, None]
        t.unitcell_lengths = (np.array([[60.0, 61.0, 62.0]]) + fr * 0.125).astype(np.float32)
        t.unitcell_angles = (np.array([[80.0, 95.0, 100.0]]) + (fr % 4) * 0.5).astype(np.float32)
    elif cell == "shear":
        # a box sheared at constant edge lengths: the lengths of all frames are bit-identical, only the angles move
        fr = (np.arange(n_frames) + f0)[:, None]
        t.unitcell_lengths = np.tile(np.array([[60.0, 61.0, 62.0]], np.float32), (n_frames, 1))
        t.unitcell_angles = (np.array([[90.0, 90.0, 90.0]]) + ((fr + 1) % 5) * np.array([[-2.0, 1.0, 1.5]])).astype(np.float32)
    return t


def ident_top(n_atoms):
    """A small topology that survives pdb/gro/h5: one chain, residues of 3 atoms, unique atom names per residue."""
    import mdtraj as md
    from mdtraj.core import element as elem
    top = md.Topology()
    ch = top.add_chain()
    els = [elem.carbon, elem.nitrogen, elem.oxygen]
    names = ["CA", "N", "O"]
    res = None
    for i in range(n_atoms):
        if i % 3 == 0:
            res = top.add_residue("ALA", ch)
        top.add_atom(names[i % 3], els[i % 3], res)
    return top


def load_kwargs(ext, top):
    return {} if FORMATS[ext]["self_top"] else {"top": top}


def open_kwargs(ext, n_atoms):
    if ext == "mdcrd":
        return {"n_atoms": n_atoms}
    return {}


def coords_of(ext, res):
    """Extract the coordinate array from what fileobj.read() returned."""
    if hasattr(res, "coordinates"):
        return res.coordinates
    if isinstance(res, tuple):
        return res[0]
    return res


def write_file(path, traj):
    """Save through Trajectory.save (dtr refuses an existing directory; caller provides a fresh path)."""
    traj.save(path)
    return path


# ------------------------------------------------------------------------------------------------------------------
# DCD files as OTHER programs write them (mdtraj's own writer never produces these, but its reader must handle them):
#   * CHARMM 4-dimensional dynamics: header flag icntrl[11] = 1 and a 4th coordinate block after X, Y, Z of each frame
#   * a header whose frame count NSET was never patched (0) — left by writers that do not go back to the header, or by a
#     writer killed before its final update; readers then derive the count from the file size
import struct as _struct


def dcd_make_4d(src, dst, n_atoms, n_frames):
    raw = open(src, "rb").read()
    assert _struct.unpack("<i", raw[:4])[0] == 84 and raw[4:8] == b"CORD"
    icntrl = list(_struct.unpack("<20i", raw[8:88]))
    assert icntrl[10] == 0, "source must not carry a unit cell block"
    icntrl[11] = 1
    pos = 92
    title_len = _struct.unpack("<i", raw[pos:pos + 4])[0]
    pos += 4 + title_len + 4
    assert _struct.unpack("<3i", raw[pos:pos + 12]) == (4, n_atoms, 4)
    pos += 12
    header = raw[:8] + _struct.pack("<20i", *icntrl) + raw[88:pos]
    block = 4 + 4 * n_atoms + 4
    assert len(raw) - pos == 3 * block * n_frames
    out = [header]
    marker = _struct.pack("<i", 4 * n_atoms)
    for k in range(n_frames):
        out.append(raw[pos:pos + 3 * block])
        out.append(marker + np.full(n_atoms, 1000.0 + k, dtype="<f4").tobytes() + marker)
        pos += 3 * block
    with open(dst, "wb") as f:
        f.write(b"".join(out))


def dcd_set_nset(path, value=0):
    with open(path, "r+b") as fh:
        head = fh.read(12)
        assert _struct.unpack("<i", head[:4])[0] == 84 and head[4:8] == b"CORD"
        fh.seek(8)
        fh.write(_struct.pack("<i", int(value)))


def xyz_make_foreign(path):
    """Rewrite an mdtraj-written .xyz file the way other tools write it: CRLF line ends and a free-text comment line
    with non-ASCII characters (the format has no specification beyond 'count line, comment line, one line per atom')."""
    txt = open(path, encoding="utf-8").read().split("\n")
    out = []
    i = 0
    while i < len(txt) and txt[i].strip():
        n = int(txt[i])
        out.append(txt[i])
        out.append("frame exported by another tool \u2014 lengths in \u00c5ngstr\u00f6m")
        out.extend(txt[i + 2:i + 2 + n])
        i += 2 + n
    with open(path, "w", encoding="utf-8", newline="") as f:
        f.write("\r\n".join(out) + "\r\n")


def dcd_make_fixed(src, dst, n_atoms, n_frames, fixed=(3, 7)):
    """CHARMM/NAMD DCD with fixed atoms: header NAMNF = number of fixed atoms, a block listing the (1-based) free atoms
    after the NATOM block, the first frame complete, every later frame holding only the free atoms."""
    raw = open(src, "rb").read()
    assert _struct.unpack("<i", raw[:4])[0] == 84 and raw[4:8] == b"CORD"
    icntrl = list(_struct.unpack("<20i", raw[8:88]))
    assert icntrl[10] == 0, "source must not carry a unit cell block"
    fixed = sorted(fixed)
    free = [i for i in range(n_atoms) if i not in fixed]
    icntrl[8] = len(fixed)
    pos = 92
    title_len = _struct.unpack("<i", raw[pos:pos + 4])[0]
    pos += 4 + title_len + 4
    assert _struct.unpack("<3i", raw[pos:pos + 12]) == (4, n_atoms, 4)
    pos += 12
    nfree = len(free)
    freeblock = _struct.pack("<i", 4 * nfree) + _struct.pack("<%di" % nfree, *[i + 1 for i in free]) + _struct.pack("<i", 4 * nfree)
    out = [raw[:8] + _struct.pack("<20i", *icntrl) + raw[88:pos] + freeblock]
    block = 4 + 4 * n_atoms + 4
    assert len(raw) - pos == 3 * block * n_frames
    mk = _struct.pack("<i", 4 * nfree)
    for k in range(n_frames):
        fr = raw[pos:pos + 3 * block]
        if k == 0:
            out.append(fr)
        else:
            for ax in range(3):
                v = np.frombuffer(fr[ax * block + 4:ax * block + 4 + 4 * n_atoms], dtype="<f4")
                out.append(mk + v[free].astype("<f4").tobytes() + mk)
        pos += 3 * block
    with open(dst, "wb") as f:
        f.write(b"".join(out))


def arc_write(path, xyz_nm, box=True):
    """TINKER .arc archive (mdtraj reads but does not write this format): per frame a count/title line, an optional
    periodic-box line, and one line per atom: index, name, x y z in angstroms, atom type, bonded partners."""
    x = np.asarray(xyz_nm, np.float64) * 10.0
    with open(path, "w") as f:
        for k in range(x.shape[0]):
            f.write("%6d  frames that identify themselves\n" % x.shape[1])
            if box:
                f.write("%12.6f%12.6f%12.6f%12.6f%12.6f%12.6f\n" % (600.0 + 1.25 * k, 610.0 + 1.25 * k, 620.0 + 1.25 * k, 90.0, 90.0, 90.0))
            for a in range(x.shape[1]):
                partner = a + 2 if a % 2 == 0 and a + 1 < x.shape[1] else a
                f.write("%6d  %-3s%12.6f%12.6f%12.6f%6d%6d\n" % (a + 1, "N", x[k, a, 0], x[k, a, 1], x[k, a, 2], 24, partner))


def trr_write_foreign(path, xyz_nm, box_nm=None, times=None, double=True, velocities=True, forces=True):
    """GROMACS .trr as a double-precision build of GROMACS writes it, with velocity and force blocks (mdtraj itself only
    writes single-precision positions).  XDR, big-endian: magic 1993, version string, 13 integers (block sizes, natoms, step,
    nre), time and lambda, then box, positions, velocities, forces as reals of the file's precision."""
    x = np.asarray(xyz_nm, np.float64)
    nf, na = x.shape[:2]
    real, rs = (">f8", 8) if double else (">f4", 4)
    out = []
    for k in range(nf):
        hdr = _struct.pack(">3i", 1993, 13, 12) + b"GMX_trn_file"
        sizes = [0, 0, 9 * rs if box_nm is not None else 0, 0, 0, 0, 0, na * 3 * rs, na * 3 * rs if velocities else 0,
                 na * 3 * rs if forces else 0, na, k * 10, 0]
        hdr += _struct.pack(">13i", *sizes)
        tl = np.array([float(times[k]) if times is not None else float(k), 0.0]).astype(real).tobytes()
        out.append(hdr + tl)
        if box_nm is not None:
            out.append(np.asarray(box_nm[k], np.float64).astype(real).tobytes())
        out.append(x[k].astype(real).tobytes())
        if velocities:
            out.append((x[k] * 0.5 + 1000.0 + k).astype(real).tobytes())  # recognisable, never mistaken for positions
        if forces:
            out.append((-x[k] * 3.0 - 2000.0 - k).astype(real).tobytes())
    with open(path, "wb") as f:
        f.write(b"".join(out))


# ------------------------------------------------------------------------------------------------------------------
# (round-5 widening, C01/C02/C18/C19)  More files as OTHER programs write them, valid by each format's own documentation
# but never produced by mdtraj's writers.  All take coordinates in nm (frames that identify themselves) and write the
# format's native unit.
def lammpstrj_write_foreign(path, xyz_nm, style="tric-shuffled"):
    """LAMMPS `dump custom` output.  style 'ortho-vel': orthogonal box, columns `id type x y z vx vy vz`, atoms in id order;
    style 'tric-shuffled': triclinic box (`xy xz yz` bounds with tilt factors that change along the run), columns
    `type id mol q xu yu zu ix iy iz` (id not first, extra columns, unwrapped coordinate keywords), atoms in a different
    order in every frame (LAMMPS does not sort a dump unless asked to), time steps 0, 500, 1000, ..."""
    x = np.asarray(xyz_nm, np.float64) * 10.0
    nf, na = x.shape[:2]
    rng = np.random.default_rng(20240517)
    with open(path, "w") as f:
        for k in range(nf):
            f.write("ITEM: TIMESTEP\n%d\n" % (k * 500))
            f.write("ITEM: NUMBER OF ATOMS\n%d\n" % na)
            if style == "ortho-vel":
                f.write("ITEM: BOX BOUNDS pp pp pp\n")
                for d in range(3):
                    f.write("%.16e %.16e\n" % (-500.0 - d, 700.0 + d + 1.25 * k))
                f.write("ITEM: ATOMS id type x y z vx vy vz\n")
                for a in range(na):
                    f.write("%d %d %.6f %.6f %.6f %g %g %g\n" % (a + 1, 1 + a % 3, x[k, a, 0], x[k, a, 1], x[k, a, 2], 0.001 * a, -0.5, 1e-5 * k))
            else:
                lx, ly, lz = 900.0 + 1.25 * k, 910.0, 920.0
                xy, xz, yz = 55.0, -40.0 + 0.5 * (k % 7), 30.0
                xlo, ylo, zlo = -450.0, -455.0, -460.0
                f.write("ITEM: BOX BOUNDS xy xz yz pp pp pp\n")
                f.write("%.16e %.16e %.16e\n" % (xlo + min(0.0, xy, xz, xy + xz), xlo + lx + max(0.0, xy, xz, xy + xz), xy))
                f.write("%.16e %.16e %.16e\n" % (ylo + min(0.0, yz), ylo + ly + max(0.0, yz), xz))
                f.write("%.16e %.16e %.16e\n" % (zlo, zlo + lz, yz))
                f.write("ITEM: ATOMS type id mol q xu yu zu ix iy iz\n")
                for a in rng.permutation(na):
                    f.write("%d %d %d %.4f %.6f %.6f %.6f %d %d %d\n" % (1 + a % 3, a + 1, 1 + a // 3, -0.5 + 0.1 * (a % 5), x[k, a, 0], x[k, a, 1], x[k, a, 2], 0, -1, 2))


def xyz_write_extended(path, xyz_nm):
    """'Extended XYZ' as ASE / OVITO / QUIP write it: right-aligned count line, a key=value comment line (Lattice=, Properties=,
    Time=), element symbols, tab / multi-blank separated columns and further per-atom columns after z (charge, an integer
    tag, forces) — mdtraj documents that 'anything past the z field is ignored'."""
    x = np.asarray(xyz_nm, np.float64) * 10.0
    nf, na = x.shape[:2]
    sym = ["C", "N", "O", "Cl", "H"]
    opener = gzip_open if str(path).endswith(".gz") else open
    with opener(path, "wt") as f:
        for k in range(nf):
            f.write("%8d\n" % na)
            f.write('Lattice="%.3f 0.0 0.0 0.0 %.3f 0.0 0.0 0.0 %.3f" Properties=species:S:1:pos:R:3:charge:R:1:tag:I:1:forces:R:3 Time=%.4f pbc="T T T"\n'
                    % (600.0 + k, 610.0, 620.0, 0.5 * k))
            for a in range(na):
                f.write("%-2s\t%16.8f  %16.8f\t%16.8f   %8.4f %3d %12.5e %12.5e %12.5e\n"
                        % (sym[a % 5], x[k, a, 0], x[k, a, 1], x[k, a, 2], -0.4 + 0.05 * a, a % 4, 1e3 + a, -2e3 - k, 3.5e-3))


def gzip_open(path, mode):
    import gzip
    return gzip.open(path, mode)


def nc_write_amber(path, xyz_nm, times, lengths_nm=None, angles=None, real="f4"):
    """AMBER NetCDF trajectory as sander / pmemd / cpptraj write it (AMBER NetCDF convention 1.0): besides coordinates, time
    and the cell it carries `velocities` (with the convention's scale_factor 20.455), `forces` and the replica temperature
    `temp0`; frames are appended one record at a time, so the record variables are interleaved on disk.  real="f8" stores
    coordinates and time as doubles (some converters do; netCDF readers hand back float64 arrays then)."""
    import netCDF4
    x = np.asarray(xyz_nm, np.float64) * 10.0
    nf, na = x.shape[:2]
    ds = netCDF4.Dataset(path, "w", format="NETCDF3_64BIT_OFFSET")
    try:
        ds.Conventions, ds.ConventionVersion = "AMBER", "1.0"
        ds.application, ds.program, ds.programVersion, ds.title = "AMBER", "pmemd", "22.0", "default_name"
        ds.createDimension("frame", None)
        ds.createDimension("spatial", 3)
        ds.createDimension("atom", na)
        ds.createDimension("cell_spatial", 3)
        ds.createDimension("label", 5)
        ds.createDimension("cell_angular", 3)
        v = ds.createVariable("spatial", "S1", ("spatial",))
        v[:] = np.array(list("xyz"), "S1")
        tv = ds.createVariable("time", real, ("frame",))
        tv.units = "picosecond"
        cv = ds.createVariable("coordinates", real, ("frame", "atom", "spatial"))
        cv.units = "angstrom"
        if lengths_nm is not None:
            v = ds.createVariable("cell_spatial", "S1", ("cell_spatial",))
            v[:] = np.array(list("abc"), "S1")
            v = ds.createVariable("cell_angular", "S1", ("cell_angular", "label"))
            v[:] = np.array([list("alpha"), list("beta "), list("gamma")], "S1")
            lv = ds.createVariable("cell_lengths", "f8", ("frame", "cell_spatial"))
            lv.units = "angstrom"
            av = ds.createVariable("cell_angles", "f8", ("frame", "cell_angular"))
            av.units = "degree"
        vv = ds.createVariable("velocities", "f4", ("frame", "atom", "spatial"))
        vv.units = "angstrom/picosecond"
        vv.scale_factor = np.float64(20.455)
        vv.set_auto_maskandscale(False)
        fv = ds.createVariable("forces", "f4", ("frame", "atom", "spatial"))
        fv.units = "kilocalorie/mole/angstrom"
        t0 = ds.createVariable("temp0", "f8", ("frame",))
        t0.units = "kelvin"
        for k in range(nf):
            tv[k] = np.float32(times[k])
            cv[k, :, :] = x[k].astype(np.float32).astype(real)
            if lengths_nm is not None:
                lv[k, :] = np.asarray(lengths_nm[k], np.float64) * 10.0
                av[k, :] = np.asarray(angles[k], np.float64)
            vv[k, :, :] = (x[k] * 0.5 + 1000.0 + k).astype(np.float32)
            fv[k, :, :] = (-x[k] * 3.0 - 2000.0 - k).astype(np.float32)
            t0[k] = 300.0 + k
    finally:
        ds.close()


def h5_write_rich(path, traj):
    """MDTraj HDF5 file carrying every optional per-frame field of the format (velocities, kineticEnergy, potentialEnergy,
    temperature, lambda) next to coordinates / time / cell — what OpenMM's HDF5Reporter (which writes through this same class)
    produces with velocities=True etc."""
    from mdtraj.formats import HDF5TrajectoryFile
    n = traj.n_frames
    fr = np.arange(n, dtype=np.float32)
    with HDF5TrajectoryFile(path, "w") as f:
        for k in range(n):  # one frame per call, the way a reporter does it
            f.write(coordinates=traj.xyz[k], time=traj.time[k],
                    cell_lengths=None if traj.unitcell_lengths is None else traj.unitcell_lengths[k],
                    cell_angles=None if traj.unitcell_angles is None else traj.unitcell_angles[k],
                    velocities=traj.xyz[k] * 0.5 + 1000.0 + k, kineticEnergy=fr[k] * 2.0 + 7.0, potentialEnergy=-fr[k] * 3.0 - 11.0,
                    temperature=300.0 + fr[k], alchemicalLambda=fr[k] / max(n, 1))
        f.topology = traj.topology


def gro_write_gromacs(path, xyz_nm, times=None, lengths_nm=None, velocities=True):
    """.gro trajectory as GROMACS (trjconv / mdrun -c) writes it: title 'name t= <time> step= <n>' (or no time at all), right-
    aligned atom count, '%8.3f' positions followed by '%8.4f' velocities, and a box line of only THREE numbers for a
    rectangular box (mdtraj's own writer always writes nine and never velocities)."""
    x = np.asarray(xyz_nm, np.float64)
    nf, na = x.shape[:2]
    names = ["CA", "N", "O"]
    with open(path, "w") as f:
        for k in range(nf):
            if times is not None:
                f.write("Protein in water t= %10.5f step= %d\n" % (float(times[k]), 500 * k))
            else:
                f.write("Protein in water, frames that identify themselves\n")
            f.write("%5d\n" % na)
            for a in range(na):
                line = "%5d%-5s%5s%5d%8.3f%8.3f%8.3f" % (a // 3 + 1, "ALA", names[a % 3], a + 1, x[k, a, 0], x[k, a, 1], x[k, a, 2])
                if velocities:
                    line += "%8.4f%8.4f%8.4f" % (0.1 * a + 500.0, -0.5 - k, 0.0301)
                f.write(line + "\n")
            L = (0.0, 0.0, 0.0) if lengths_nm is None else lengths_nm[k]
            f.write("%10.5f%10.5f%10.5f\n" % (L[0], L[1], L[2]))


def pdb_write_foreign(path, xyz_nm, lengths_nm=None):
    """Multi-model PDB as RCSB / other programs write it: HEADER/TITLE/REMARK block, CRYST1 with space group and Z, MODEL
    records, an alternate location (A kept, B a decoy 5 A away) on one atom, ANISOU records after atoms, a second chain after
    a TER record, HETATM records for the last residue, ENDMDL, then CONECT / MASTER / END.  12 atoms in every model."""
    x = np.asarray(xyz_nm, np.float64) * 10.0
    nf, na = x.shape[:2]
    assert na == 12
    names = [" CA ", " N  ", " O  "]
    els = [" C", " N", " O"]
    out = ["HEADER    HYDROLASE                               01-JAN-01   1XYZ              ",
           "TITLE     FRAMES THAT IDENTIFY THEMSELVES                                       ",
           "REMARK   2 RESOLUTION.    1.80 ANGSTROMS.                                       "]
    if lengths_nm is not None:
        L = np.asarray(lengths_nm[0], np.float64) * 10.0
        out.append("CRYST1%9.3f%9.3f%9.3f%7.2f%7.2f%7.2f P 1           1" % (L[0], L[1], L[2], 90.0, 90.0, 90.0))
    for k in range(nf):
        out.append("MODEL     %4d" % (k + 1))
        serial = 1
        for a in range(na):
            res = a // 3
            chain = "A" if res < 2 else "B"
            rec = "HETATM" if res == 3 else "ATOM  "
            rname = "LIG" if res == 3 else "ALA"
            alts = [" "]
            if a == 4:
                alts = ["A", "B"]
            for alt in alts:
                c = x[k, a] + (5.0 if alt == "B" else 0.0)
                out.append("%s%5d %4s%1s%3s %1s%4d    %8.3f%8.3f%8.3f%6.2f%6.2f          %2s" % (
                    rec, serial, names[a % 3], alt, rname, chain, res + 1, c[0], c[1], c[2], 0.5 if alt != " " else 1.0, 10.0 + a, els[a % 3]))
                out.append("ANISOU%5d %4s%1s%3s %1s%4d  %7d%7d%7d%7d%7d%7d      %2s" % (
                    serial, names[a % 3], alt, rname, chain, res + 1, 1000 + a, 1100, 1200, -10, 20, -30, els[a % 3]))
                serial += 1
            if a == 5:
                out.append("TER   %5d      %3s %1s%4d" % (serial, "ALA", "A", 2))
                serial += 1
        out.append("ENDMDL")
    out.append("CONECT   11   12   13")
    out.append("MASTER        0    0    0    0    0    0    0    6   12    0    0    0")
    out.append("END")
    opener = gzip_open if str(path).endswith(".gz") else open
    with opener(path, "wt") as f:
        f.write("\n".join(s.ljust(80) for s in out) + "\n")


def dcd_rewrite(src, dst, n_atoms, n_frames, big_endian=False, rec64=False, angles="as-is", ntitle=None):
    """Re-emit an mdtraj-written DCD (little-endian, 4-byte record markers, cosines in the cell block) the way other writers /
    platforms produce it: big-endian byte order (CHARMM / NAMD on big-endian machines, X-PLOR), 8-byte Fortran record markers
    (CHARMM built with -i8), the unit-cell angle slots holding degrees (CHARMM before c25) instead of cosines, a title block
    with another number of 80-character lines."""
    raw = open(src, "rb").read()
    assert _struct.unpack("<i", raw[:4])[0] == 84 and raw[4:8] == b"CORD"
    e = ">" if big_endian else "<"
    icntrl = list(_struct.unpack("<9i", raw[8:44])) + [_struct.unpack("<f", raw[44:48])[0]] + list(_struct.unpack("<10i", raw[48:88]))
    has_cell = icntrl[10] != 0
    pos = 92
    tl = _struct.unpack("<i", raw[pos:pos + 4])[0]
    nt = _struct.unpack("<i", raw[pos + 4:pos + 8])[0]
    titles = [raw[pos + 8 + 80 * i:pos + 8 + 80 * (i + 1)] for i in range(nt)]
    pos += 4 + tl + 4
    assert _struct.unpack("<3i", raw[pos:pos + 12]) == (4, n_atoms, 4)
    pos += 12
    if ntitle is not None:
        titles = [("REMARKS line %d written by another program" % i).encode().ljust(80) for i in range(ntitle)]

    def rec(payload):
        m = _struct.pack(e + ("q" if rec64 else "i"), len(payload))
        return m + payload + m
    out = [rec(b"CORD" + _struct.pack(e + "9i", *icntrl[:9]) + _struct.pack(e + "f", icntrl[9]) + _struct.pack(e + "10i", *icntrl[10:])),
           rec(_struct.pack(e + "i", len(titles)) + b"".join(titles)), rec(_struct.pack(e + "i", n_atoms))]
    block = 4 + 4 * n_atoms + 4
    for k in range(n_frames):
        if has_cell:
            assert _struct.unpack("<i", raw[pos:pos + 4])[0] == 48
            cell = np.frombuffer(raw[pos + 4:pos + 52], dtype="<f8").copy()
            if angles == "degrees":
                for j in (1, 3, 4):
                    cell[j] = 90.0 if cell[j] == 0.0 else np.degrees(np.arccos(cell[j]))
            out.append(rec(cell.astype(e + "f8").tobytes()))
            pos += 56
        for ax in range(3):
            v = np.frombuffer(raw[pos + 4:pos + 4 + 4 * n_atoms], dtype="<f4")
            out.append(rec(v.astype(e + "f4").tobytes()))
            pos += block
    assert pos == len(raw), (pos, len(raw))
    with open(dst, "wb") as f:
        f.write(b"".join(out))


def trr_write_mixed(path, xyz_nm, box_nm=None, times=None):
    """GROMACS .trr from a run with nstxout = nstvout/2 = nstfout/3-like output intervals: every frame holds positions, only
    every 2nd also velocities, only every 3rd also forces — frames of DIFFERENT sizes in one file (single precision)."""
    x = np.asarray(xyz_nm, np.float64)
    nf, na = x.shape[:2]
    out = []
    for k in range(nf):
        hv, hf = (k % 2 == 0), (k % 3 == 0)
        hdr = _struct.pack(">3i", 1993, 13, 12) + b"GMX_trn_file"
        sizes = [0, 0, 36 if box_nm is not None else 0, 0, 0, 0, 0, na * 12, na * 12 if hv else 0, na * 12 if hf else 0, na, k * 10, 0]
        hdr += _struct.pack(">13i", *sizes)
        out.append(hdr + np.array([float(times[k]) if times is not None else float(k), 0.0]).astype(">f4").tobytes())
        if box_nm is not None:
            out.append(np.asarray(box_nm[k], np.float64).astype(">f4").tobytes())
        out.append(x[k].astype(">f4").tobytes())
        if hv:
            out.append((x[k] * 0.5 + 1000.0 + k).astype(">f4").tobytes())
        if hf:
            out.append((-x[k] * 3.0 - 2000.0 - k).astype(">f4").tobytes())
    with open(path, "wb") as f:
        f.write(b"".join(out))


def mdcrd_retitle(path, title=b"", crlf=False):
    """AMBER mdcrd with another title line (empty — sander writes whatever the user's title was, possibly nothing — or a long
    one with numbers in it) and optionally CRLF line ends (file moved through a Windows machine)."""
    lines = open(path, "rb").read().split(b"\n")
    lines[0] = title
    data = (b"\r\n" if crlf else b"\n").join(lines)
    with open(path, "wb") as f:
        f.write(data)


def stk_write(path, dtr_dirs):
    """Desmond .stk: a text file listing frameset directories, one per line."""
    with open(path, "w") as f:
        for d in dtr_dirs:
            f.write(str(d) + "\n")


def ident_traj_dense(n_frames, n_extra=588, cell="ortho", f0=0):
    """12 self-identifying atoms followed by `n_extra` atoms packed within a few picometres of one point per frame: such
    frames compress to ~1.3 bytes/atom in XTC, a third of what mdtraj's file-size model of the frame count assumes, so
    reading to the end of the file needs several internal buffer chunks (the estimate falls short by more than the 1.5x
    safety factor).  Returns the trajectory; the first 12 atoms identify (frame, atom) as usual."""
    import mdtraj as md
    base = ident_xyz(n_frames, 12, f0)
    fr = (np.arange(n_frames) + f0).astype(np.float64)
    centre = np.stack([fr % 40 + 0.5, -((fr % 40) / 2.0) - 0.5, (fr * 7) % 13 + 0.5], axis=-1)[:, None, :]
    j = np.arange(n_extra)
    off = np.stack([(j % 5) / 1000.0, ((j // 5) % 5) / 1000.0, ((j // 25) % 5) / 1000.0], axis=-1)[None, :, :]
    xyz = np.concatenate([base.astype(np.float64), centre + off], axis=1).astype(np.float32)
    t = md.Trajectory(xyz, ident_top(12 + n_extra))
    fr_i = np.arange(n_frames) + f0
    t.time = (fr_i * 2.0 + (fr_i % 3) * 0.5).astype(np.float32)
    if cell == "ortho":
        t.unitcell_lengths = (np.array([[60.0, 61.0, 62.0]]) + fr_i[:, None] * 0.125).astype(np.float32)
        t.unitcell_angles = np.full((n_frames, 3), 90.0, np.float32)
    return t


WIDE_EXT = {"lammpstrj-ortho-vel": "lammpstrj", "lammpstrj-tric": "lammpstrj", "xyz-ext": "xyz", "xyz-ext.gz": "xyz.gz", "nc-amber": "nc", "nc-double": "nc",
            "h5-rich": "h5", "gro-gromacs": "gro", "gro-notime": "gro", "pdb-foreign": "pdb", "pdb-foreign.gz": "pdb.gz", "dcd-be": "dcd",
            "dcd-rec64": "dcd", "dcd-deg": "dcd", "trr-mixed": "trr", "mdcrd-crlf": "mdcrd", "dtr-clickme": "dtr", "stk": "stk", "arc": "arc",
            "arc-nobox": "arc", "rst7": "rst7", "ncrst": "ncrst", "xtc-dense": "xtc", "hdf5": "hdf5", "netcdf": "netcdf", "ncdf": "ncdf", "crd": "crd"}


def write_wide_class(fmt, path, t, n, na):
    """Produce the file class `fmt` of WIDE_EXT from the self-identifying trajectory t (n frames, na atoms) at `path`;
    returns the path a reader is to be given (differs from `path` for dtr-clickme)."""
    if fmt in ("lammpstrj-ortho-vel", "lammpstrj-tric"):
        lammpstrj_write_foreign(path, t.xyz, "ortho-vel" if fmt.endswith("vel") else "tric-shuffled")
    elif fmt in ("xyz-ext", "xyz-ext.gz"):
        xyz_write_extended(path, t.xyz)
    elif fmt in ("nc-amber", "nc-double"):
        nc_write_amber(path, t.xyz, t.time, t.unitcell_lengths, t.unitcell_angles, real="f8" if fmt == "nc-double" else "f4")
    elif fmt == "h5-rich":
        h5_write_rich(path, t)
    elif fmt == "gro-gromacs":
        gro_write_gromacs(path, t.xyz, t.time, t.unitcell_lengths, velocities=True)
    elif fmt == "gro-notime":
        gro_write_gromacs(path, t.xyz, None, None, velocities=False)
    elif fmt in ("pdb-foreign", "pdb-foreign.gz"):
        pdb_write_foreign(path, t.xyz, t.unitcell_lengths if fmt == "pdb-foreign" else None)
    elif fmt in ("dcd-be", "dcd-rec64", "dcd-deg"):
        t.save(path + ".le.dcd")
        dcd_rewrite(path + ".le.dcd", path, na, n, **{"dcd-be": dict(big_endian=True), "dcd-rec64": dict(rec64=True, ntitle=1),
                                                     "dcd-deg": dict(angles="degrees", ntitle=5)}[fmt])
        os.unlink(path + ".le.dcd")
    elif fmt == "trr-mixed":
        trr_write_mixed(path, t.xyz, t.unitcell_vectors, t.time)
    elif fmt == "mdcrd-crlf":
        t.save(path)
        mdcrd_retitle(path, b"trajectory of 12 atoms at 300.00 K, box  60.000  61.000  62.000", crlf=True)
    elif fmt == "dtr-clickme":
        t.save(path)
        return os.path.join(path, "clickme.dtr")
    elif fmt == "stk":
        h = max(1, n // 2)   # two framesets listed in a .stk file (the second continues the first)
        parts = []
        for k, sl in enumerate((slice(0, h), slice(h, n))):
            if t[sl].n_frames:
                q = path[:-4] + f"_part{k}.dtr"
                t[sl].save(q)
                parts.append(q)
        stk_write(path, parts)
    elif fmt in ("arc", "arc-nobox"):
        arc_write(path, t.xyz, box=(fmt == "arc"))
    elif fmt == "hdf5":
        t.save_hdf5(path)   # Trajectory.save has no '.hdf5' entry; the reader registers the alias
    else:
        t.save(path)        # aliases, restart files, dense xtc: mdtraj's own writer
    return path


def h5_change_units(path, field, new_units, factor):
    """Re-express one per-frame field of an MDTraj HDF5 file in another unit: the stored numbers are multiplied by `factor`
    and the field's `units` attribute is set to `new_units` (the format lets every field name its own unit; files from
    other writers use angstroms, femtoseconds or radians for some fields and the defaults for others)."""
    import tables
    with tables.open_file(path, "r+") as h:
        node = h.get_node("/", field)
        node[:] = (np.asarray(node[:], np.float64) * factor).astype(node.dtype)
        node.attrs["units"] = new_units
