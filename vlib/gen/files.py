"""Trajectory files with self-identifying frames, for the file-format properties (C02, C18, C19, C20, C01).

Frame f, atom a carries coordinates (nm) that identify (f, a) after any format's quantisation:
   x = (f % 40) + a/64      y = -((f % 40)/2 + a/64)     z = ((f*7) % 13) + a/32
all exactly representable in float32 with steps >= 1/64 nm (xtc quantum is 1e-3 nm)."""
from __future__ import annotations

import os

import numpy as np

# ext -> capabilities.  unit = factor from nm to the file's native length unit as returned by fileobj.read()
FORMATS = {
    "h5":        dict(time=True, cell=True, self_top=True, unit=1.0, needs_cell=False, ortho_only=False),
    "xtc":       dict(time=True, cell=True, self_top=False, unit=1.0, needs_cell=False, ortho_only=False),
    "trr":       dict(time=True, cell=True, self_top=False, unit=1.0, needs_cell=False, ortho_only=False),
    "dcd":       dict(time=False, cell=True, self_top=False, unit=10.0, needs_cell=False, ortho_only=False),
    "nc":        dict(time=True, cell=True, self_top=False, unit=10.0, needs_cell=False, ortho_only=False),
    "mdcrd":     dict(time=False, cell=True, self_top=False, unit=10.0, needs_cell=False, ortho_only=True),
    "xyz":       dict(time=False, cell=False, self_top=False, unit=10.0, needs_cell=False, ortho_only=False),
    "xyz.gz":    dict(time=False, cell=False, self_top=False, unit=10.0, needs_cell=False, ortho_only=False),
    "lammpstrj": dict(time=False, cell=True, self_top=False, unit=10.0, needs_cell=True, ortho_only=False),
    "gro":       dict(time=True, cell=True, self_top=True, unit=1.0, needs_cell=False, ortho_only=False),
    "pdb":       dict(time=False, cell=True, self_top=True, unit=10.0, needs_cell=False, ortho_only=False),
    "pdb.gz":    dict(time=False, cell=True, self_top=True, unit=10.0, needs_cell=False, ortho_only=False),
    "dtr":       dict(time=True, cell=True, self_top=False, unit=10.0, needs_cell=False, ortho_only=False),
}
SEEKABLE = ["h5", "xtc", "trr", "dcd", "nc", "mdcrd", "xyz", "xyz.gz", "lammpstrj", "dtr"]


def ident_xyz(n_frames, n_atoms, f0=0):
    f = (np.arange(n_frames) + f0).astype(np.float64)[:, None]
    a = np.arange(n_atoms).astype(np.float64)[None, :]
    x = (f % 40) + a / 64.0
    y = -((f % 40) / 2.0 + a / 64.0)
    z = ((f * 7) % 13) + a / 32.0
    return np.stack([x + 0 * a, y + 0 * a, z + 0 * a], axis=-1).astype(np.float32)


def identify(xyz_nm):
    """Recover (frame mod 40, atom) from coordinates in nm: returns arrays f (n,) and a (n, n_atoms)."""
    x = np.asarray(xyz_nm, np.float64)
    a = np.round((x[..., 0] - np.floor(x[..., 0] + 1e-3 / 2 + 1e-9)) * 64)
    f = np.floor(x[..., 0] + 1e-3)
    return f, a


def ident_traj(n_frames, n_atoms, cell="ortho", f0=0, times=True, top=None):
    import mdtraj as md
    from vlib.gen import common
    top = top if top is not None else ident_top(n_atoms)
    t = md.Trajectory(ident_xyz(n_frames, n_atoms, f0), top)
    if times:
        fr = np.arange(n_frames) + f0
        t.time = (fr * 2.0 + (fr % 3) * 0.5).astype(np.float32)  # non-uniform, identifies the frame
    if cell == "ortho":
        fr = (np.arange(n_frames) + f0)[:, None]
        t.unitcell_lengths = (np.array([[60.0, 61.0, 62.0]]) + fr * 0.125).astype(np.float32)
        t.unitcell_angles = np.full((n_frames, 3), 90.0, np.float32)
    elif cell == "tric":
        fr = (np.arange(n_frames) + f0)[:, None]
        t.unitcell_lengths = (np.array([[60.0, 61.0, 62.0]]) + fr * 0.125).astype(np.float32)
        t.unitcell_angles = (np.array([[80.0, 95.0, 100.0]]) + (fr % 4) * 0.5).astype(np.float32)
    return t


def ident_top(n_atoms):
    """A small topology that survives pdb/gro/h5: one chain, residues of 3 atoms, unique atom names per residue."""
    import mdtraj as md
    from mdtraj.core import element as elem
    top = md.Topology()
    ch = top.add_chain()
    els = [elem.carbon, elem.nitrogen, elem.oxygen]
    names = ["CA", "N", "O"]
    res = None
    for i in range(n_atoms):
        if i % 3 == 0:
            res = top.add_residue("ALA", ch)
        top.add_atom(names[i % 3], els[i % 3], res)
    return top


def load_kwargs(ext, top):
    return {} if FORMATS[ext]["self_top"] else {"top": top}


def open_kwargs(ext, n_atoms):
    if ext == "mdcrd":
        return {"n_atoms": n_atoms}
    return {}


def coords_of(ext, res):
    """Extract the coordinate array from what fileobj.read() returned."""
    if hasattr(res, "coordinates"):
        return res.coordinates
    if isinstance(res, tuple):
        return res[0]
    return res


def write_file(path, traj):
    """Save through Trajectory.save (dtr refuses an existing directory; caller provides a fresh path)."""
    traj.save(path)
    return path


# ------------------------------------------------------------------------------------------------------------------
# DCD files as OTHER programs write them (mdtraj's own writer never produces these, but its reader must handle them):
#   * CHARMM 4-dimensional dynamics: header flag icntrl[11] = 1 and a 4th coordinate block after X, Y, Z of each frame
#   * a header whose frame count NSET was never patched (0) — left by writers that do not go back to the header, or by a
#     writer killed before its final update; readers then derive the count from the file size
import struct as _struct


def dcd_make_4d(src, dst, n_atoms, n_frames):
    raw = open(src, "rb").read()
    assert _struct.unpack("<i", raw[:4])[0] == 84 and raw[4:8] == b"CORD"
    icntrl = list(_struct.unpack("<20i", raw[8:88]))
    assert icntrl[10] == 0, "source must not carry a unit cell block"
    icntrl[11] = 1
    pos = 92
    title_len = _struct.unpack("<i", raw[pos:pos + 4])[0]
    pos += 4 + title_len + 4
    assert _struct.unpack("<3i", raw[pos:pos + 12]) == (4, n_atoms, 4)
    pos += 12
    header = raw[:8] + _struct.pack("<20i", *icntrl) + raw[88:pos]
    block = 4 + 4 * n_atoms + 4
    assert len(raw) - pos == 3 * block * n_frames
    out = [header]
    marker = _struct.pack("<i", 4 * n_atoms)
    for k in range(n_frames):
        out.append(raw[pos:pos + 3 * block])
        out.append(marker + np.full(n_atoms, 1000.0 + k, dtype="<f4").tobytes() + marker)
        pos += 3 * block
    with open(dst, "wb") as f:
        f.write(b"".join(out))


def dcd_set_nset(path, value=0):
    with open(path, "r+b") as fh:
        head = fh.read(12)
        assert _struct.unpack("<i", head[:4])[0] == 84 and head[4:8] == b"CORD"
        fh.seek(8)
        fh.write(_struct.pack("<i", int(value)))


def xyz_make_foreign(path):
    """Rewrite an mdtraj-written .xyz file the way other tools write it: CRLF line ends and a free-text comment line
    with non-ASCII characters (the format has no specification beyond 'count line, comment line, one line per atom')."""
    txt = open(path, encoding="utf-8").read().split("\n")
    out = []
    i = 0
    while i < len(txt) and txt[i].strip():
        n = int(txt[i])
        out.append(txt[i])
        out.append("frame exported by another tool \u2014 lengths in \u00c5ngstr\u00f6m")
        out.extend(txt[i + 2:i + 2 + n])
        i += 2 + n
    with open(path, "w", encoding="utf-8", newline="") as f:
        f.write("\r\n".join(out) + "\r\n")


def dcd_make_fixed(src, dst, n_atoms, n_frames, fixed=(3, 7)):
    """CHARMM/NAMD DCD with fixed atoms: header NAMNF = number of fixed atoms, a block listing the (1-based) free atoms
    after the NATOM block, the first frame complete, every later frame holding only the free atoms."""
    raw = open(src, "rb").read()
    assert _struct.unpack("<i", raw[:4])[0] == 84 and raw[4:8] == b"CORD"
    icntrl = list(_struct.unpack("<20i", raw[8:88]))
    assert icntrl[10] == 0, "source must not carry a unit cell block"
    fixed = sorted(fixed)
    free = [i for i in range(n_atoms) if i not in fixed]
    icntrl[8] = len(fixed)
    pos = 92
    title_len = _struct.unpack("<i", raw[pos:pos + 4])[0]
    pos += 4 + title_len + 4
    assert _struct.unpack("<3i", raw[pos:pos + 12]) == (4, n_atoms, 4)
    pos += 12
    nfree = len(free)
    freeblock = _struct.pack("<i", 4 * nfree) + _struct.pack("<%di" % nfree, *[i + 1 for i in free]) + _struct.pack("<i", 4 * nfree)
    out = [raw[:8] + _struct.pack("<20i", *icntrl) + raw[88:pos] + freeblock]
    block = 4 + 4 * n_atoms + 4
    assert len(raw) - pos == 3 * block * n_frames
    mk = _struct.pack("<i", 4 * nfree)
    for k in range(n_frames):
        fr = raw[pos:pos + 3 * block]
        if k == 0:
            out.append(fr)
        else:
            for ax in range(3):
                v = np.frombuffer(fr[ax * block + 4:ax * block + 4 + 4 * n_atoms], dtype="<f4")
                out.append(mk + v[free].astype("<f4").tobytes() + mk)
        pos += 3 * block
    with open(dst, "wb") as f:
        f.write(b"".join(out))


def arc_write(path, xyz_nm, box=True):
    """TINKER .arc archive (mdtraj reads but does not write this format): per frame a count/title line, an optional
    periodic-box line, and one line per atom: index, name, x y z in angstroms, atom type, bonded partners."""
    x = np.asarray(xyz_nm, np.float64) * 10.0
    with open(path, "w") as f:
        for k in range(x.shape[0]):
            f.write("%6d  frames that identify themselves\n" % x.shape[1])
            if box:
                f.write("%12.6f%12.6f%12.6f%12.6f%12.6f%12.6f\n" % (600.0 + 1.25 * k, 610.0 + 1.25 * k, 620.0 + 1.25 * k, 90.0, 90.0, 90.0))
            for a in range(x.shape[1]):
                partner = a + 2 if a % 2 == 0 and a + 1 < x.shape[1] else a
                f.write("%6d  %-3s%12.6f%12.6f%12.6f%6d%6d\n" % (a + 1, "N", x[k, a, 0], x[k, a, 1], x[k, a, 2], 24, partner))


def trr_write_foreign(path, xyz_nm, box_nm=None, times=None, double=True, velocities=True, forces=True):
    """GROMACS .trr as a double-precision build of GROMACS writes it, with velocity and force blocks (mdtraj itself only
    writes single-precision positions).  XDR, big-endian: magic 1993, version string, 13 integers (block sizes, natoms, step,
    nre), time and lambda, then box, positions, velocities, forces as reals of the file's precision."""
    x = np.asarray(xyz_nm, np.float64)
    nf, na = x.shape[:2]
    real, rs = (">f8", 8) if double else (">f4", 4)
    out = []
    for k in range(nf):
        hdr = _struct.pack(">3i", 1993, 13, 12) + b"GMX_trn_file"
        sizes = [0, 0, 9 * rs if box_nm is not None else 0, 0, 0, 0, 0, na * 3 * rs, na * 3 * rs if velocities else 0,
                 na * 3 * rs if forces else 0, na, k * 10, 0]
        hdr += _struct.pack(">13i", *sizes)
        tl = np.array([float(times[k]) if times is not None else float(k), 0.0]).astype(real).tobytes()
        out.append(hdr + tl)
        if box_nm is not None:
            out.append(np.asarray(box_nm[k], np.float64).astype(real).tobytes())
        out.append(x[k].astype(real).tobytes())
        if velocities:
            out.append((x[k] * 0.5 + 1000.0 + k).astype(real).tobytes())  # recognisable, never mistaken for positions
        if forces:
            out.append((-x[k] * 3.0 - 2000.0 - k).astype(real).tobytes())
    with open(path, "wb") as f:
        f.write(b"".join(out))
