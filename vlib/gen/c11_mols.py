"""C11 generator: molecules for imaging (chains, rings, branched and fused molecules, waters in O-H-H and H-H-O order,
ions, larger solutes), relabelled, assembled into systems, placed in a cell and scattered over lattice images.

Everything is derived from the case descriptor.  The generator knows, for every atom and frame, the integer lattice
shift it applied (`shifts`) and the partition into molecules (`mols`): this is ground truth for the monitors, it is
never taken from mdtraj."""
from __future__ import annotations

import itertools

import numpy as np

from vlib.gen import common

MOL_KINDS = ["chain", "ring", "branched", "fused", "water_ohh", "water_hho", "ion", "big"]
RELABEL = ["natural", "bfs-root", "reverse", "random"]
SCATTER = ["atom", "atom", "wrapped", "molecule", "none"]
FIT = 0.42  # molecule extent (largest intra-molecular distance) <= FIT * w_min  < w_min/2: the property's domain

# small shapes whose every relabelling is enumerated (natural numbering, parent first)
EXH_SHAPES = {
    "path3": (3, [(0, 1), (1, 2)]),
    "ring3": (3, [(0, 1), (1, 2), (0, 2)]),
    "path4": (4, [(0, 1), (1, 2), (2, 3)]),
    "star4": (4, [(0, 1), (0, 2), (0, 3)]),
    "ring4": (4, [(0, 1), (1, 2), (2, 3), (0, 3)]),
    "paw4": (4, [(0, 1), (1, 2), (0, 2), (2, 3)]),
    "path5": (5, [(0, 1), (1, 2), (2, 3), (3, 4)]),
    "star5": (5, [(0, 1), (0, 2), (0, 3), (0, 4)]),
    "ring5": (5, [(0, 1), (1, 2), (2, 3), (3, 4), (0, 4)]),
    "fork5": (5, [(0, 1), (1, 2), (2, 3), (2, 4)]),
}


def _unit(rng):
    v = rng.normal(size=3)
    return v / np.linalg.norm(v)


def _tree_coords(rng, parents):
    n = len(parents) + 1
    X = np.zeros((n, 3))
    for k in range(1, n):
        X[k] = X[parents[k - 1]] + _unit(rng) * rng.uniform(0.09, 0.16)
    return X


def _polygon(rng, m):
    side = rng.uniform(0.12, 0.16)
    r = side / (2 * np.sin(np.pi / m))
    a = 2 * np.pi * np.arange(m) / m
    X = np.stack([r * np.cos(a), r * np.sin(a), np.zeros(m)], axis=1)
    return X + rng.normal(scale=0.008, size=X.shape)


def template(rng, kind, wide=False):
    """-> (X (n,3) float64, bonds [(parent, child)] in natural parent-first numbering, element symbols, resname)"""
    if kind == "ion":
        return np.zeros((1, 3)), [], ["Na"], "NA"
    if kind in ("water_ohh", "water_hho"):
        th = np.radians(104.5)
        X = np.array([[0, 0, 0], [0.0957, 0, 0], [0.0957 * np.cos(th), 0.0957 * np.sin(th), 0]])
        return X, [(0, 1), (0, 2)], ["O", "H", "H"], "HOH"
    if kind == "chain":
        n = int(rng.integers(2, 9))
        parents = list(range(n - 1))
    elif kind == "branched":
        n = int(rng.integers(4, 13))
        parents = [int(rng.integers(0, k)) for k in range(1, n)]
    elif kind == "big":
        n = int(rng.integers(12, 121 if wide else 41))
        parents = [int(rng.integers(max(0, k - 3), k)) for k in range(1, n)]
    elif kind == "huge":  # widened classes: a solute of protein size
        n = int(rng.integers(300, 1501))
        parents = [int(rng.integers(max(0, k - 3), k)) for k in range(1, n)]
    elif kind == "polymer":  # one unbranched chain: the bond graph is as deep as it gets
        n = int(rng.integers(1200, 3001))
        parents = list(range(n - 1))
    elif kind in ("ring", "fused"):
        m = int(rng.integers(3, 9))
        X = _polygon(rng, m)
        bonds = [(k - 1, k) for k in range(1, m)] + [(0, m - 1)]
        if kind == "fused":
            if m >= 5 and rng.random() < 0.7:
                bonds.append((0, m // 2))  # a chord: bicyclic
            nt = int(rng.integers(1, 6))
            for _ in range(nt):
                p = int(rng.integers(0, len(X)))
                X = np.vstack([X, X[p] + _unit(rng) * rng.uniform(0.09, 0.16)])
                bonds.append((p, len(X) - 1))
        return X, bonds, ["C"] * len(X), "LIG"
    elif kind.startswith("exh:"):
        n, bonds = EXH_SHAPES[kind[4:]]
        if "ring" in kind or "paw" in kind:
            m = 3 if kind.endswith(("ring3", "paw4")) else n
            X = _polygon(rng, m)
            for k in range(m, n):
                p = [a for a, b in bonds if b == k][0]
                X = np.vstack([X, X[p] + _unit(rng) * 0.13])
        else:
            par = {b: a for a, b in bonds}
            X = _tree_coords(rng, [par[k] for k in range(1, n)])
        return X, list(bonds), ["C"] * n, "LIG"
    else:
        raise ValueError(kind)
    X = _tree_coords(rng, parents)
    bonds = [(parents[k - 1], k) for k in range(1, n)]
    return X, bonds, ["C"] * n, ("PRO" if kind in ("big", "huge") else "LIG")


def bfs_order(n, bonds, root, rng=None):
    """visit order of a breadth-first traversal of the (connected) bond graph from `root`"""
    nb = [[] for _ in range(n)]
    for a, b in bonds:
        nb[a].append(b)
        nb[b].append(a)
    seen = [False] * n
    order = [root]
    seen[root] = True
    q = 0
    while q < len(order):
        a = order[q]
        q += 1
        ns = list(nb[a])
        if rng is not None:
            rng.shuffle(ns)
        for b in ns:
            if not seen[b]:
                seen[b] = True
                order.append(b)
    return order


def local_relabel(rng, kind, n, bonds, mode, perm_index=None):
    """natural index -> new local index"""
    if perm_index is not None:
        return np.array(list(itertools.islice(itertools.permutations(range(n)), perm_index, perm_index + 1))[0])
    if kind == "water_hho":
        return np.array([2, 0, 1])  # O last, hydrogens first
    if kind == "water_ohh" or n == 1 or mode == "natural":
        return np.arange(n)
    if mode == "reverse":
        return np.arange(n)[::-1].copy()
    if mode == "bfs-root":
        order = bfs_order(n, bonds, int(rng.integers(0, n)), rng)
        new = np.empty(n, int)
        new[order] = np.arange(n)
        return new
    return rng.permutation(n)


def system_kinds(rng, system, wide=False):
    if system == "single":
        return [str(rng.choice(["chain", "ring", "branched", "fused", "water_ohh", "water_hho", "big"]))]
    if system == "few":
        return [str(rng.choice(MOL_KINDS)) for _ in range(int(rng.integers(2, 13 if wide else 7)))]
    if system == "solvated":
        sol = [str(rng.choice(["big", "big", "branched", "fused", "chain"])) for _ in range(int(rng.integers(1, 4)))]
        nsolv = int(rng.integers(10, 61 if wide else 26))
        p = rng.random()
        solv = [str(rng.choice(["water_ohh", "water_hho", "ion"], p=[p * 0.8, (1 - p) * 0.8, 0.2])) for _ in range(nsolv)]
        return sol + solv
    if system == "ions":  # no bond anywhere in the topology
        return ["ion"] * int(rng.integers(2, 9))
    if system.startswith("exh:"):
        return [system]
    if system == "large":  # thousands of atoms: 1-2 protein-sized solutes in 800-4000 solvent molecules
        sol = ["huge"] * int(rng.integers(1, 3))
        nsolv = int(rng.integers(800, 4001))
        p = rng.random()
        solv = [str(x) for x in rng.choice(["water_ohh", "water_hho", "ion"], size=nsolv, p=[p * 0.9, (1 - p) * 0.9, 0.1])]
        return sol + solv
    if system == "polymer":
        return ["polymer"] + [str(rng.choice(["water_ohh", "water_hho", "ion", "chain"])) for _ in range(int(rng.integers(0, 6)))]
    raise ValueError(system)


class System:
    pass


def build(case):
    """Deterministic construction of topology + scattered float32 trajectory from the descriptor."""
    import mdtraj as md
    from mdtraj.core import element as elem
    rng = common.rng_for("C11case", case["seed"])
    nf = case["n_frames"]
    wide = bool(case.get("wide"))
    kinds = system_kinds(rng, case["system"], wide)
    order = rng.permutation(len(kinds))
    kinds = [kinds[k] for k in order]
    tmpl = [template(rng, k, wide) for k in kinds]
    sizes = [len(t[0]) for t in tmpl]
    na = int(sum(sizes))
    # labels ---------------------------------------------------------------------------------------------------
    start = np.concatenate([[0], np.cumsum(sizes)])
    new_of = np.empty(na, int)  # (molecule-block natural slot) -> atom index in the topology
    for m, (X, bonds, els, rn) in enumerate(tmpl):
        loc = local_relabel(rng, kinds[m], len(X), bonds, case["relabel"], case.get("perm"))
        new_of[start[m]:start[m + 1]] = start[m] + loc
    if case["relabel"] == "random" and case.get("global_perm") and na > 1:
        new_of = rng.permutation(na)[new_of]
    mol_of_slot = np.repeat(np.arange(len(kinds)), sizes)
    slot_of_new = np.empty(na, int)
    slot_of_new[new_of] = np.arange(na)
    top = md.Topology()
    interleaved = bool(case["relabel"] == "random" and case.get("global_perm") and na > 1)
    residues = []
    chain = None
    resmode = case.get("resmode", "molecule")
    if resmode != "molecule" and not interleaved:
        # widened classes (molecule m owns the index block start[m]..start[m+1]-1 here):
        #  "split"  a molecule is cut into residues of 1-6 atoms and new chains start at residue boundaries INSIDE
        #           molecules too (molecule spanning several residues and several chains, like cross-linked peptides)
        #  "merged" 1-3 consecutive molecules share one residue (several molecules, also bond-free ions, in ONE
        #           multi-atom residue, like a ligand without bonds)
        chain = top.add_chain()
        cur, left, mols_left = None, 0, 0
        for i in range(na):
            s = slot_of_new[i]
            m = mol_of_slot[s]
            new_mol = bool(i == start[m])
            if resmode == "split":
                if left == 0 or new_mol:
                    if rng.random() < 0.15:
                        chain = top.add_chain()
                    # now and then a residue INSIDE a solute molecule is a water by name (a coordinated / covalently attached
                    # water: the bond list ties it to its neighbours like any other part of the molecule)
                    rname = "HOH" if (not new_mol and tmpl[m][3] != "HOH" and rng.random() < 0.2) else tmpl[m][3]
                    cur = top.add_residue(rname, chain)
                    left = int(rng.integers(1, 7)) if rname != "HOH" else int(rng.integers(1, 4))
                left -= 1
            elif new_mol:
                if mols_left == 0:
                    if rng.random() < 0.2:
                        chain = top.add_chain()
                    cur = top.add_residue(tmpl[m][3], chain)
                    mols_left = int(rng.integers(1, 4))
                mols_left -= 1
            sym = tmpl[m][2][s - start[m]]
            top.add_atom(sym + str(s - start[m]), elem.get_by_symbol(sym), cur)
    else:
        for m, k in enumerate(kinds):
            if chain is None or ((k == "big" or rng.random() < 0.3) and not interleaved):
                chain = top.add_chain()
            # mdtraj keeps the atoms of a residue contiguous; interleaved molecules therefore get one residue per atom
            residues.append(chain if interleaved else top.add_residue(tmpl[m][3], chain))
        for i in range(na):
            s = slot_of_new[i]
            m = mol_of_slot[s]
            sym = tmpl[m][2][s - start[m]]
            res = top.add_residue(tmpl[m][3], residues[m]) if interleaved else residues[m]
            top.add_atom(sym + str(s - start[m]), elem.get_by_symbol(sym), res)
    atoms = [top.atom(i) for i in range(na)]
    assert [a.index for a in top.atoms] == list(range(na))
    bonds = []
    for m, (X, bl, els, rn) in enumerate(tmpl):
        for a, b in bl:
            bonds.append((int(new_of[start[m] + a]), int(new_of[start[m] + b])))
    ins = rng.permutation(len(bonds)) if bonds else []
    for k in ins:
        a, b = bonds[k]
        if rng.random() < 0.5:
            a, b = b, a
        top.add_bond(atoms[a], atoms[b])
    ins = [int(k) for k in ins]
    if case.get("dup_bonds") and bonds:
        # widened class: some bonds are listed twice (the public add_bond does not deduplicate; files with CONECT
        # records on top of template bonds give such topologies)
        for k in rng.choice(len(bonds), size=max(1, len(bonds) // 8), replace=False):
            a, b = bonds[int(k)]
            if rng.random() < 0.5:
                a, b = b, a
            top.add_bond(atoms[a], atoms[b])
            ins.append(int(k))
    # what Topology.bonds holds, in its order (documented behaviour of add_bond: lower index first)
    top_bonds = np.array([[min(bonds[k]), max(bonds[k])] for k in ins], dtype=np.int64).reshape(-1, 2)
    mols = [np.sort(new_of[start[m]:start[m + 1]]) for m in range(len(kinds))]
    # cells -----------------------------------------------------------------------------------------------------
    pf = case["perframe"]
    if pf == "one-field":
        # widened class: ONE of the six cell parameters changes along the trajectory, the other five are constant
        l0, a0 = common.random_cell(rng, case["cell"])
        field = int(rng.integers(0, 6))
        if field >= 3 and abs(float(a0[field - 3]) - 90.0) < 1e-9 and rng.random() < 0.5:
            field = int(rng.integers(0, 3))  # keep some right angles right
        cells = []
        for f in range(nf):
            l, a = l0.copy(), a0.copy()
            if field < 3:
                l[field] = l0[field] * rng.uniform(0.85, 1.2)
            else:
                for _ in range(50):
                    a[field - 3] = a0[field - 3] + rng.uniform(-6, 6)
                    if common.cell_valid(a, 0.08):
                        break
                else:
                    a = a0.copy()
            cells.append((l, a))
    elif pf == "class-change":
        # widened class: the cell CLASS changes along the trajectory (cubic -> triclinic -> hexagonal ...)
        cells = [common.random_cell(rng, str(rng.choice(common.CELL_KINDS)) if f else case["cell"]) for f in range(nf)]
    else:
        ncell = nf if pf else 1
        cells = [common.random_cell(rng, case["cell"]) for _ in range(ncell)]
        if not pf:
            cells = cells * nf
    L = np.array([c[0] for c in cells], dtype=np.float32)
    A = np.array([c[1] for c in cells], dtype=np.float32)
    times = np.cumsum(rng.uniform(0.5, 3.0, nf)).astype(np.float32)
    t = md.Trajectory(np.zeros((nf, na, 3), np.float32), top, time=times, unitcell_lengths=L, unitcell_angles=A)
    B = t.unitcell_vectors.astype(np.float64)  # the lattice the trajectory reports (C17 judges it against L/A)
    # coordinates -----------------------------------------------------------------------------------------------
    K = case["spread"]
    scatter = case["scatter"]
    xyz = np.zeros((nf, na, 3))
    whole = np.zeros((nf, na, 3))
    shifts = np.zeros((nf, na, 3), dtype=np.int64)
    late = int(case.get("late", 0))  # widened class: frames before `late` are left whole and unscattered
    for f in range(nf):
        w = common.cell_widths(B[f])
        Binv = np.linalg.inv(B[f])
        if scatter == "sparse":  # widened class: only 1-3 atoms of the whole system sit in another image
            chosen = set(int(x) for x in rng.choice(na, size=min(na, int(rng.integers(1, 4))), replace=False))
        for m, (X0, bl, els, rn) in enumerate(tmpl):
            n = len(X0)
            X = X0 + (rng.normal(scale=0.004, size=X0.shape) if n > 1 else 0.0)
            X = X - X.mean(0)
            if n > 1:
                ext = np.linalg.norm(X[:, None] - X[None], axis=-1).max()
                X = X * min(1.0, FIT * w.min() / ext)
            pos = X @ common.random_rotation(rng) + rng.uniform(0, 1, 3) @ B[f]
            idx = new_of[start[m]:start[m + 1]]
            whole[f, idx] = pos
            if scatter == "atom":
                sh = rng.integers(-K, K + 1, (n, 3))
                if "perm" in case:  # enumerated labellings: every atom in its own image
                    sh[:, int(rng.integers(0, 3))] = rng.permutation(n) - n // 2
            elif scatter == "wrapped":  # each atom wrapped into the primary cell on its own, as MD engines write them
                sh = -np.floor(pos @ Binv).astype(np.int64)
            elif scatter == "molecule":
                sh = np.tile(rng.integers(-K, K + 1, (1, 3)), (n, 1))
            elif scatter == "sparse":
                sh = np.zeros((n, 3), dtype=np.int64)
                for j in range(n):
                    if int(idx[j]) in chosen:
                        while not sh[j].any():
                            sh[j] = rng.integers(-max(K, 1), max(K, 1) + 1, 3)
            else:
                sh = np.zeros((n, 3), dtype=np.int64)
            if f < late:
                sh = np.zeros((n, 3), dtype=np.int64)
            shifts[f, idx] = sh
            xyz[f, idx] = pos + sh @ B[f]
    t.xyz = xyz.astype(np.float32)
    s = System()
    s.traj, s.B, s.mols, s.bonds, s.shifts, s.kinds, s.rng = t, B, mols, top_bonds, shifts, kinds, rng
    s.L, s.A, s.times = L, A, times
    s.whole = whole
    return s
