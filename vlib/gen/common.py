"""Shared generators: RNG derivation, unit cells, coordinates, topologies, trajectories.

Everything is derived from small JSON-able case descriptors so that a case can be replayed from its descriptor."""
from __future__ import annotations

import hashlib
import math

import numpy as np

CELL_KINDS = ["cubic", "ortho", "monoclinic", "mono_alpha", "mono_gamma", "two_skew", "hex60", "hex120", "truncoct", "rhombdod", "rhombdod2",
              "triclinic"]
# monoclinic = only beta != 90; mono_alpha / mono_gamma = only alpha / only gamma != 90; two_skew = exactly one angle is 90


def rng_for(*parts):
    h = hashlib.sha256(repr(parts).encode()).digest()
    return np.random.default_rng(int.from_bytes(h[:8], "little"))


def case_seed(seed, prop, i):
    return int.from_bytes(hashlib.sha256(f"{seed}/{prop}/{i}".encode()).digest()[:6], "little")


def cell_valid(angles_deg, margin=0.05):
    ca, cb, cg = np.cos(np.radians(angles_deg))
    return 1 - ca * ca - cb * cb - cg * cg + 2 * ca * cb * cg > margin


def cell_vectors64(lengths, angles_deg):
    """Independent float64 construction of box vectors in the standard orientation (rows a,b,c)."""
    a, b, c = [float(x) for x in lengths]
    al, be, ga = [math.radians(float(x)) for x in angles_deg]
    av = np.array([a, 0.0, 0.0])
    bv = np.array([b * math.cos(ga), b * math.sin(ga), 0.0])
    cx = c * math.cos(be)
    cy = c * (math.cos(al) - math.cos(be) * math.cos(ga)) / math.sin(ga)
    cz = math.sqrt(max(c * c - cx * cx - cy * cy, 0.0))
    return np.array([av, bv, [cx, cy, cz]])


def random_cell(rng, kind=None, lo=1.5, hi=6.0, margin=0.08):
    """Returns (lengths[3], angles[3]) in nm/degrees."""
    kind = kind or CELL_KINDS[rng.integers(len(CELL_KINDS))]
    L = rng.uniform(lo, hi)
    if kind == "cubic":
        return np.array([L, L, L]), np.array([90.0, 90.0, 90.0])
    if kind == "ortho":
        return np.array([L, L * rng.uniform(0.4, 2.5), L * rng.uniform(0.4, 2.5)]), np.array([90.0, 90.0, 90.0])
    if kind == "monoclinic":
        return np.array([L, L * rng.uniform(0.5, 2), L * rng.uniform(0.5, 2)]), np.array([90.0, rng.uniform(50, 130), 90.0])
    if kind == "mono_alpha":
        return np.array([L, L * rng.uniform(0.5, 2), L * rng.uniform(0.5, 2)]), np.array([rng.uniform(50, 130), 90.0, 90.0])
    if kind == "mono_gamma":
        return np.array([L, L * rng.uniform(0.5, 2), L * rng.uniform(0.5, 2)]), np.array([90.0, 90.0, rng.uniform(50, 130)])
    if kind == "two_skew":
        ang = np.array([rng.uniform(60, 120), rng.uniform(60, 120), rng.uniform(60, 120)])
        ang[int(rng.integers(3))] = 90.0
        return np.array([L, L * rng.uniform(0.5, 2), L * rng.uniform(0.5, 2)]), ang
    if kind == "hex60":
        return np.array([L, L, L * rng.uniform(0.5, 2)]), np.array([90.0, 90.0, 60.0])
    if kind == "hex120":
        return np.array([L, L, L * rng.uniform(0.5, 2)]), np.array([90.0, 90.0, 120.0])
    if kind == "truncoct":
        a = 109.4712206
        return np.array([L, L, L]), np.array([a, a, a])
    if kind == "rhombdod":
        return np.array([L, L, L]), np.array([60.0, 60.0, 90.0])
    if kind == "rhombdod2":
        return np.array([L, L, L]), np.array([90.0, 60.0, 60.0]) if rng.random() < 0.5 else np.array([60.0, 90.0, 60.0])
    for _ in range(1000):
        ang = rng.uniform(45, 135, 3)
        if cell_valid(ang, margin):
            break
    else:
        ang = np.array([80.0, 95.0, 100.0])
    lens = np.array([L, L * rng.uniform(0.4, 2.5), L * rng.uniform(0.4, 2.5)])
    if lens.max() / lens.min() > 6:
        lens = np.clip(lens, lens.max() / 6, None)
    return lens, ang


def cell_widths(B):
    """Perpendicular widths of the cell with rows a,b,c (float64)."""
    vol = abs(np.linalg.det(B))
    w = []
    for i in range(3):
        n = np.cross(B[(i + 1) % 3], B[(i + 2) % 3])
        w.append(vol / np.linalg.norm(n))
    return np.array(w)


def random_rotation(rng):
    q = rng.normal(size=4)
    q /= np.linalg.norm(q)
    w, x, y, z = q
    return np.array([[1 - 2 * (y * y + z * z), 2 * (x * y - z * w), 2 * (x * z + y * w)],
                     [2 * (x * y + z * w), 1 - 2 * (x * x + z * z), 2 * (y * z - x * w)],
                     [2 * (x * z - y * w), 2 * (y * z + x * w), 1 - 2 * (x * x + y * y)]])


ELEMENTS = ["H", "C", "N", "O", "S", "P", "Na", "Cl", "Fe", "VS"]
RESNAMES = ["ALA", "GLY", "LYS", "HOH", "NA", "LIG", "PRO", "SER", "CL", "ASP"]
ATOMNAMES = ["N", "CA", "C", "O", "CB", "H", "HA", "OW", "HW1", "HW2", "NA", "X1", "C1", "OXT", "SG"]
BOND_TYPES = ["Single", "Double", "Triple", "Aromatic", "Amide", None]


def random_topology(rng, n_atoms, rich=True, bonds=True, max_chain=4):
    """A random multi-chain topology through mdtraj's public construction API."""
    import mdtraj as md
    from mdtraj.core import element as elem
    from mdtraj.core.topology import Aromatic, Amide, Double, Single, Triple
    bt = {"Single": Single, "Double": Double, "Triple": Triple, "Aromatic": Aromatic, "Amide": Amide, None: None}
    top = md.Topology()
    n_chain = int(rng.integers(1, max_chain + 1))
    # split atoms into chains and residues
    cuts = sorted(set(rng.integers(1, max(2, n_atoms), size=n_chain - 1).tolist())) if n_atoms > 1 else []
    bounds = [0] + [c for c in cuts if 0 < c < n_atoms] + [n_atoms]
    serial = int(rng.integers(1, 50))
    chain_ids = "ABCDEFGHIJKLMNOPQRSTUVWXYZ"
    for ci in range(len(bounds) - 1):
        cid = chain_ids[int(rng.integers(0, 6))] if rich else None  # repeated chain ids possible
        chain = top.add_chain(cid) if rich else top.add_chain()
        lo, hi = bounds[ci], bounds[ci + 1]
        i = lo
        resseq = int(rng.integers(-3, 20))
        while i < hi:
            rn = int(rng.integers(1, 6))
            rn = min(rn, hi - i)
            name = RESNAMES[int(rng.integers(len(RESNAMES)))]
            seg = ["", "SEGA", "B"][int(rng.integers(3))] if rich else ""
            res = top.add_residue(name, chain, resSeq=resseq if rich else None, segment_id=seg)
            if rng.random() < 0.7:
                resseq += int(rng.integers(0, 3))  # repeats and gaps
            for _ in range(rn):
                el = ELEMENTS[int(rng.integers(len(ELEMENTS)))]
                e = elem.virtual_site if el == "VS" else elem.get_by_symbol(el)
                an = ATOMNAMES[int(rng.integers(len(ATOMNAMES)))]
                if rich:
                    top.add_atom(an, e, res, serial=serial)
                    serial += int(rng.integers(1, 4))
                else:
                    top.add_atom(an, e, res)
                i += 1
    if bonds and n_atoms > 1:
        atoms = list(top.atoms)
        nb = int(rng.integers(0, 2 * n_atoms))
        seen = set()
        for _ in range(nb):
            if rng.random() < 0.7:
                a = int(rng.integers(0, n_atoms - 1))
                b = min(n_atoms - 1, a + int(rng.integers(1, 4)))
            else:
                a, b = [int(x) for x in rng.integers(0, n_atoms, 2)]
            if a == b or (min(a, b), max(a, b)) in seen:
                continue
            seen.add((min(a, b), max(a, b)))
            if rich:
                t = BOND_TYPES[int(rng.integers(len(BOND_TYPES)))]
                order = [None, 1, 2, 3][int(rng.integers(4))]
                top.add_bond(atoms[a], atoms[b], type=bt[t], order=order)
            else:
                top.add_bond(atoms[a], atoms[b])
    return top


def simple_topology(n_atoms, element="C", per_res=1):
    import mdtraj as md
    from mdtraj.core import element as elem
    top = md.Topology()
    ch = top.add_chain()
    e = elem.get_by_symbol(element)
    res = None
    for i in range(n_atoms):
        if i % per_res == 0:
            res = top.add_residue("ALA", ch)
        top.add_atom("C%d" % (i % 1000) if per_res > 1 else "CA", e, res)
    return top


def self_identifying_xyz(n_frames, n_atoms, f0=0):
    """xyz[f,a] identifies (f,a): exactly representable in float32, steps of 1/64 nm (>> any format quantum)."""
    f = (np.arange(n_frames) + f0)[:, None].astype(np.float64)
    a = np.arange(n_atoms)[None, :].astype(np.float64)
    x = f + a / 64.0
    y = -(f * 0.5 + a / 64.0)
    z = ((f * 7) % 13) + a / 32.0
    return np.stack([x, y, z], axis=-1).astype(np.float32)


def random_traj(rng, n_frames, n_atoms, cell="random", top=None, spread=1.0, per_frame_cell=False, times=True):
    import mdtraj as md
    top = top if top is not None else simple_topology(n_atoms)
    xyz = rng.normal(scale=spread, size=(n_frames, n_atoms, 3)).astype(np.float32)
    t = md.Trajectory(xyz, top)
    if times:
        t.time = np.cumsum(rng.uniform(0.5, 3.0, n_frames)).astype(np.float32)
    if cell not in (None, "none"):
        kind = None if cell == "random" else cell
        if per_frame_cell:
            ls, as_ = zip(*[random_cell(rng, kind) for _ in range(n_frames)])
            ls, as_ = np.array(ls), np.array(as_)
        else:
            l, a = random_cell(rng, kind)
            ls, as_ = np.tile(l, (n_frames, 1)), np.tile(a, (n_frames, 1))
        t.unitcell_lengths = ls.astype(np.float32)
        t.unitcell_angles = as_.astype(np.float32)
    return t


def with_asan_slice(gen, every, name="asan"):
    """Yield every case; additionally every `every`-th one a second time tagged for the sanitizer worker group `name`
    (the ASan/UBSan-instrumented build rides on a sub-stream of the same workload; 0/None disables)."""
    for k, c in enumerate(gen):
        yield c
        if every and k % every == 0:
            d = dict(c)
            d["group"] = name
            yield d


# ---------------------------------------------------------------------------------------------------------------------
# appended for the widening pass of C05/C07/C09/C10 (argument containers, derived trajectories, cell histories)
INDEX_STYLES = ["int64", "int32", "list", "tuple", "noncontig", "fortran", "intp-sliced", "int16"]


def index_arg(a, style):
    """The same index table `a` (ndarray of ints, 1-d or 2-d) handed over in another container / dtype / memory layout."""
    a = np.asarray(a)
    if style == "int64":
        return a.astype(np.int64)
    if style == "int32":
        return a.astype(np.int32)
    if style == "int16":
        return a.astype(np.int16) if (a.size == 0 or a.max() < 2 ** 15) else a.astype(np.int64)
    if style == "list":
        return a.tolist()
    if style == "tuple":
        return tuple(tuple(int(x) for x in r) for r in a) if a.ndim == 2 else tuple(int(x) for x in a)
    if style == "noncontig":  # every other column / element of a wider array
        if a.ndim == 2:
            big = np.full((len(a), 2 * a.shape[1]), -7, dtype=np.int64)
            big[:, ::2] = a
            return big[:, ::2]
        big = np.full(2 * len(a), -7, dtype=np.int64)
        big[::2] = a
        return big[::2]
    if style == "fortran":
        return np.asfortranarray(a.astype(np.int32)) if a.ndim == 2 else a.astype(np.int32)[::-1][::-1]
    if style == "intp-sliced":  # rows taken out of the middle of a longer table (a view with an offset)
        pad = np.full((3,) + a.shape[1:], 0, dtype=np.intp)
        big = np.concatenate([pad, a.astype(np.intp), pad])
        return big[3:3 + len(a)]
    raise ValueError(style)


DERIVED = ["none", "slice", "slice-nocopy", "stride", "stride-nocopy", "atom_slice", "join", "xyz64", "vectors", "fancy"]


def derive_traj(t, mode, rng):
    """A trajectory with the same frames, atoms and cells as `t`, but obtained the way users obtain trajectories: cut out
    of a longer one (copying or not), every other frame of an interleaved one, an atom subset of a bigger system, pieces
    joined, float64 coordinates assigned, the cell assigned as box vectors.  The caller judges the RETURNED object by its
    own xyz / unitcell_vectors."""
    import mdtraj as md
    if mode == "none":
        return t
    nf = t.n_frames
    junk = t.slice(range(nf), copy=True)
    junk.xyz = (junk.xyz[::-1] * np.float32(1.25) + np.float32(0.37)).astype(np.float32)
    if t.unitcell_lengths is not None:
        junk.unitcell_lengths = (t.unitcell_lengths[::-1] * 1.5).astype(np.float32)
        junk.unitcell_angles = t.unitcell_angles[::-1].copy()
    if mode in ("slice", "slice-nocopy"):
        big = junk.join(t, check_topology=False).join(junk, check_topology=False)
        return big.slice(slice(nf, 2 * nf), copy=(mode == "slice"))
    if mode in ("stride", "stride-nocopy", "fancy"):
        xyz = np.empty((2 * nf,) + t.xyz.shape[1:], np.float32)
        xyz[::2], xyz[1::2] = t.xyz, junk.xyz
        big = md.Trajectory(xyz, t.topology)
        if t.unitcell_lengths is not None:
            L = np.empty((2 * nf, 3), np.float32)
            A = np.empty((2 * nf, 3), np.float32)
            L[::2], L[1::2] = t.unitcell_lengths, junk.unitcell_lengths
            A[::2], A[1::2] = t.unitcell_angles, junk.unitcell_angles
            big.unitcell_lengths, big.unitcell_angles = L, A
        if mode == "fancy":
            return big[np.arange(0, 2 * nf, 2)]
        return big.slice(slice(0, 2 * nf, 2), copy=(mode == "stride"))
    if mode == "atom_slice":
        extra = int(rng.integers(1, 6))
        na = t.n_atoms
        perm_keep = np.sort(rng.choice(na + extra, na, replace=False))
        top = simple_topology(na + extra)
        xyz = rng.normal(size=(nf, na + extra, 3)).astype(np.float32)
        xyz[:, perm_keep] = t.xyz
        big = md.Trajectory(xyz, top)
        if t.unitcell_lengths is not None:
            big.unitcell_lengths, big.unitcell_angles = t.unitcell_lengths.copy(), t.unitcell_angles.copy()
        return big.atom_slice(perm_keep)
    if mode == "join":
        if nf < 2:
            return t.slice(range(nf), copy=True)
        k = int(rng.integers(1, nf))
        return t[:k].join(t[k:])
    if mode == "xyz64":
        t2 = t.slice(range(nf), copy=True)
        t2.xyz = t.xyz.astype(np.float64)
        return t2
    if mode == "vectors":
        t2 = md.Trajectory(t.xyz.copy(), t.topology)
        if t.unitcell_lengths is not None:
            t2.unitcell_vectors = t.unitcell_vectors.astype(np.float64 if rng.random() < 0.5 else np.float32)
        return t2
    raise ValueError(mode)


def perframe_cells(rng, kind, nf, mode, one_cell=None):
    """nf cells (lengths, angles) that vary along the trajectory.  mode: 'all' every frame its own cell of the class;
    'one-field' a single length or angle drifts, everything else bit-identical; 'class-change' rectangular frames first
    and skewed ones later (or a skewed run interrupted by rectangular frames); 'late' constant cell except the last frames;
    'alternate' two cells alternating."""
    one_cell = one_cell or (lambda: random_cell(rng, kind))
    if mode == "all":
        return [one_cell() for _ in range(nf)]
    if mode == "one-field":
        l0, a0 = one_cell()
        which = int(rng.integers(0, 6))
        if which >= 3 and a0[which - 3] == 90.0:
            which -= 3
        out = []
        for f in range(nf):
            l, a = l0.copy(), a0.copy()
            g = f % 23  # bounded drift, also for long trajectories
            if which < 3:
                l[which] = l0[which] * (1 + 0.02 * g)
            else:
                cand = a0.copy()
                cand[which - 3] = a0[which - 3] + (0.3 * g if a0[which - 3] < 90 else -0.3 * g)
                a = cand if cell_valid(cand) else a0.copy()
            out.append((l, a))
        return out
    if mode == "class-change":
        k = int(rng.integers(1, max(2, nf)))
        first_rect = rng.random() < 0.7
        out = []
        for f in range(nf):
            rect = (f < k) == first_rect
            out.append(random_cell(rng, "ortho") if rect else one_cell())
        return out
    if mode == "late":
        c0 = one_cell()
        k = max(1, nf - int(rng.integers(1, 4)))
        return [c0 if f < k else one_cell() for f in range(nf)]
    if mode == "alternate":
        c0, c1 = one_cell(), one_cell()
        return [c0 if f % 2 == 0 else c1 for f in range(nf)]
    raise ValueError(mode)


PF_MODES = ["all", "one-field", "class-change", "late", "alternate"]
SIMD_COUNTS = [1, 2, 3, 4, 5, 6, 7, 8, 9, 15, 16, 17, 31, 32, 33, 63, 64, 65]


def rebuild_topology(top):
    """(appended in the widening round) a NEW Topology with the same chains, residues (name, resSeq, segment_id), atoms
    (name, element, serial) and bonds (type, order) as `top`, built through the public construction API only: nothing
    an implementation may have remembered on the `top` object (or keyed on its identity) is carried over."""
    import mdtraj as md
    new = md.Topology()
    atom_map = {}
    for chain in top.chains:
        try:
            c = new.add_chain(chain.chain_id)
        except TypeError:
            c = new.add_chain()
        for res in chain.residues:
            r = new.add_residue(res.name, c, resSeq=res.resSeq, segment_id=res.segment_id)
            for a in res.atoms:
                atom_map[a.index] = new.add_atom(a.name, a.element, r, serial=a.serial)
    for b in top.bonds:
        new.add_bond(atom_map[b[0].index], atom_map[b[1].index], type=getattr(b, "type", None), order=getattr(b, "order", None))
    return new
