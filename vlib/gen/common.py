"""Shared generators: RNG derivation, unit cells, coordinates, topologies, trajectories.

Everything is derived from small JSON-able case descriptors so that a case can be replayed from its descriptor."""
from __future__ import annotations

import hashlib
import math

import numpy as np

CELL_KINDS = ["cubic", "ortho", "monoclinic", "mono_alpha", "mono_gamma", "two_skew", "hex60", "hex120", "truncoct", "rhombdod", "rhombdod2",
              "triclinic"]
# monoclinic = only beta != 90; mono_alpha / mono_gamma = only alpha / only gamma != 90; two_skew = exactly one angle is 90


def rng_for(*parts):
    h = hashlib.sha256(repr(parts).encode()).digest()
    return np.random.default_rng(int.from_bytes(h[:8], "little"))


def case_seed(seed, prop, i):
    return int.from_bytes(hashlib.sha256(f"{seed}/{prop}/{i}".encode()).digest()[:6], "little")


def cell_valid(angles_deg, margin=0.05):
    ca, cb, cg = np.cos(np.radians(angles_deg))
    return 1 - ca * ca - cb * cb - cg * cg + 2 * ca * cb * cg > margin


def cell_vectors64(lengths, angles_deg):
    """Independent float64 construction of box vectors in the standard orientation (rows a,b,c)."""
    a, b, c = [float(x) for x in lengths]
    al, be, ga = [math.radians(float(x)) for x in angles_deg]
    av = np.array([a, 0.0, 0.0])
    bv = np.array([b * math.cos(ga), b * math.sin(ga), 0.0])
    cx = c * math.cos(be)
    cy = c * (math.cos(al) - math.cos(be) * math.cos(ga)) / math.sin(ga)
    cz = math.sqrt(max(c * c - cx * cx - cy * cy, 0.0))
    return np.array([av, bv, [cx, cy, cz]])


def random_cell(rng, kind=None, lo=1.5, hi=6.0, margin=0.08):
    """Returns (lengths[3], angles[3]) in nm/degrees."""
    kind = kind or CELL_KINDS[rng.integers(len(CELL_KINDS))]
    L = rng.uniform(lo, hi)
    if kind == "cubic":
        return np.array([L, L, L]), np.array([90.0, 90.0, 90.0])
    if kind == "ortho":
        return np.array([L, L * rng.uniform(0.4, 2.5), L * rng.uniform(0.4, 2.5)]), np.array([90.0, 90.0, 90.0])
    if kind == "monoclinic":
        return np.array([L, L * rng.uniform(0.5, 2), L * rng.uniform(0.5, 2)]), np.array([90.0, rng.uniform(50, 130), 90.0])
    if kind == "mono_alpha":
        return np.array([L, L * rng.uniform(0.5, 2), L * rng.uniform(0.5, 2)]), np.array([rng.uniform(50, 130), 90.0, 90.0])
    if kind == "mono_gamma":
        return np.array([L, L * rng.uniform(0.5, 2), L * rng.uniform(0.5, 2)]), np.array([90.0, 90.0, rng.uniform(50, 130)])
    if kind == "two_skew":
        ang = np.array([rng.uniform(60, 120), rng.uniform(60, 120), rng.uniform(60, 120)])
        ang[int(rng.integers(3))] = 90.0
        return np.array([L, L * rng.uniform(0.5, 2), L * rng.uniform(0.5, 2)]), ang
    if kind == "hex60":
        return np.array([L, L, L * rng.uniform(0.5, 2)]), np.array([90.0, 90.0, 60.0])
    if kind == "hex120":
        return np.array([L, L, L * rng.uniform(0.5, 2)]), np.array([90.0, 90.0, 120.0])
    if kind == "truncoct":
        a = 109.4712206
        return np.array([L, L, L]), np.array([a, a, a])
    if kind == "rhombdod":
        return np.array([L, L, L]), np.array([60.0, 60.0, 90.0])
    if kind == "rhombdod2":
        return np.array([L, L, L]), np.array([90.0, 60.0, 60.0]) if rng.random() < 0.5 else np.array([60.0, 90.0, 60.0])
    for _ in range(1000):
        ang = rng.uniform(45, 135, 3)
        if cell_valid(ang, margin):
            break
    else:
        ang = np.array([80.0, 95.0, 100.0])
    lens = np.array([L, L * rng.uniform(0.4, 2.5), L * rng.uniform(0.4, 2.5)])
    if lens.max() / lens.min() > 6:
        lens = np.clip(lens, lens.max() / 6, None)
    return lens, ang


def cell_widths(B):
    """Perpendicular widths of the cell with rows a,b,c (float64)."""
    vol = abs(np.linalg.det(B))
    w = []
    for i in range(3):
        n = np.cross(B[(i + 1) % 3], B[(i + 2) % 3])
        w.append(vol / np.linalg.norm(n))
    return np.array(w)


def random_rotation(rng):
    q = rng.normal(size=4)
    q /= np.linalg.norm(q)
    w, x, y, z = q
    return np.array([[1 - 2 * (y * y + z * z), 2 * (x * y - z * w), 2 * (x * z + y * w)],
                     [2 * (x * y + z * w), 1 - 2 * (x * x + z * z), 2 * (y * z - x * w)],
                     [2 * (x * z - y * w), 2 * (y * z + x * w), 1 - 2 * (x * x + y * y)]])


ELEMENTS = ["H", "C", "N", "O", "S", "P", "Na", "Cl", "Fe", "VS"]
RESNAMES = ["ALA", "GLY", "LYS", "HOH", "NA", "LIG", "PRO", "SER", "CL", "ASP"]
ATOMNAMES = ["N", "CA", "C", "O", "CB", "H", "HA", "OW", "HW1", "HW2", "NA", "X1", "C1", "OXT", "SG"]
BOND_TYPES = ["Single", "Double", "Triple", "Aromatic", "Amide", None]


def random_topology(rng, n_atoms, rich=True, bonds=True, max_chain=4):
    """A random multi-chain topology through mdtraj's public construction API."""
    import mdtraj as md
    from mdtraj.core import element as elem
    from mdtraj.core.topology import Aromatic, Amide, Double, Single, Triple
    bt = {"Single": Single, "Double": Double, "Triple": Triple, "Aromatic": Aromatic, "Amide": Amide, None: None}
    top = md.Topology()
    n_chain = int(rng.integers(1, max_chain + 1))
    # split atoms into chains and residues
    cuts = sorted(set(rng.integers(1, max(2, n_atoms), size=n_chain - 1).tolist())) if n_atoms > 1 else []
    bounds = [0] + [c for c in cuts if 0 < c < n_atoms] + [n_atoms]
    serial = int(rng.integers(1, 50))
    chain_ids = "ABCDEFGHIJKLMNOPQRSTUVWXYZ"
    for ci in range(len(bounds) - 1):
        cid = chain_ids[int(rng.integers(0, 6))] if rich else None  # repeated chain ids possible
        chain = top.add_chain(cid) if rich else top.add_chain()
        lo, hi = bounds[ci], bounds[ci + 1]
        i = lo
        resseq = int(rng.integers(-3, 20))
        while i < hi:
            rn = int(rng.integers(1, 6))
            rn = min(rn, hi - i)
            name = RESNAMES[int(rng.integers(len(RESNAMES)))]
            seg = ["", "SEGA", "B"][int(rng.integers(3))] if rich else ""
            res = top.add_residue(name, chain, resSeq=resseq if rich else None, segment_id=seg)
            if rng.random() < 0.7:
                resseq += int(rng.integers(0, 3))  # repeats and gaps
            for _ in range(rn):
                el = ELEMENTS[int(rng.integers(len(ELEMENTS)))]
                e = elem.virtual_site if el == "VS" else elem.get_by_symbol(el)
                an = ATOMNAMES[int(rng.integers(len(ATOMNAMES)))]
                if rich:
                    top.add_atom(an, e, res, serial=serial)
                    serial += int(rng.integers(1, 4))
                else:
                    top.add_atom(an, e, res)
                i += 1
    if bonds and n_atoms > 1:
        atoms = list(top.atoms)
        nb = int(rng.integers(0, 2 * n_atoms))
        seen = set()
        for _ in range(nb):
            if rng.random() < 0.7:
                a = int(rng.integers(0, n_atoms - 1))
                b = min(n_atoms - 1, a + int(rng.integers(1, 4)))
            else:
                a, b = [int(x) for x in rng.integers(0, n_atoms, 2)]
            if a == b or (min(a, b), max(a, b)) in seen:
                continue
            seen.add((min(a, b), max(a, b)))
            if rich:
                t = BOND_TYPES[int(rng.integers(len(BOND_TYPES)))]
                order = [None, 1, 2, 3][int(rng.integers(4))]
                top.add_bond(atoms[a], atoms[b], type=bt[t], order=order)
            else:
                top.add_bond(atoms[a], atoms[b])
    return top


def simple_topology(n_atoms, element="C", per_res=1):
    import mdtraj as md
    from mdtraj.core import element as elem
    top = md.Topology()
    ch = top.add_chain()
    e = elem.get_by_symbol(element)
    res = None
    for i in range(n_atoms):
        if i % per_res == 0:
            res = top.add_residue("ALA", ch)
        top.add_atom("C%d" % (i % 1000) if per_res > 1 else "CA", e, res)
    return top


def self_identifying_xyz(n_frames, n_atoms, f0=0):
    """xyz[f,a] identifies (f,a): exactly representable in float32, steps of 1/64 nm (>> any format quantum)."""
    f = (np.arange(n_frames) + f0)[:, None].astype(np.float64)
    a = np.arange(n_atoms)[None, :].astype(np.float64)
    x = f + a / 64.0
    y = -(f * 0.5 + a / 64.0)
    z = ((f * 7) % 13) + a / 32.0
    return np.stack([x, y, z], axis=-1).astype(np.float32)


def random_traj(rng, n_frames, n_atoms, cell="random", top=None, spread=1.0, per_frame_cell=False, times=True):
    import mdtraj as md
    top = top if top is not None else simple_topology(n_atoms)
    xyz = rng.normal(scale=spread, size=(n_frames, n_atoms, 3)).astype(np.float32)
    t = md.Trajectory(xyz, top)
    if times:
        t.time = np.cumsum(rng.uniform(0.5, 3.0, n_frames)).astype(np.float32)
    if cell not in (None, "none"):
        kind = None if cell == "random" else cell
        if per_frame_cell:
            ls, as_ = zip(*[random_cell(rng, kind) for _ in range(n_frames)])
            ls, as_ = np.array(ls), np.array(as_)
        else:
            l, a = random_cell(rng, kind)
            ls, as_ = np.tile(l, (n_frames, 1)), np.tile(a, (n_frames, 1))
        t.unitcell_lengths = ls.astype(np.float32)
        t.unitcell_angles = as_.astype(np.float32)
    return t


def with_asan_slice(gen, every, name="asan"):
    """Yield every case; additionally every `every`-th one a second time tagged for the sanitizer worker group `name`
    (the ASan/UBSan-instrumented build rides on a sub-stream of the same workload; 0/None disables)."""
    for k, c in enumerate(gen):
        yield c
        if every and k % every == 0:
            d = dict(c)
            d["group"] = name
            yield d
