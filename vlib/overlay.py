"""sys.meta_path finder that loads mdtraj's compiled extensions from a /verif/.build overlay.

`install()` must run before `import mdtraj`.  Python sources keep coming from /repo."""
import importlib.abc
import importlib.machinery
import importlib.util
import json
import os
import sys

_installed = None


class _Finder(importlib.abc.MetaPathFinder):
    def __init__(self, root, modules):
        self.root = root
        self.modules = set(modules)
        self.suffix = importlib.machinery.EXTENSION_SUFFIXES[0]
        self.loaded = {}

    def find_spec(self, fullname, path=None, target=None):
        if fullname not in self.modules:
            return None
        fp = os.path.join(self.root, fullname.replace(".", "/") + self.suffix)
        if not os.path.exists(fp):
            return None
        loader = importlib.machinery.ExtensionFileLoader(fullname, fp)
        self.loaded[fullname] = fp
        return importlib.util.spec_from_file_location(fullname, fp, loader=loader)


def install(root=None):
    """Install the overlay named by `root` or $VERIF_OVERLAY. Returns the finder (or None if no overlay)."""
    global _installed
    root = root or os.environ.get("VERIF_OVERLAY")
    if not root:
        return None
    if _installed is not None and _installed.root == root:
        return _installed
    with open(os.path.join(root, "overlay.json")) as f:
        info = json.load(f)
    fnd = _Finder(root, info["modules"])
    sys.meta_path.insert(0, fnd)
    _installed = fnd
    repo = os.environ.get("VERIF_REPO", "/repo")
    if repo not in sys.path:
        sys.path.insert(0, repo)
    return fnd


def loaded():
    return dict(_installed.loaded) if _installed else {}
