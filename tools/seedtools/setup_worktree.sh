#!/bin/bash
# usage: setup_worktree.sh /tmp/seed_xxx   -> scratch git worktree of /repo HEAD with compiled extensions + generated Cython C copied in
set -e
D="$1"
git -C /repo worktree add -q --detach "$D" HEAD
cd /repo
for f in $(git status --ignored --short | awk '/^!!/ {print $2}' | grep -E '\.(so|c|cpp)$'); do
  mkdir -p "$D/$(dirname $f)"; cp -p "$f" "$D/$f"
done
echo "worktree ready: $D  (run tests with: cd $D && /venv/bin/python -m pytest -q -p no:cacheprovider tests/<file>.py ; python imports mdtraj from the current directory when you cd there)"
