#!/venv/bin/python
"""usage: rebuild_ext.py <worktree> [<extension-module-name> ...]
Recompile mdtraj extension modules IN PLACE inside <worktree> from its C/C++ sources + the Cython-generated TU that sits
next to the .pyx (there is no Cython in this sandbox: edits to .pyx/.pxi have no effect; edit .c/.cpp/.h only).
Names: mdtraj.formats.xtc mdtraj.formats.trr mdtraj.formats.dcd mdtraj.formats.dtr mdtraj._rmsd mdtraj._lprmsd
       mdtraj.geometry._geometry mdtraj.geometry.drid mdtraj.geometry.neighbors mdtraj.geometry.neighborlist (default: all)"""
import os, subprocess, sys, sysconfig, tempfile, shutil
import numpy
M = "mdtraj"
# name -> dict(gen=generated TU (rel to repo), pyx=[cython sources], src=[hand written], inc=[...], lang, omp, macros)
EXTENSIONS = {
    "mdtraj.formats.xtc": dict(
        gen=f"{M}/formats/xtc/xtc.c", pyx=[f"{M}/formats/xtc/xtc.pyx", f"{M}/formats/xtc/xdrlib.pxd"],
        src=[f"{M}/formats/xtc/src/xdrfile.c", f"{M}/formats/xtc/src/xdr_seek.c", f"{M}/formats/xtc/src/xdrfile_xtc.c"],
        inc=[f"{M}/formats/xtc/include", f"{M}/formats/xtc"], lang="c", omp=False, macros=[]),
    "mdtraj.formats.trr": dict(
        gen=f"{M}/formats/xtc/trr.c", pyx=[f"{M}/formats/xtc/trr.pyx", f"{M}/formats/xtc/trrlib.pxd"],
        src=[f"{M}/formats/xtc/src/xdrfile.c", f"{M}/formats/xtc/src/xdr_seek.c", f"{M}/formats/xtc/src/xdrfile_trr.c"],
        inc=[f"{M}/formats/xtc/include", f"{M}/formats/xtc"], lang="c", omp=False, macros=[]),
    "mdtraj.formats.dcd": dict(
        gen=f"{M}/formats/dcd/dcd.c", pyx=[f"{M}/formats/dcd/dcd.pyx", f"{M}/formats/dcd/dcdlib.pxd"],
        src=[f"{M}/formats/dcd/src/dcdplugin.c"],
        inc=[f"{M}/formats/dcd/include", f"{M}/formats/dcd"], lang="c", omp=False, macros=[]),
    "mdtraj.formats.dtr": dict(
        gen=f"{M}/formats/dtr/dtr.cpp", pyx=[f"{M}/formats/dtr/dtr.pyx", f"{M}/formats/dtr/dtrlib.pxd"],
        src=[f"{M}/formats/dtr/src/dtrplugin.cxx"],
        inc=[f"{M}/formats/dtr/include", f"{M}/formats/dtr"], lang="c++", omp=False,
        macros=["DESRES_READ_TIMESTEP2=1"]),
    "mdtraj._rmsd": dict(
        gen=f"{M}/rmsd/_rmsd.cpp", pyx=[f"{M}/rmsd/_rmsd.pyx"],
        src=[f"{M}/rmsd/src/theobald_rmsd.cpp", f"{M}/rmsd/src/rotation.cpp", f"{M}/rmsd/src/center.cpp"],
        inc=[f"{M}/rmsd/include"], lang="c++", omp=True, macros=[]),
    "mdtraj._lprmsd": dict(
        gen=f"{M}/rmsd/_lprmsd.cpp", pyx=[f"{M}/rmsd/_lprmsd.pyx"],
        src=[f"{M}/rmsd/src/theobald_rmsd.cpp", f"{M}/rmsd/src/rotation.cpp", f"{M}/rmsd/src/center.cpp",
             f"{M}/rmsd/src/fancy_index.cpp", f"{M}/rmsd/src/Munkres.cpp", f"{M}/rmsd/src/euclidean_permutation.cpp"],
        inc=[f"{M}/rmsd/include"], lang="c++", omp=True, macros=[]),
    "mdtraj.geometry._geometry": dict(
        gen=f"{M}/geometry/src/_geometry.cpp",
        pyx=[f"{M}/geometry/src/_geometry.pyx", f"{M}/geometry/src/image_molecules.pxi"],
        src=[f"{M}/geometry/src/sasa.cpp", f"{M}/geometry/src/dssp.cpp", f"{M}/geometry/src/geometry.cpp"],
        inc=[f"{M}/geometry/include", f"{M}/geometry/src/kernels"], lang="c++", omp=True, macros=[]),
    "mdtraj.geometry.drid": dict(
        gen=f"{M}/geometry/drid.cpp", pyx=[f"{M}/geometry/drid.pyx"],
        src=[f"{M}/geometry/src/dridkernels.cpp", f"{M}/geometry/src/moments.cpp"],
        inc=[f"{M}/geometry/include"], lang="c++", omp=True, macros=[]),
    "mdtraj.geometry.neighbors": dict(
        gen=f"{M}/geometry/neighbors.cpp", pyx=[f"{M}/geometry/neighbors.pyx"],
        src=[f"{M}/geometry/src/neighbors.cpp"],
        inc=[f"{M}/geometry/include"], lang="c++", omp=True, macros=[]),
    "mdtraj.geometry.neighborlist": dict(
        gen=f"{M}/geometry/neighborlist.cpp", pyx=[f"{M}/geometry/neighborlist.pyx"],
        src=[f"{M}/geometry/src/neighborlist.cpp"],
        inc=[f"{M}/geometry/include"], lang="c++", omp=True, macros=[]),
}


def main():
    repo = os.path.abspath(sys.argv[1]); names = sys.argv[2:] or list(EXTENSIONS)
    suf = sysconfig.get_config_var("EXT_SUFFIX"); py_inc = sysconfig.get_paths()["include"]; np_inc = numpy.get_include()
    for name in names:
        ext = EXTENSIONS[name]; tmp = tempfile.mkdtemp()
        flags = ["-fPIC","-msse2","-mssse3","-w","-fno-strict-aliasing","-O3","-funroll-loops","-DNPY_NO_DEPRECATED_API=0"] + (["-fopenmp"] if ext["omp"] else []) + ["-D"+m for m in ext["macros"]]
        incs = ["-I"+os.path.join(repo,d) for d in ext["inc"]] + ["-I"+py_inc, "-I"+np_inc, "-I"+os.path.join(repo, os.path.dirname(ext["gen"]))]
        objs = []
        for i, s in enumerate([ext["gen"]] + ext["src"]):
            s = os.path.join(repo, s); o = os.path.join(tmp, "%d.o" % i)
            comp = "gcc" if s.endswith(".c") else "g++"; std = [] if s.endswith(".c") else ["--std=c++11"]
            subprocess.run([comp, "-c", s, "-o", o] + flags + std + incs, check=True); objs.append(o)
        out = os.path.join(repo, name.replace(".", "/") + suf)
        cc = "gcc" if ext["lang"] == "c" else "g++"
        subprocess.run([cc, "-shared", "-o", out] + objs + (["-fopenmp"] if ext["omp"] else []) + (["-lm"] if ext["lang"] == "c" else []), check=True)
        shutil.rmtree(tmp); print("rebuilt", out)
main()
